"""C09: option changes between runs never yield stale results (key + replay path).

K1 replay-path equivalence.  What a warm run prints for a fresh module is
   format(B, file_messages(A)) -- the error tuples were rendered under the options A of the
   run that cached them and are only formatted under the current options B -- while a cold run
   prints format(B, file_messages(B)).  The real Errors.file_messages / sort / remove_duplicates /
   render_messages / simplify_path / format_messages_default run under an Options proxy whose
   every attribute read is a fresh symbolic value per run; attributes that are part of the cache
   key (OPTIONS_AFFECTING_CACHE, read from the source on every run) are equal in A and B
   (otherwise the cache is abandoned).  Obligation: the two texts are identical.  Any option
   read before caching and absent from the key is a counterexample.
K2 key sensitivity.  Options.select_options_affecting_cache on two symbolic option vectors (through
   the real clone_for_module with a per-module section): vectors differing on any keyed field
   give different snapshots; python (major, minor) selects the cache directory.

Outside (stated loudly): completeness of the key for options read inside the semantic analyser /
checker (whole-program runs per option) -- not claimed, not reachable by this technique.
"""

from __future__ import annotations

import os
import shutil
import subprocess
import sys
from typing import Any

import z3

from vf import symx
from vf.report import Report, run_main, scratch
from vf.symx import Ctx, Kernel, PathAbort, SymBool, SymInt, Unsupported

PID = "C09"


class OptProxy:
    """Every attribute read is symbolic (bool options) and recorded."""

    def __init__(self, c: Ctx, tag: str, keyed: set[str], shared: dict, reads: set):
        object.__setattr__(self, "_c", c)
        object.__setattr__(self, "_tag", tag)
        object.__setattr__(self, "_keyed", keyed)
        object.__setattr__(self, "_shared", shared)
        object.__setattr__(self, "_reads", reads)
        object.__setattr__(self, "_vals", {})

    def __getattr__(self, name: str) -> Any:
        from mypy.options import Options

        proto = _PROTO
        if not hasattr(proto, name):
            raise AttributeError(name)
        self._reads.add(name)
        default = getattr(proto, name)
        if name in self._vals:
            return self._vals[name]
        if isinstance(default, bool):
            if name in self._keyed:
                # part of the cache key: equal in both runs, or the cache would be abandoned
                v = self._shared.setdefault(name, self._c.bool("both." + name))
            else:
                v = self._c.bool(f"{self._tag}.{name}")
            val: Any = bool(v)  # fork: the rendering code needs concrete flags to build strings
        elif name in ("enabled_error_codes", "disabled_error_codes"):
            # a set of error codes: contains call-arg or not (per run; shared when the option is keyed)
            from mypy import errorcodes as _codes

            key_ = name + ".contains_call_arg"
            if name in self._keyed:
                v = self._shared.setdefault(key_, self._c.bool("both." + key_))
            else:
                v = self._c.bool(f"{self._tag}.{key_}")
            val = {_codes.CALL_ARG} if bool(v) else set()
        elif name == "many_errors_threshold":
            val = -1
        else:
            val = default
        self._vals[name] = val
        return val


_PROTO: Any = None


def k1_replay_path(rep: Report) -> None:
    global _PROTO
    import mypy.build  # noqa: F401
    import mypy.errors as E
    from mypy import errorcodes as codes
    from mypy.options import OPTIONS_AFFECTING_CACHE, Options

    _PROTO = Options()
    keyed = set(OPTIONS_AFFECTING_CACHE)
    K = Kernel(
        "mypy.errors",
        ["Errors.file_messages", "Errors.sort_messages", "Errors.sort_within_context", "Errors.remove_duplicates", "Errors.render_messages", "Errors.simplify_path", "Errors.format_messages_default", "remove_path_prefix"],
        closure=False,
    )
    rep.kernels_from(K)
    rep.kernel("mypy.options.OPTIONS_AFFECTING_CACHE", symx.hashlib.sha256(repr(sorted(keyed)).encode()).hexdigest()[:16])

    def mk_infos() -> list:
        def info(line: int, msg: str, local: tuple, imp: list, sev: str = "error", code: Any = codes.MISC) -> Any:
            return E.ErrorInfo(
                import_ctx=imp, local_ctx=local, line=line, column=2, end_line=line, end_column=5, severity=sev, message=msg, code=code, blocker=False, only_once=False, module="pkg.m", target="pkg.m.f"
            )

        imp = [("main.py", 3), ("pkg/__init__.py", 1)]
        return [
            info(10, "first", (None, "f"), imp),
            info(12, "second", ("C", "meth"), imp),
            info(12, "a note", ("C", "meth"), imp, sev="note"),
            info(20, "third", (None, None), imp),
            info(20, "third", (None, None), imp),  # duplicate
        ]

    class ErrSelf:
        def __init__(self, opts: Any):
            self.options = opts
            self.error_info_map = {"pkg/m.py": mk_infos()}
            self.ignore_prefix = os.getcwd() + os.sep
            self.hide_error_codes = False

        file_messages = K["Errors.file_messages"]
        sort_messages = K["Errors.sort_messages"]
        sort_within_context = K["Errors.sort_within_context"]
        remove_duplicates = K["Errors.remove_duplicates"]
        render_messages = K["Errors.render_messages"]
        simplify_path = K["Errors.simplify_path"]
        format_messages_default = K["Errors.format_messages_default"]

    ctx = Ctx()
    found: dict[str, tuple] = {}
    reads_render: set = set()
    reads_format: set = set()
    n = {"paths": 0}

    def body(c: Ctx) -> None:
        shared: dict = {}
        ra: set = set()
        rb: set = set()
        rf: set = set()
        A = OptProxy(c, "A", keyed, shared, ra)
        B = OptProxy(c, "B", keyed, shared, rb)
        # what run 1 caches
        cached = ErrSelf(A).file_messages("pkg/m.py")
        # warm run 2: format the cached tuples under B
        Bf = OptProxy(c, "B", keyed, shared, rf)
        object.__setattr__(Bf, "_vals", B._vals)  # same option object as B
        warm = ErrSelf(Bf).format_messages_default(cached, None)
        # cold run 2: render and format under B
        cold_t = ErrSelf(B).file_messages("pkg/m.py")
        cold = ErrSelf(B).format_messages_default(cold_t, None)
        reads_render.update(ra)
        reads_format.update(rf)
        n["paths"] += 1
        c.stats["assert_queries"] += 1
        if warm == cold:
            c.stats["discharged"] += 1
            return
        c.stats["refuted"] += 1
        m = c.path_model()
        culprits = sorted(k[2:] for k, v in m.items() if k.startswith("A.") and m.get("B." + k[2:]) is not None and m.get("B." + k[2:]) != v)
        for opt in culprits or ["?"]:
            found.setdefault(f"option read before caching and not in the cache key: {opt}", (m, warm, cold))

    ctx.explore(body)
    rep.add_ctx("K1 cached-render vs cold-render equivalence", ctx, options_read_while_rendering=sorted(reads_render), options_read_while_formatting=sorted(reads_format))
    rep.twin("K1: rendering reached and reads options", n["paths"] > 0 and len(reads_render) > 0)
    for key, (m, warm, cold) in found.items():
        opt = key.rsplit(": ", 1)[1]
        rep.sample({"kernel": "K1", "class": key, "warm": warm[:4], "cold": cold[:4]})
        rep.candidate(key, f"toggling {opt} between runs: warm prints {warm[:3]} ..., cold prints {cold[:3]} ...", {k: v for k, v in m.items() if opt in k}, replay_option(opt))


def k1b_storage_path(rep: Report) -> None:
    """Like K1, one step earlier: diagnostics are *stored* (Errors.report -> add_error_info ->
    _add_error_info) under the options A of the run that fills the cache, then rendered and formatted
    as in K1 under the options B of the warm run; a cold run stores, renders and formats under B.
    Options that are part of the cache key are equal in A and B."""
    global _PROTO
    import mypy.errors as E
    from mypy import errorcodes as codes
    from mypy.options import OPTIONS_AFFECTING_CACHE, Options

    _PROTO = Options()
    keyed = set(OPTIONS_AFFECTING_CACHE)
    names = ["Errors.report", "Errors.add_error_info", "Errors._add_error_info", "Errors.is_ignored_error", "Errors.is_error_code_enabled", "Errors.note_for_info", "Errors.file_messages", "Errors.sort_messages", "Errors.sort_within_context", "Errors.remove_duplicates", "Errors.render_messages", "Errors.simplify_path", "Errors.format_messages_default", "remove_path_prefix"]
    K = Kernel("mypy.errors", names, closure=False)
    rep.kernels_from(K)

    class KErrors(E.Errors):
        pass

    for nm in names:
        if nm.startswith("Errors."):
            setattr(KErrors, nm.split(".", 1)[1], K[nm])
    ctx = Ctx(max_paths=200000)
    found: dict[str, tuple] = {}
    reads_store: set = set()
    n = {"paths": 0}
    CODES = [codes.CALL_ARG, codes.ARG_TYPE, codes.MISC]

    def store(opts: Any, which: list) -> Any:
        er = KErrors(opts)
        er.set_file("pkg/m.py", "pkg.m", opts)
        er.set_file_ignored_lines("pkg/m.py", {}, False)
        er.set_skipped_lines("pkg/m.py", set())
        er.ignore_prefix = os.getcwd() + os.sep
        for i, code in enumerate(which):
            er.report(10 + i, 2, f"problem {i}", code=code)
        return er

    def body(c: Ctx) -> None:
        shared: dict = {}
        ra: set = set()
        rb: set = set()
        A = OptProxy(c, "A", keyed, shared, ra)
        B = OptProxy(c, "B", keyed, shared, rb)
        which = [CODES[c.choose("code_of_error0", len(CODES))], CODES[c.choose("code_of_error1", len(CODES))]]
        ea = store(A, which)
        reads_store.update(ra)
        cached = ea.file_messages("pkg/m.py")
        eb = store(B, which)
        warm = eb.format_messages_default(cached, None)
        cold = eb.format_messages_default(eb.file_messages("pkg/m.py"), None)
        n["paths"] += 1
        c.stats["assert_queries"] += 1
        if warm == cold:
            c.stats["discharged"] += 1
            return
        c.stats["refuted"] += 1
        m = c.path_model()
        culprits = sorted(k[2:].split(".")[0] for k, v in m.items() if k.startswith("A.") and m.get("B." + k[2:]) is not None and m.get("B." + k[2:]) != v)
        # attribute the difference to an option only on paths where it is the single unkeyed option
        # that differs between the runs (every combination is explored, so such a path exists for
        # every option that matters on its own)
        if len(culprits) == 1:
            found.setdefault(f"option read while diagnostics are stored and not in the cache key: {culprits[0]}", (m, warm, cold))
        else:
            multi.append((culprits, m, warm, cold))

    multi: list = []
    ctx.explore(body)
    singles = {k.rsplit(": ", 1)[1] for k in found}
    for culprits, m, warm, cold in multi:
        if not culprits or not (set(culprits) & singles):
            found.setdefault(f"option read while diagnostics are stored and not in the cache key: {'+'.join(culprits) or '?'}", (m, warm, cold))
    rep.add_ctx("K1b stored-under-A vs stored-under-B equivalence", ctx, options_read_while_storing=sorted(reads_store))
    rep.twin("K1b: storing reached and reads options", n["paths"] > 0 and len(reads_store) > 0)
    for key, (m, warm, cold) in found.items():
        opt = key.rsplit(": ", 1)[1]
        rep.sample({"kernel": "K1b", "class": key, "warm": warm[:4], "cold": cold[:4]})
        rep.candidate(key, f"toggling {opt} between runs: warm prints {warm[:3]} ..., cold prints {cold[:3]} ...", {k: v for k, v in m.items() if opt in k}, replay_option(opt, program="def f(x: int) -> None: ...\nf(1, 2)\n", extra=["--show-error-code-links"] if opt == "hide_error_codes" else None))


FLAGS = {
    "enabled_error_codes": "--enable-error-code=call-arg",
    "disabled_error_codes": "--disable-error-code=call-arg",
    "show_error_context": "--show-error-context",
    "show_absolute_path": "--show-absolute-path",
    "show_column_numbers": "--show-column-numbers",
    "show_error_end": "--show-error-end",
    "hide_error_codes": "--hide-error-codes",
    "pretty": "--pretty",
    "show_error_code_links": "--show-error-code-links",
}


def replay_option(opt: str, program: "str | None" = None, extra: "list | None" = None):
    def replay(d: str) -> tuple[bool, str]:
        flag = FLAGS.get(opt)
        if flag is None:
            return False, f"no command-line flag known for option {opt}"
        work = scratch("c09-")
        try:
            os.makedirs(os.path.join(work, "pkg"))
            open(os.path.join(work, "pkg", "__init__.py"), "w").close()
            with open(os.path.join(work, "pkg", "m.py"), "w") as f:
                f.write(program or "class C:\n    def meth(self) -> int:\n        return ''\ndef f() -> int:\n    return ''\n")
            with open(os.path.join(work, "main.py"), "w") as f:
                f.write("import pkg.m\n")
            # a per-module section that matches the module (with an unrelated setting): its own
            # enable/disable lists are empty, the effective code sets come from the global ones
            with open(os.path.join(work, "mypy.ini"), "w") as f:
                f.write("[mypy]\n[mypy-pkg.*]\nwarn_return_any = True\n")
            env = dict(os.environ)
            env.pop("PYTHONPATH", None)

            always = extra

            def run(extra: list) -> tuple[int, str]:
                p = subprocess.run([sys.executable, "-m", "mypy", "--no-error-summary"] + (always or []) + extra + ["main.py"], cwd=work, capture_output=True, text=True, env=env, timeout=300)
                return p.returncode, p.stdout + p.stderr

            out = []
            bad = False
            for first, second in (([], [flag]), ([flag], [])):
                shutil.rmtree(os.path.join(work, "cache"), ignore_errors=True)
                run(["--cache-dir=cache"] + first)
                warm = run(["--cache-dir=cache"] + second)
                cold = run(["--cache-dir=" + os.devnull] + second)
                same = warm == cold
                bad = bad or not same
                out.append(f"run1 {first or '[]'} then run2 {second or '[]'}: {'SAME' if same else 'DIFFERENT'}\n  warm: {warm[1].strip()[:300]}\n  cold: {cold[1].strip()[:300]}")
        finally:
            shutil.rmtree(work, ignore_errors=True)
        with open(os.path.join(d, "replay.sh"), "w") as f:
            f.write(f"#!/bin/bash\n# in a package with an error inside a function: run mypy, then run again with {flag}; the warm output must equal a cold run's\n")
        return bad, "\n".join(out)

    return replay


def k2_key(rep: Report) -> None:
    from mypy.options import OPTIONS_AFFECTING_CACHE, OPTIONS_AFFECTING_CACHE_NO_PLATFORM, PER_MODULE_OPTIONS, Options

    K = Kernel("mypy.options", ["Options.select_options_affecting_cache"], closure=False)
    rep.kernels_from(K)
    sel = K["Options.select_options_affecting_cache"]
    proto = Options()
    bool_opts = [o for o in OPTIONS_AFFECTING_CACHE_NO_PLATFORM if isinstance(getattr(proto, o), bool)]
    ctx = Ctx()
    found: dict[str, tuple] = {}
    n = {"p": 0}

    def body(c: Ctx) -> None:
        # two option vectors; every keyed bool option symbolic; compare snapshots term-wise
        a, b = Options(), Options()
        diffs = []
        for o in bool_opts:
            va, vb = c.bool("A." + o), c.bool("B." + o)
            setattr(a, o, va)
            setattr(b, o, vb)
            diffs.append(va.t != vb.t)
        pa, la = sel(a)
        pb, lb = sel(b)
        n["p"] += 1
        eqs = []
        for x, y in zip(la, lb):
            if isinstance(x, SymBool) or isinstance(y, SymBool):
                eqs.append(symx.to_z3bool(x) == symx.to_z3bool(y))
            elif x != y:
                eqs.append(z3.BoolVal(False))
        same_snapshot = z3.And(pa == pb, len(la) == len(lb), *eqs)
        # obligation: same snapshot => no keyed option differs
        ok = c.check(z3.Implies(same_snapshot, z3.Not(z3.Or(*diffs))), "equal snapshot => equal keyed options")
        if not ok and c.cex:
            m = c.cex[-1].model
            culprits = sorted(o for o in bool_opts if m.get("A." + o) != m.get("B." + o))
            found.setdefault(f"keyed option does not influence the snapshot: {culprits[:3]}", (m,))
        c.check(len(la) == len(OPTIONS_AFFECTING_CACHE_NO_PLATFORM), "one value per keyed option")

    ctx.explore(body)
    rep.add_ctx("K2 snapshot sensitivity to keyed options", ctx, keyed_bool_options=len(bool_opts))
    rep.twin("K2 reached", n["p"] > 0)
    for key, (m,) in found.items():
        rep.sample({"kernel": "K2", "class": key})

        def replay(d: str, m: dict = m) -> tuple[bool, str]:
            a, b = Options(), Options()
            for o in bool_opts:
                setattr(a, o, bool(m.get("A." + o, False)))
                setattr(b, o, bool(m.get("B." + o, False)))
            same = a.select_options_affecting_cache() == b.select_options_affecting_cache()
            differ = [o for o in bool_opts if getattr(a, o) != getattr(b, o)]
            return same and bool(differ), f"options differing {differ[:4]} but snapshots equal: {same}"

        rep.candidate(key, "two option vectors differing on a keyed option have equal snapshots", m, replay)


# list options whose order is semantic: ChainedPlugin consults plugins in configuration order and
# the first plugin that returns a hook wins (mypy/plugin.py, ChainedPlugin._find_hook)
ORDER_SEMANTIC = {"plugins"}


def k2b_nonbool_key(rep: Report) -> None:
    """Keyed options that are not flags: two symbolic values per option (lists / sets of up to two
    symbolic names, symbolic strings); equal snapshots must imply equal option values -- as ordered
    lists where the order is semantic (plugins), as sets otherwise."""
    from mypy.options import OPTIONS_AFFECTING_CACHE_NO_PLATFORM, Options

    K = Kernel("mypy.options", ["Options.select_options_affecting_cache"], closure=False)
    sel = K["Options.select_options_affecting_cache"]
    proto = Options()
    opts = [o for o in list(OPTIONS_AFFECTING_CACHE_NO_PLATFORM) + ["platform"] if not isinstance(getattr(proto, o), bool)]
    found: dict[str, tuple] = {}
    n = {"p": 0, "same": 0}

    class Code:
        def __init__(self, code: Any):
            self.code = code

    for opt in opts:
        default = getattr(proto, opt)
        ctx = Ctx()

        def mk(c: Ctx, tag: str) -> tuple[Any, list]:
            if isinstance(default, str):
                v = c.int(f"{tag}.{opt}", 0, 3)  # a name, identified by its rank in string order
                return v, [v]
            ln = c.choose(f"{tag}.{opt}.len", 3)
            elems = [c.int(f"{tag}.{opt}[{i}]", 0, 3) for i in range(ln)]
            if ln == 2:
                c.assume(elems[0].t != elems[1].t)  # no duplicate entries
            if isinstance(default, set):
                return {Code(e) for e in elems}, elems
            return list(elems), elems

        def body(c: Ctx) -> None:
            a, b = Options(), Options()
            va, ea = mk(c, "A")
            vb, eb = mk(c, "B")
            setattr(a, opt, va)
            setattr(b, opt, vb)
            pa, la = sel(a)
            pb, lb = sel(b)
            n["p"] += 1

            def eq(x: Any, y: Any) -> Any:
                if isinstance(x, (list, tuple)) and isinstance(y, (list, tuple)):
                    if len(x) != len(y):
                        return z3.BoolVal(False)
                    return z3.And(*[eq(p, q) for p, q in zip(x, y)]) if x else z3.BoolVal(True)
                if symx.is_sym(x) or symx.is_sym(y):
                    return symx.to_z3int(x) == symx.to_z3int(y)
                return z3.BoolVal(x == y)

            same_snapshot = z3.And(eq(pa, pb), z3.BoolVal(len(la) == len(lb)), *[eq(x, y) for x, y in zip(la, lb)])
            if isinstance(default, str):
                same_value = ea[0].t == eb[0].t
            elif opt in ORDER_SEMANTIC:
                same_value = eq(ea, eb)
            else:
                same_value = z3.And(z3.BoolVal(len(ea) == len(eb)), *[z3.Or(*[x.t == y.t for y in eb]) for x in ea])
            if c.feasible(same_snapshot):
                n["same"] += 1
            ok = c.check(z3.Implies(same_snapshot, same_value), f"{opt}: equal snapshot => equal value")
            if not ok and c.cex:
                m = c.cex[-1].model
                found.setdefault(f"two different values of the keyed option {opt} give the same cache key", (opt, m))

        ctx.explore(body)
        rep.add_ctx(f"K2b snapshot sensitivity: {opt}", ctx, kind=type(default).__name__, order_semantic=opt in ORDER_SEMANTIC)
    rep.twin("K2b reached, equal snapshots feasible", n["p"] > 0 and n["same"] > 0)
    for key, (opt, m) in found.items():
        rep.sample({"kernel": "K2b", "class": key, "model": {k: v for k, v in m.items() if opt in k}})

        def replay(d: str, opt: str = opt, m: dict = m) -> tuple[bool, str]:
            from mypy import errorcodes

            default = getattr(Options(), opt)
            names = ["n0.py", "n1.py", "n2.py", "n3.py"]
            ecs = sorted(errorcodes.error_codes.values(), key=lambda e: e.code)[:4]

            def conc(tag: str) -> Any:
                if isinstance(default, str):
                    return names[int(m.get(f"{tag}.{opt}", 0))]
                ln = int(m.get(f"{tag}.{opt}.len", 0))
                idx = [int(m.get(f"{tag}.{opt}[{i}]", 0)) for i in range(ln)]
                if isinstance(default, set):
                    return {ecs[i] for i in idx}
                return [names[i] for i in idx]

            a, b = Options(), Options()
            va, vb = conc("A"), conc("B")
            setattr(a, opt, va)
            setattr(b, opt, vb)
            same = a.select_options_affecting_cache() == b.select_options_affecting_cache()
            differ = (va != vb) if (opt in ORDER_SEMANTIC or isinstance(default, (str, set))) else (set(va) != set(vb))
            return bool(same and differ), f"{opt} = {va!r} and {opt} = {vb!r} give {'the same' if same else 'different'} select_options_affecting_cache() snapshots"

        rep.candidate(key, f"option {opt}: {m}", m, replay)


def main(args: Any) -> int:
    rep = Report(PID, args.tier, "symbolic execution (symx/z3) of the real render/format functions under an Options proxy whose reads are symbolic per run; key sensitivity on symbolic option vectors; replay = two real runs sharing a cache vs a cold run")
    rep.bounds += [
        "K1: one file with five diagnostics (function / method / top-level contexts, an import chain, a note, a duplicate); every bool option read is symbolic per run (keyed options equal in both runs); non-bool options at their defaults",
        "K1b: two diagnostics with codes from {call-arg, arg-type, misc} stored through Errors.report under options A (run 1) or B (cold run 2); every bool option read symbolic per run, keyed options equal",
        "K2: all bool options of OPTIONS_AFFECTING_CACHE symbolic in two vectors",
        "K2b: each non-flag keyed option on its own (the others at their defaults): two symbolic values, lists/sets of at most two distinct names out of four, strings one of four names; plugins compared as an ordered list, the other collections as sets",
    ]
    rep.assumptions += ["hash of the snapshot treated as injective", "the working directory (ignore_prefix) is the same in both runs"]
    rep.outside += ["completeness of OPTIONS_AFFECTING_CACHE with respect to options read inside the semantic analyser / checker (e.g. --warn-redundant-casts): needs whole-program runs per option; NOT claimed"]
    only = set(args.only.split(",")) if args.only else None
    if only is None or "K1" in only:
        k1_replay_path(rep)
        k1b_storage_path(rep)
    if only is None or "K2" in only:
        k2_key(rep)
        k2b_nonbool_key(rep)
    return rep.finish()


if __name__ == "__main__":
    run_main(PID, main)
