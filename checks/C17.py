"""C17: configuration precedence and module-pattern semantics.

K1 glob semantics: for every pattern of <= 3 (quick) / 4 (thorough) components over {a, b, *},
   the regex text produced by the real Options.compile_glob is translated to a z3 regular
   expression and compared with the documented rule ("stars match zero or more module
   components") over the language of ALL valid dotted names -- unbounded in name length
   (regex equivalence decided by z3's sequence/regex theory).
K2 precedence: the real build_per_module_cache / clone_for_module / apply_changes on solver-chosen
   sets of sections (concrete, well-structured wildcard, unstructured wildcard) in solver-chosen
   file order with symbolic values for a probe option; the resolved value must be the term of
   the winner under the documented order.
"""

from __future__ import annotations

import itertools
import os
import re
import shutil
import subprocess
import sys
from typing import Any

import z3

from vf import symx
from vf.report import Report, run_main, scratch
from vf.symx import Ctx, Kernel, PathAbort, SymBool, Unsupported

PID = "C17"

ALPHA = z3.Union(z3.Range("a", "c"), z3.Re("_"))
COMP = z3.Plus(ALPHA)
ANYCH = z3.Union(ALPHA, z3.Re("."))


def py_regex_to_z3(pat: str) -> Any:
    """Translate the subset of Python regex syntax that compile_glob emits.  Fails closed."""
    assert pat.endswith("\\Z"), pat
    body = pat[:-2]
    i = 0
    parts: list = []

    def parse_seq(stop: str) -> list:
        nonlocal i
        seq: list = []
        while i < len(body) and body[i] not in stop:
            ch = body[i]
            if ch == "\\":
                seq.append(z3.Re(body[i + 1]))
                i += 2
            elif ch == ".":
                if i + 1 < len(body) and body[i + 1] == "*":
                    seq.append(z3.Star(ANYCH))
                    i += 2
                else:
                    seq.append(ANYCH)
                    i += 1
            elif ch == "(":
                i += 1
                inner = parse_seq(")")
                if i >= len(body) or body[i] != ")":
                    raise Unsupported("regex: unbalanced group in " + pat)
                i += 1
                g = z3.Concat(*inner) if len(inner) > 1 else inner[0]
                if i < len(body) and body[i] == "?":
                    g = z3.Option(g)
                    i += 1
                seq.append(g)
            elif ch.isalnum() or ch == "_":
                seq.append(z3.Re(ch))
                i += 1
            else:
                raise Unsupported(f"regex syntax {ch!r} in {pat!r} is outside the translated subset")
        return seq

    parts = parse_seq("")
    if i != len(body):
        raise Unsupported("regex: trailing text in " + pat)
    if not parts:
        return z3.Re("")
    return z3.Concat(*parts) if len(parts) > 1 else parts[0]


def doc_rule(pattern: str) -> Any:
    """Documented semantics over dot-TERMINATED names: a literal component is itself, a star is
    zero or more components."""
    seq = []
    for part in pattern.split("."):
        if part == "*":
            seq.append(z3.Star(z3.Concat(COMP, z3.Re("."))))
        else:
            seq.append(z3.Concat(z3.Re(part), z3.Re(".")))
    return z3.Concat(*seq) if len(seq) > 1 else seq[0]


def k1_glob(rep: Report, tier: str) -> None:
    from mypy.options import Options

    K = Kernel("mypy.options", ["Options.compile_glob"], closure=False)
    rep.kernels_from(K)
    o = Options()
    maxn = 3 if tier == "quick" else 4
    pats = []
    for n in range(1, maxn + 1):
        for combo in itertools.product(["a", "b", "*"], repeat=n):
            p = ".".join(combo)
            # the code only compiles patterns with a star before the last position ("unstructured")
            if "*" in p[:-1]:
                pats.append(p)
    valid = z3.Plus(z3.Concat(COMP, z3.Re(".")))  # dot-terminated valid names
    solver_s = 0.0
    obligations = ok = 0
    found: dict[str, tuple] = {}
    import time

    for p in pats:
        code_text = o.compile_glob(p).pattern
        code_re = z3.Concat(py_regex_to_z3(code_text), z3.Re("."))
        doc_re = doc_rule(p)
        s = z3.Solver()
        s.set("timeout", 60000)
        x = z3.String("name")
        s.add(z3.InRe(x, valid))
        s.add(z3.InRe(x, code_re) != z3.InRe(x, doc_re))
        t = time.time()
        r = str(s.check())
        solver_s += time.time() - t
        obligations += 1
        if r == "unsat":
            ok += 1
        elif r == "sat":
            name = s.model()[x].as_string().rstrip(".")
            in_code = bool(o.compile_glob(p).match(name))
            if p.startswith("*") and not in_code:
                key = "compile_glob: a leading '*' does not match zero components"
            else:
                key = f"compile_glob pattern {p!r} {'accepts' if in_code else 'rejects'} {name!r} against the documented rule"
            found.setdefault(key, (p, name, in_code))
        else:
            rep.error(f"inconclusive regex query for pattern {p}")
    rep.add_counts(obligations, ok, solver_s=solver_s)
    rep.section("K1 compile_glob vs documented rule (regex equivalence)", patterns=len(pats), equivalent=ok, solver_s=round(solver_s, 2))
    rep.twin("K1: patterns checked", len(pats) > 0 and ok > 0)
    rep.sample({"kernel": "K1", "patterns": pats[:6], "regex_of_first": o.compile_glob(pats[0]).pattern})
    for key, (p, name, in_code) in found.items():
        rep.sample({"kernel": "K1", "class": key, "pattern": p, "name": name, "code_matches": in_code})
        rep.candidate(key, f"section pattern {p!r} vs module {name!r}: code {'matches' if in_code else 'does not match'}, documented rule says the opposite", {"pattern": p, "name": name}, replay_glob(p, name, not in_code))


def replay_glob(pattern: str, name: str, doc_matches: bool):
    def replay(d: str) -> tuple[bool, str]:
        work = scratch("c17-")
        try:
            parts = name.split(".")
            cur = work
            for comp in parts[:-1]:
                cur = os.path.join(cur, comp)
                os.makedirs(cur, exist_ok=True)
                open(os.path.join(cur, "__init__.py"), "w").close()
            with open(os.path.join(cur, parts[-1] + ".py"), "w") as f:
                f.write('x: int = ""\n')
            with open(os.path.join(work, "mypy.ini"), "w") as f:
                f.write(f"[mypy]\n[mypy-{pattern}]\nignore_errors = True\n")
            env = dict(os.environ)
            env.pop("PYTHONPATH", None)
            p = subprocess.run([sys.executable, "-m", "mypy", "--no-error-summary", "--no-incremental", "--cache-dir=" + os.devnull, "-m", name], cwd=work, capture_output=True, text=True, env=env, timeout=300)
            applied = "error:" not in p.stdout
            for fn in ("mypy.ini",):
                shutil.copy(os.path.join(work, fn), d)
        finally:
            shutil.rmtree(work, ignore_errors=True)
        with open(os.path.join(d, "replay.txt"), "w") as f:
            f.write(f"module {name} containing `x: int = \"\"`; mypy.ini section [mypy-{pattern}] ignore_errors = True; run: mypy -m {name}\n")
        return applied != doc_matches, f"section [mypy-{pattern}] {'applies' if applied else 'does not apply'} to module {name}; documented rule: {'matches' if doc_matches else 'no match'}; output: {p.stdout.strip()[:200]}"

    return replay


SECTION_POOL = ["a.b", "a", "a.*", "a.b.*", "*.b", "a.*.b", "b.*"]
MODULES = ["a", "a.b", "a.b.b", "a.a.b", "b", "b.b", "c"]


def k2_precedence(rep: Report, tier: str) -> None:
    from mypy.options import Options

    K = Kernel("mypy.options", ["Options.build_per_module_cache", "Options.clone_for_module", "Options.apply_changes"], closure=False)
    rep.kernels_from(K)
    nsec = 2 if tier == "quick" else 3
    found: dict[str, tuple] = {}
    ctx = Ctx(max_paths=2_000_000)
    n = {"p": 0}

    def body(c: Ctx) -> None:
        picks = []
        for i in range(nsec):
            k = c.choose(f"section{i}", len(SECTION_POOL) + 1)
            if k < len(SECTION_POOL) and SECTION_POOL[k] not in picks:
                picks.append(SECTION_POOL[k])
        mod = MODULES[c.choose("module", len(MODULES))]
        o = Options()
        gval = c.bool("global_value")
        o.warn_no_return = gval  # type: ignore[assignment]
        g2 = c.bool("global_value2")
        o.warn_return_any = g2  # type: ignore[assignment]
        vals = {}
        vals2 = {}
        for i, sec in enumerate(picks):
            which = c.choose(f"sets[{sec}]", 3)  # 0: first option, 1: second, 2: both
            d: dict = {}
            if which in (0, 2):
                vals[sec] = c.bool(f"value[{sec}]")
                d["warn_no_return"] = vals[sec]
            if which in (1, 2):
                vals2[sec] = c.bool(f"value2[{sec}]")
                d["warn_return_any"] = vals2[sec]
            o.per_module_options[sec] = d
        # run the real resolution (methods re-read from source)
        o.build_per_module_cache = lambda: K["Options.build_per_module_cache"](o)  # type: ignore[method-assign]
        o.clone_for_module = lambda m: K["Options.clone_for_module"](o, m)  # type: ignore[method-assign]
        resolved = o.clone_for_module(mod)
        got = resolved.warn_no_return
        n["p"] += 1
        # documented order: concrete > unstructured (later wins) > structured (more specific wins) > global
        structured = [s for s in picks if s.endswith(".*") and "*" not in s[:-1]]

        def winner(values: dict, glob: Any) -> Any:
            want: Any = glob
            best = None
            for s in structured:
                base = s[:-2]
                if s in values and (mod == base or mod.startswith(base + ".")):
                    if best is None or len(base) > len(best[:-2]):
                        best = s
            if best is not None:
                want = values[best]
            for s in picks:  # file order
                if s in values and "*" in s[:-1] and o.compile_glob(s).match(mod):
                    want = values[s]
            if mod in picks and mod in values:
                want = values[mod]
            return want

        for label, gotv, values, glob in (("warn_no_return", got, vals, gval), ("warn_return_any", resolved.warn_return_any, vals2, g2)):
            ok = c.check(symx.to_z3bool(gotv) == symx.to_z3bool(winner(values, glob)), f"resolved {label} = documented winner")
            if not ok and c.cex:
                found.setdefault(f"precedence: sections {picks} module {mod}: resolved value is not the documented winner", (picks, mod, c.cex[-1].model))
        # unused-section report: a section is reported unused iff it did not contribute
        unused = o.get_unused_configs()
        for s in picks:
            applies = (s == mod) or (s in structured and (mod == s[:-2] or mod.startswith(s[:-2] + "."))) or ("*" in s[:-1] and bool(o.compile_glob(s).match(mod)))
            if not applies and s not in unused and not any("*" in u[:-1] for u in [s]):
                c.check(False, f"section {s} reported as used although it does not apply to {mod}")

    ctx.explore(body)
    rep.add_ctx("K2 per-module precedence", ctx, sections=nsec, pool=SECTION_POOL, modules=MODULES)
    rep.twin("K2 reached", n["p"] > 0)
    for x in ctx.cex:
        if x.label.startswith("section "):
            found.setdefault("unused-config bookkeeping: " + x.label, ([], "", x.model))
    for key, (picks, mod, m) in found.items():
        rep.sample({"kernel": "K2", "class": key, "model": m})
        rep.candidate(key, f"per-module resolution for {mod} with sections {picks}: model {m}", m, replay_precedence(picks, mod, m))


def replay_precedence(picks: list, mod: str, m: dict):
    def replay(d: str) -> tuple[bool, str]:
        if not picks:
            return False, "no end-to-end replay"
        work = scratch("c17p-")
        try:
            parts = mod.split(".")
            cur = work
            for comp in parts[:-1]:
                cur = os.path.join(cur, comp)
                os.makedirs(cur, exist_ok=True)
                open(os.path.join(cur, "__init__.py"), "w").close()
            with open(os.path.join(cur, parts[-1] + ".py"), "w") as f:
                # missing return: reported iff warn_no_return; returning Any: reported iff warn_return_any
                f.write("from typing import Any\ndef f(x: int) -> int:\n    if x:\n        return 1\ndef g(x: Any) -> int:\n    return x\n")
            ini = "[mypy]\nwarn_no_return = %s\nwarn_return_any = %s\n" % (m.get("global_value", True), m.get("global_value2", True))
            for s in picks:
                ini += f"[mypy-{s}]\n"
                which = m.get(f"sets[{s}]", 2)
                if which in (0, 2):
                    ini += f"warn_no_return = {m.get(f'value[{s}]', True)}\n"
                if which in (1, 2):
                    ini += f"warn_return_any = {m.get(f'value2[{s}]', True)}\n"
            with open(os.path.join(work, "mypy.ini"), "w") as f:
                f.write(ini)
            shutil.copy(os.path.join(work, "mypy.ini"), d)
            env = dict(os.environ)
            env.pop("PYTHONPATH", None)
            p = subprocess.run([sys.executable, "-m", "mypy", "--no-error-summary", "--no-incremental", "--cache-dir=" + os.devnull, "-m", mod], cwd=work, capture_output=True, text=True, env=env, timeout=300)
            got = "Missing return statement" in p.stdout
            got2 = "Returning Any" in p.stdout
        finally:
            shutil.rmtree(work, ignore_errors=True)
        # documented winner
        want = m.get("global_value", True)
        best = None
        sets1 = lambda s_: m.get(f"sets[{s_}]", 2) in (0, 2)  # noqa: E731
        for s in picks:
            if s.endswith(".*") and "*" not in s[:-1] and sets1(s):
                base = s[:-2]
                if (mod == base or mod.startswith(base + ".")) and (best is None or len(base) > len(best) - 2):
                    best = s
        if best:
            want = m.get(f"value[{best}]", True)
        from mypy.options import Options

        for s in picks:
            if "*" in s[:-1] and sets1(s) and Options().compile_glob(s).match(mod):
                want = m.get(f"value[{s}]", True)
        if mod in picks and sets1(mod):
            want = m.get(f"value[{mod}]", True)
        # second option, same documented rule
        want2 = m.get("global_value2", True)
        sets2 = lambda s_: m.get(f"sets[{s_}]", 2) in (1, 2)  # noqa: E731
        best2 = None
        for s in picks:
            if s.endswith(".*") and "*" not in s[:-1] and sets2(s):
                base = s[:-2]
                if (mod == base or mod.startswith(base + ".")) and (best2 is None or len(base) > len(best2) - 2):
                    best2 = s
        if best2:
            want2 = m.get(f"value2[{best2}]", True)
        for s in picks:
            if "*" in s[:-1] and sets2(s) and Options().compile_glob(s).match(mod):
                want2 = m.get(f"value2[{s}]", True)
        if mod in picks and sets2(mod):
            want2 = m.get(f"value2[{mod}]", True)
        bad = bool(got) != bool(want) or bool(got2) != bool(want2)
        return bad, f"mypy.ini:\n{ini}\nmodule {mod}: warn_no_return effective={got} (documented winner {want}), warn_return_any effective={got2} (documented winner {want2})"

    return replay


def k4_toml_overrides(rep: Report) -> None:
    """[[tool.mypy.overrides]] tables are flattened to the per-module sections an equivalent ini
    file has: module m gets exactly the keys of the tables that list m (later tables adding keys)."""
    import copy

    from mypy.config_parser import ConfigTOMLValueError

    K = Kernel("mypy.config_parser", ["destructure_overrides"], closure=False)
    rep.kernels_from(K)
    fn = K["destructure_overrides"]
    mods = ["a", "b", "c.*"]
    keys = ["k1", "k2"]
    ctx = Ctx()
    found: dict[str, tuple] = {}
    n = {"p": 0}

    def body(c: Ctx) -> None:
        tables = []
        for t in range(2):
            msel = c.choose(f"modules{t}", 7) + 1  # non-empty subset of mods
            ml = [mods[i] for i in range(3) if (msel >> i) & 1]
            ksel = c.choose(f"keys{t}", 3) + 1
            tab: dict = {"module": ml if (len(ml) > 1 or c.choose(f"aslist{t}", 2)) else ml[0]}
            for i, k in enumerate(keys):
                if (ksel >> i) & 1:
                    tab[k] = f"v{t}{k}"
            tables.append(tab)
        data = {"mypy": {"overrides": tables, "strict": True}}
        try:
            res = fn(copy.deepcopy(data))
        except ConfigTOMLValueError:
            conflict = any(k in tables[0] and k in tables[1] and set(_ml(tables[0])) & set(_ml(tables[1])) for k in keys)
            c.check(conflict, "conflict error only for a key set twice for one module")
            return
        n["p"] += 1
        for m_ in mods:
            want: dict = {}
            for tab in tables:
                if m_ in _ml(tab):
                    want.update({k: v for k, v in tab.items() if k != "module"})
            got = res.get(f"mypy-{m_}")
            c.stats["assert_queries"] += 1
            if (got or {}) == want and (got is not None) == any(m_ in _ml(t_) for t_ in tables):
                c.stats["discharged"] += 1
            else:
                c.stats["refuted"] += 1
                found.setdefault("pyproject.toml overrides: a module's section differs from the equivalent ini sections", (tables, m_, got, want))

    def _ml(tab: dict) -> list:
        return tab["module"] if isinstance(tab["module"], list) else [tab["module"]]

    ctx.explore(body)
    rep.add_ctx("K4 pyproject.toml overrides flattening", ctx, flattened=n["p"])
    rep.twin("K4 reached", n["p"] > 0)
    for key, (tables, m_, got, want) in found.items():
        rep.sample({"kernel": "K4", "tables": tables, "module": m_, "got": got, "want": want})

        def replay(d: str, tables: Any = tables, m_: str = m_, want: Any = want) -> tuple[bool, str]:
            import copy as _c

            from mypy.config_parser import destructure_overrides

            res = destructure_overrides({"mypy": {"overrides": _c.deepcopy(tables)}})
            got2 = res.get(f"mypy-{m_}") or {}
            with open(os.path.join(d, "replay.py"), "w") as f:
                f.write(f"from mypy.config_parser import destructure_overrides\nprint(destructure_overrides({{'mypy': {{'overrides': {tables!r}}}}}))\n# expected section mypy-{m_}: {want}\n")
            return got2 != want, f"tables {tables}: section for {m_} is {got2}, an equivalent ini file gives {want}"

        rep.candidate(key, f"override tables {tables}: module {m_} gets {got} instead of {want}", {"tables": tables}, replay)


# --- K3: a boolean flag means the same on the command line, in an ini section and in a toml table
def k3_flag_sources(rep: Report) -> None:
    """For every boolean command-line flag --foo-bar of the real argparse table (read from
    main.define_options on every run), the config key foo_bar with a symbolic boolean value w, given
    as an ini string ('True'/'False'/'1'/'0'/'yes'/'no'...) or as a toml boolean, is pushed through
    the real config_parser.parse_section.  Obligation: when the key is accepted, it sets the same
    Options attribute as the flag, to the flag's value when w is true and to the opposite when w
    is false (so `no_x = False`, `allow_x = True`, `show_x = ...` all invert consistently)."""
    import configparser
    import io

    from mypy import config_parser as CP
    from mypy.main import define_options
    from mypy.options import Options

    K = Kernel("mypy.config_parser", ["parse_section", "convert_to_boolean"], closure=False)
    K.ns["convert_to_boolean"] = K["convert_to_boolean"]
    rep.kernels_from(K)
    fn = K["parse_section"]
    parser = define_options()[0]
    flags = []
    for a in parser._actions:
        if a.nargs == 0 and isinstance(a.const, bool) and not a.dest.startswith("special-opts:"):
            for ostr in a.option_strings:
                if ostr.startswith("--"):
                    flags.append((ostr, a.dest, a.const))
    rep.kernel("mypy.main.define_options[boolean flag table]", symx.hashlib.sha256(repr(sorted(flags)).encode()).hexdigest()[:16])
    import re as _re

    docs = open(os.path.join(os.environ.get("VERIF_REPO", "/repo"), "docs/source/config_file.rst"), encoding="utf-8").read()
    documented = set(_re.findall(r"^\.\. confval:: (\w+)", docs, _re.M))
    TRUE_WORDS = ["True", "1", "yes", "on", "true"]
    FALSE_WORDS = ["False", "0", "no", "off", "false"]
    ctx = Ctx(max_paths=2_000_000)
    found: dict = {}
    n = {"accepted": 0, "unrecognised": 0}
    unrecognised: set = set()

    def body(c: Ctx) -> None:
        ostr, dest, const = flags[c.choose("flag", len(flags))]
        key = ostr[2:].replace("-", "_")
        w = bool(c.bool("config_value"))
        source = c.choose("source", 2)  # 0 = ini section, 1 = toml table
        if source == 0:
            word = (TRUE_WORDS if w else FALSE_WORDS)[c.choose("spelling", 5)]
            cp = configparser.RawConfigParser()
            cp.read_string(f"[mypy]\n{key} = {word}\n")
            section: Any = cp["mypy"]
            types = CP.ini_config_types
        else:
            section = {key: w}
            types = CP.toml_config_types
        err = io.StringIO()
        results, _ = fn("cfg: ", Options(), lambda: None, section, types, err)
        results = {k: v for k, v in results.items() if k not in ("disable_error_code", "enable_error_code")}
        if not results:
            n["unrecognised"] += 1
            unrecognised.add(key)
            if key in documented:
                # docs/source/config_file.rst documents this key: it is a supported way to give the setting
                c.stats["assert_queries"] += 1
                c.stats["refuted"] += 1
                found.setdefault(f"documented config key is not accepted ({'ini' if source == 0 else 'toml'})", (ostr, key, w, source, {"stderr": err.getvalue().strip()[:200]}, {dest: const if w else (not const)}))
            return
        n["accepted"] += 1
        want = {dest: const if w else (not const)}
        c.stats["assert_queries"] += 1
        if results == want:
            c.stats["discharged"] += 1
        else:
            c.stats["refuted"] += 1
            form = "no_" if key.startswith("no_") else ("allow_" if key.startswith("allow") else ("disallow_" if key.startswith("disallow") else ("show_" if key.startswith("show_") else "plain")))
            found.setdefault(f"config key form '{form}' disagrees with the command-line flag of the same name ({'ini' if source == 0 else 'toml'})", (ostr, key, w, source, results, want))

    ctx.explore(body)
    rep.add_ctx("K3 boolean flags: command line vs ini vs toml", ctx, flags=len(flags), outcomes=dict(n), keys_not_accepted_in_config=sorted(unrecognised))
    rep.twin("K3: some keys accepted", n["accepted"] > 0)
    for key_, (ostr, key, w, source, got, want) in found.items():
        rep.sample({"kernel": "parse_section", "class": key_, "flag": ostr, "key": key, "value": w, "got": {k: repr(v) for k, v in got.items()}, "want": want})

        def replay(d: str, ostr: str = ostr, key: str = key, w: bool = w, source: int = source) -> tuple[bool, str]:
            # the real command-line parser vs the real config-file parser, through process_options
            from mypy.main import process_options

            open(os.path.join(d, "x.py"), "w").close()
            cfg = os.path.join(d, "mypy.ini" if source == 0 else "pyproject.toml")
            with open(cfg, "w") as f:
                f.write(f"[mypy]\n{key} = {w}\n" if source == 0 else f"[tool.mypy]\n{key} = {'true' if w else 'false'}\n")
            err = io.StringIO()
            try:
                _, o_cfg = process_options(["--config-file", cfg, os.path.join(d, "x.py")], stderr=err, stdout=err)
                inverse = None
                _, o_flag = process_options(["--config-file", os.devnull, ostr, os.path.join(d, "x.py")], stderr=err, stdout=err)
                _, o_none = process_options(["--config-file", os.devnull, os.path.join(d, "x.py")], stderr=err, stdout=err)
            except SystemExit as e:
                return False, f"process_options exited ({e}): {err.getvalue()[-300:]}"
            dest = next(a.dest for a in define_options()[0]._actions if ostr in a.option_strings)
            vf_, vc, vn = getattr(o_flag, dest), getattr(o_cfg, dest), getattr(o_none, dest)
            want_ = vf_ if w else (not vf_)
            return vc != want_, f"{ostr} sets {dest}={vf_} (default {vn}); config {key} = {w} sets {dest}={vc}, expected {want_}"

        rep.candidate(key_, f"{ostr} vs config key {key} = {w}: parse_section gives {got}, expected {want}", {"flag": ostr, "value": w}, replay)


# --- K5: inline '# mypy:' configuration reaches the parser when files are parsed as a batch
def k5_inline_batch(rep: Report) -> None:
    """BuildManager.parse_all (native-parser branch) run from source on duck states.  The solver chooses
    how many files are in the batch, which of them were parsed already, which carry raw data and which
    have inline configuration, and whether workers are used.  Obligation: every file that is
    deserialised is deserialised under its *own* path and under the options object that
    apply_inline_configuration has installed for it (inline comments are applied last, per file)."""
    import contextlib

    K = Kernel("mypy.build", ["BuildManager.parse_all"], closure=False)
    rep.kernels_from(K)
    fn = K["BuildManager.parse_all"]
    ctx = Ctx(max_paths=500000)
    found: dict = {}
    n = {"loaded": 0, "inline": 0}

    def body(c: Ctx) -> None:
        nst = 2 + c.choose("files_in_batch", 2)
        loads: list = []

        class Raw:
            def __init__(self, comments: list):
                self.source_hash = "H"
                self.mypy_comments = comments
                self.defs: list = []

        class Tree:
            def __init__(self, raw: Any):
                self.raw_data = raw

        class St:
            def __init__(self, i: int):
                self.id = f"m{i}"
                self.xpath = f"m{i}.py"
                self.options = f"options-of-m{i}-before-inline"
                self.tree: Any = Tree(None) if bool(c.bool(f"m{i}_already_parsed")) else None
                self.has_inline = bool(c.bool(f"m{i}_has_inline_config"))
                self.raw = bool(c.bool(f"m{i}_has_raw_data"))
                self.needs_parse = True
                self.source_hash = None
                self.source = None
                self.early_errors: list = []
                self.size_hint = 0

            def wrap_context(self) -> Any:
                return contextlib.nullcontext()

            def apply_inline_configuration(self, comments: Any) -> None:
                if comments:
                    self.options = f"options-of-{self.id}-after-inline"
                    n["inline"] += 1

            def get_source(self) -> str:
                return ""

            def parse_file(self) -> None:
                self.tree = Tree(None)

            def semantic_analysis_pass1(self) -> None:
                pass

            def check_blockers(self) -> None:
                pass

            def setup_errors(self) -> None:
                pass

        states = [St(i) for i in range(nst)]

        class Errs:
            error_info_map: dict = {}

            @staticmethod
            def is_blockers() -> bool:
                return False

        class FS:
            @staticmethod
            def exists(p: str, real_only: bool = False) -> bool:
                return True

        class Opts:
            native_parser = True

        class Mgr:
            options = Opts
            fscache = FS
            shadow_map: dict = {}
            errors = Errs
            workers = ["w"] if bool(c.bool("parallel_workers")) else []
            ast_cache: dict = {}
            modules: dict = {}

            @staticmethod
            def log(*a: Any) -> None:
                pass

            @staticmethod
            def post_parse_all(sts: list) -> None:
                pass

            @staticmethod
            def parse_files_threaded_raw(sts: list) -> tuple:
                for st in sts:
                    st.tree = Tree(Raw(["# mypy: x"] if st.has_inline else []) if st.raw else None)
                return list(sts), set(sts)

        def load_from_raw(path: str, id_: str, raw: Any, errors: Any, options: Any, imports_only: bool = False) -> Any:
            loads.append((path, id_, options, imports_only))
            return Tree(raw if imports_only else None)

        K.ns["load_from_raw"] = load_from_raw
        K.ns["MIN_SIZE_HINT"] = 1
        mg = Mgr()
        mg.ast_cache, mg.modules = {}, {}
        fn(mg, states)
        by_id = {st.id: st for st in states}
        n["loaded"] += len(loads)
        c.stats["assert_queries"] += 1
        bad = None
        for path, id_, options, imports_only in loads:
            st = by_id[id_]
            want = f"options-of-{id_}-after-inline" if st.has_inline else f"options-of-{id_}-before-inline"
            if path != st.xpath:
                bad = f"{id_} deserialised under the path {path}"
            elif options != want:
                bad = f"{id_} deserialised under {options!r} instead of {want!r}"
            elif imports_only != bool(mg.workers):
                bad = f"{id_}: imports_only={imports_only} with workers={bool(mg.workers)}"
        if bad is None:
            c.stats["discharged"] += 1
        else:
            c.stats["refuted"] += 1
            cls = "batch parsing: a file is deserialised under options that do not include its inline configuration" if "instead of" in bad else "batch parsing: " + bad.split(" ", 1)[1][:60]
            found.setdefault(cls, (bad, c.path_model()))

    ctx.explore(body)
    rep.add_ctx("K5 inline configuration in batch parsing (BuildManager.parse_all)", ctx, deserialisations=n["loaded"], inline_applied=n["inline"])
    rep.twin("K5: deserialisations with inline configuration reached", n["loaded"] > 0 and n["inline"] > 0)
    for key, (bad, m) in found.items():
        rep.sample({"kernel": "parse_all", "class": key, "detail": bad, "model": m})

        def replay(d: str, bad: str = bad) -> tuple[bool, str]:
            # real run: two files parsed in one batch by the native parser, one with an inline option that
            # changes how its AST is built / checked; compare with checking that file under the flag
            files = {"a.py": "# mypy: implicit-optional\ndef f(x: int = None) -> None: ...\n", "b.py": "import a\ndef g(y: int) -> None: ...\n"}
            for fn_, text in files.items():
                with open(os.path.join(d, fn_), "w") as f:
                    f.write(text)
            env = dict(os.environ)
            env.pop("PYTHONPATH", None)
            outs = []
            for flags in (["--native-parser"], []):
                p = subprocess.run([sys.executable, "-m", "mypy", "--no-incremental", "--no-error-summary"] + flags + ["a.py", "b.py"], cwd=d, env=env, capture_output=True, text=True, timeout=300)
                outs.append((p.returncode, (p.stdout + p.stderr).strip()))
            return outs[0] != outs[1], f"{bad}; real runs on a two-file batch with an inline option that shapes the AST: native parser {outs[0]}, default parser {outs[1]}"

        rep.candidate(key, bad, m, replay)


def main(args: Any) -> int:
    rep = Report(PID, args.tier, "z3 regular-expression equivalence for the glob semantics (unbounded name length); symbolic execution (symx/z3) of the real per-module option resolution with solver-chosen section sets and symbolic option values; replay with real mypy.ini files")
    import mypy.build  # noqa: F401

    rep.bounds += [
        "K1: all unstructured patterns of <= 3 (quick) / 4 (thorough) components over {a, b, *}; module names = all dotted names over [a-c_]+ of ANY length",
        "K2: 2 (quick) / 3 (thorough) sections drawn from a pool of 7 patterns in solver-chosen order, module from a pool of 7 names, two probe options (warn_no_return, warn_return_any), each section setting a solver-chosen subset with symbolic values",
        "K4: two [[tool.mypy.overrides]] tables, module lists = non-empty subsets of {a, b, c.*}, keys = non-empty subsets of {k1, k2}",
    ]
    rep.assumptions += ["K2 uses the real compile_glob for unstructured membership (glob semantics are K1's subject)", "translation of the emitted regex covers: escaped literals, '.', '.*', groups with '?', '\\Z' (fails closed otherwise)"]
    rep.outside += ["the flag table x configuration source matrix (finite enumeration of whole runs)", "inline '# mypy:' comments and command-line vs config-file precedence"]
    only = set(args.only.split(",")) if args.only else None
    if only is None or "K1" in only:
        k1_glob(rep, args.tier)
    if only is None or "K2" in only:
        k2_precedence(rep, args.tier)
    if only is None or "K3" in only:
        k3_flag_sources(rep)
        rep.bounds.append("K3: every boolean flag of the real command-line table x config value true/false x ini (5 spellings each) / toml; one key per section")
    if only is None or "K5" in only:
        k5_inline_batch(rep)
        rep.bounds.append("K5: batches of 2-3 files; already parsed / raw data present / inline configuration present per file and worker mode symbolic")
    if only is None or "K4" in only:
        k4_toml_overrides(rep)
    return rep.finish()


if __name__ == "__main__":
    run_main(PID, main)
