"""C05 (restricted fragment): mypyc-compiled code behaves like the interpreted source.

Translation validation over the int / bool / fixed-width fragment: for each function of a
generated corpus (expression trees to depth 3 with if/elif/else, conditional expressions,
chained comparisons, and/or/not, augmented assignment, early return, literals) and of the
one-operation corpus shared with C15, the final IR of the real mypyc pipeline is executed
symbolically (vf/irsem.py) side by side with the Python source itself on symx proxies; one SMT
obligation per path: same returned value (canonical representation) or same exception type, for
EVERY argument tuple.  Counterexamples are replayed by compiling the function with mypyc and
calling compiled and interpreted versions on the model's arguments.
"""

from __future__ import annotations

import os
from typing import Any

from vf import c15_ir, symx, tv
from vf.report import Report, run_main

PID = "C05"


def main(args: Any) -> int:
    rep = Report(PID, args.tier, "translation validation: symbolic execution of the final mypyc IR (real pipeline) against symbolic execution of the Python source on pysem proxies; z3 decides equality per path for all argument values; replay by a real mypyc build")
    import mypyc.irbuild.expression as EX
    import mypyc.irbuild.ll_builder as LB
    import mypyc.irbuild.statement as ST
    import mypyc.lower.int_ops as LI
    import mypyc.transform.exceptions as TE

    for m in (EX, ST, LB, LI, TE):
        rep.kernel(m.__name__, symx.source_hash(m.__file__))
    n = 120 if args.tier == "quick" else 1500
    rep.bounds += [
        f"{n} generated functions (seed VERIF_SEED) with <= 3 int parameters, nesting depth <= 3, no calls except runtime helpers with a contract; plus the one-operation corpus; all argument values",
        "programs whose IR leaves the modelled op subset are skipped and counted (programs_skipped_unsupported_ir)",
    ]
    rep.assumptions += [
        "runtime helpers are contracts (vf/irsem.py CONTRACTS), their C fast paths are verified in C15/K1, slow paths trusted",
        "the check stops at the IR: C emission (emitfunc) and C compiler optimisation levels are not modelled",
    ]
    rep.outside += ["objects, strings, containers, classes, generators, exception messages, the three build modes, optimisation levels"]
    seed = rep.seed
    c15_ir.run_corpus(rep, tv.gen_programs(seed, n), "generated int programs (mypyc IR vs Python semantics)", "mypyc IR")
    nl = 60 if args.tier == "quick" else 600
    rep.bounds.append(f"{nl} generated functions with loops: for over range(constant <= 3) or range(x % 2|3), counted while loops, break / continue; symbolic trip counts explored up to 8 iterations")
    c15_ir.run_corpus(rep, tv.gen_programs(seed, nl, loops=True), "generated int programs with loops", "mypyc IR")
    rep.bounds.append("7 tuple / sequential assignment shapes with a list[int] argument of symbolic length: list stores are compared as an ordered sequence of (slot, value) events")
    c15_ir.run_corpus(rep, tv.assign_programs(), "assignment statements with index targets (order of target evaluation)", "mypyc IR")
    c15_ir.run_corpus(rep, tv.one_op_programs(), "one-operation functions (shared with C15/K2)", "mypyc IR")
    from vf import c05_wrappers

    c05_wrappers.run(rep, args.tier)
    return rep.finish(level="translation_validation")


if __name__ == "__main__":
    run_main(PID, main)
