"""C15: compiled numeric primitives compute exactly what Python computes.

K1 (E3): the C fast paths of mypyc/lib-rt (CPy.h inline functions and int_ops.c) are compiled
   with clang -O1 -emit-llvm on every run, translated to SMT and checked for ALL 64-bit operand
   words: whenever the fast path answers, the answer is a short tagged int holding exactly the
   Python result; the slow path (PyLong arithmetic) is a stub = uninterpreted function; every
   nsw/nuw/shift/division precondition on the way is a separate no-UB obligation.
K2 (E4, vf/c15_ir.py when present): lowered mypyc IR of one-operation functions vs pysem.
"""

from __future__ import annotations

import os
import shutil
import time
from typing import Any, Callable

import z3

from vf import llvm2smt as L
from vf import symx
from vf.report import Report, run_main, scratch

PID = "C15"

SHIM_HEAD = """
#include <Python.h>
#include "CPy.h"
"""

# name -> (C signature+body, arg kinds)
BIN = ["Add", "Subtract", "Multiply", "FloorDivide", "Remainder", "And", "Or", "Xor", "Lshift", "Rshift"]
UN = ["Negate", "Invert"]
CMP = ["IsEq", "IsNe", "IsLt", "IsLe", "IsGt", "IsGe"]


def shim_source() -> str:
    s = SHIM_HEAD
    for n in BIN:
        s += f"CPyTagged k_{n}(CPyTagged l, CPyTagged r) {{ return CPyTagged_{n}(l, r); }}\n"
    for n in UN:
        s += f"CPyTagged k_{n}(CPyTagged n) {{ return CPyTagged_{n}(n); }}\n"
    for n in CMP:
        s += f"bool k_{n}(CPyTagged l, CPyTagged r) {{ return CPyTagged_{n}(l, r); }}\n"
    s += "bool k_TooBig(Py_ssize_t v) { return CPyTagged_TooBig(v); }\n"
    s += "bool k_TooBigInt64(int64_t v) { return CPyTagged_TooBigInt64(v); }\n"
    s += "bool k_IsAddOverflow(CPyTagged l, CPyTagged r) { return CPyTagged_IsAddOverflow(l + r, l, r); }\n"
    s += "bool k_IsSubtractOverflow(CPyTagged l, CPyTagged r) { return CPyTagged_IsSubtractOverflow(l - r, l, r); }\n"
    s += "bool k_IsMultiplyOverflow(CPyTagged l, CPyTagged r) { return CPyTagged_IsMultiplyOverflow(l, r); }\n"
    s += "bool k_IsShortLshiftOverflow(Py_ssize_t x, Py_ssize_t sh) { return IsShortLshiftOverflow(x, sh); }\n"
    # non-inline functions of int_ops.c are compiled from the real file
    s += '#include "int_ops.c"\n'
    return s


STUB_NAMES_2 = {n: f"CPyTagged_{n}_" for n in ["Add", "Subtract", "Multiply", "FloorDivide", "Remainder", "Lshift", "Rshift"]}
STUB_NAMES_2.update({"And": "CPyTagged_BitwiseLongOp_", "Or": "CPyTagged_BitwiseLongOp_", "Xor": "CPyTagged_BitwiseLongOp_"})


class Oblig:
    def __init__(self, kernel: str, label: str, domain: str):
        self.kernel = kernel
        self.label = label
        self.domain = domain
        self.result = "?"
        self.time = 0.0
        self.model: Any = None


class K1:
    def __init__(self, rep: Report, funcs: dict, timeout_ms: int):
        self.rep = rep
        self.funcs = funcs
        self.timeout_ms = timeout_ms
        self.obls: list[Oblig] = []
        self.solver_s = 0.0

    # ---- helpers
    def prove(self, kernel: str, label: str, domain: str, hyps: list, goal: Any, vars_: dict) -> bool:
        # top-level conjunctions are discharged conjunct by conjunct (smaller queries)
        if z3.is_and(goal) and goal.num_args() > 1 and domain == "int":
            ok = True
            for i in range(goal.num_args()):
                ok = self.prove(kernel, f"{label} [{i + 1}/{goal.num_args()}]", domain, hyps, goal.arg(i), vars_) and ok
            return ok
        t = time.time()
        r = "unknown"
        for attempt, seed in enumerate((0, 7, 23)):
            s = z3.Solver()
            s.set("timeout", self.timeout_ms)
            if attempt:
                s.set("random_seed", seed)
                s.set("smt.random_seed", seed)
            for h in hyps:
                s.add(h)
            s.add(z3.Not(goal))
            r = str(s.check())
            if r != "unknown":
                break
        dt = time.time() - t
        self.solver_s += dt
        o = Oblig(kernel, label, domain)
        o.result = {"unsat": "proved", "sat": "refuted", "unknown": "unknown"}[r]
        o.time = dt
        if r == "sat":
            m = s.model()
            o.model = {k: symx.z3_to_py(m.eval(v, model_completion=True)) for k, v in vars_.items()}
        self.obls.append(o)
        return r == "unsat"

    def reachable(self, kernel: str, label: str, hyps: list, cond: Any) -> bool:
        s = z3.Solver()
        s.set("timeout", self.timeout_ms)
        for h in hyps:
            s.add(h)
        s.add(cond)
        t = time.time()
        r = str(s.check())
        self.solver_s += time.time() - t
        if r == "unknown":
            self.rep.error(f"inconclusive reachability query: {kernel} {label}")
        return r == "sat"

    def exec_bv(self, name: str, nargs: int, stubs: dict, widths: "list[int] | None" = None):
        ex = L.Executor(self.funcs, stubs, arith="bv")
        names = ["l", "r", "c"][:nargs]
        args = [z3.BitVec(n, (widths or [64] * nargs)[i]) for i, n in enumerate(names)]
        res = ex.run(name, args)
        return ex, args, res

    def exec_int(self, name: str, nargs: int, stubs: dict, widths: "list[int] | None" = None):
        ex = L.IntExecutor(self.funcs, stubs)
        names = ["l", "r", "c"][:nargs]
        args = [z3.Int(n) for n in names]
        ws = widths or [64] * nargs
        rng = [z3.And(a >= -(2 ** (w - 1)), a < 2 ** (w - 1)) for a, w in zip(args, ws)]
        res = ex.run(name, args)
        return ex, args, res, rng + res.axioms + ex.range_axioms

    def ub_obligations(self, kernel: str, domain: str, hyps: list, res: L.Result, vars_: dict) -> None:
        for e in res.events:
            if e.kind == "ub":
                self.prove(kernel, "no UB: " + e.name, domain, hyps, z3.Not(e.cond), vars_)


def S(x: Any) -> Any:  # short tagged int (bit-vector)
    return (x & 1) == 0


def V128(x: Any) -> Any:
    return z3.SignExt(64, x) >> 1


def sval(x: Any) -> Any:
    return x >> 1


def run_k1(rep: Report, tier: str) -> None:
    work = scratch("c15-")
    try:
        ir = L.compile_ir(shim_source(), work)
    finally:
        shutil.rmtree(work, ignore_errors=True)
    funcs = L.parse_module(ir)
    k = K1(rep, funcs, 90000 if tier == "quick" else 300000)
    for name, f in funcs.items():
        if name.startswith("k_") or name in ("CPyTagged_FromSsize_t", "CPyTagged_FromInt64", "CPyInt64_Divide", "CPyInt64_Remainder", "CPyInt32_Divide", "CPyInt32_Remainder", "CPyInt16_Divide", "CPyInt16_Remainder"):
            rep.kernel("lib-rt:" + name, L.func_hash(f))
    twins: dict[str, bool] = {}

    # ---------------- bit-vector domain kernels
    def binary_bv(n: str, exact: Callable[[Any, Any, Any], Any], extra_pre: "Callable[[Any, Any], Any] | None" = None) -> None:
        slowname = STUB_NAMES_2[n]
        ex, (l, r), res = k.exec_bv("k_" + n, 2, {slowname: L.uf_stub(slowname)})
        calls = [e for e in res.events if e.kind == "call"]
        slow = z3.Or(*[e.cond for e in calls]) if calls else z3.BoolVal(False)
        R = res.ret
        vs = {"l": l, "r": r}
        k.prove(n, "fast path => operands and result short, value exact", "bv", [z3.Not(slow)], z3.And(S(l), S(r), S(R), exact(l, r, R)), vs)
        if calls:
            k.prove(n, "slow path => result is the slow-path callee's", "bv", [slow], z3.Or(*[z3.And(e.cond, R == e.result) for e in calls]), vs)
        k.ub_obligations(n, "bv", [], res, vs)
        twins[n] = k.reachable(n, "fast", [], z3.Not(slow)) and k.reachable(n, "slow", [], slow)

    binary_bv("Add", lambda l, r, R: V128(R) == V128(l) + V128(r))
    binary_bv("Subtract", lambda l, r, R: V128(R) == V128(l) - V128(r))
    binary_bv("And", lambda l, r, R: sval(R) == (sval(l) & sval(r)))
    binary_bv("Or", lambda l, r, R: sval(R) == (sval(l) | sval(r)))
    binary_bv("Xor", lambda l, r, R: sval(R) == (sval(l) ^ sval(r)))
    binary_bv(
        "Rshift",
        lambda l, r, R: z3.And(sval(r) >= 0, sval(R) == z3.If(z3.ULT(sval(r), 64), sval(l) >> sval(r), z3.If(sval(l) < 0, z3.BitVecVal(-1, 64), z3.BitVecVal(0, 64)))),
    )
    binary_bv(
        "Lshift",
        lambda l, r, R: z3.And(sval(r) >= 0, z3.ULT(sval(r), 64), z3.SignExt(64, R) == (z3.SignExt(64, l) << z3.ZeroExt(64, sval(r)))),
    )
    for n, exact in (("Negate", lambda x, R: V128(R) == -V128(x)), ("Invert", lambda x, R: V128(R) == -V128(x) - 1)):
        slowname = f"CPyTagged_{n}_"
        ex, (x,), res = k.exec_bv("k_" + n, 1, {slowname: L.uf_stub(slowname)})
        calls = [e for e in res.events if e.kind == "call"]
        slow = z3.Or(*[e.cond for e in calls])
        R = res.ret
        k.prove(n, "fast path => operand and result short, value exact", "bv", [z3.Not(slow)], z3.And(S(x), S(R), exact(x, R)), {"l": x})
        k.prove(n, "slow path => result is the slow-path callee's", "bv", [slow], z3.Or(*[z3.And(e.cond, R == e.result) for e in calls]), {"l": x})
        k.ub_obligations(n, "bv", [], res, {"l": x})
        twins[n] = k.reachable(n, "fast", [], z3.Not(slow)) and k.reachable(n, "slow", [], slow)

    # comparisons.  Canonical-form invariant of the tagged representation: a boxed (long)
    # operand holds a value outside the short range, hence differs from every short value.
    for n in CMP:
        slowname = "CPyTagged_IsEq_" if n in ("IsEq", "IsNe") else "CPyTagged_IsLt_"
        ex, (l, r), res = k.exec_bv("k_" + n, 2, {slowname: L.uf_stub(slowname, 1)})
        calls = [e for e in res.events if e.kind == "call"]
        slow = z3.Or(*[e.cond for e in calls])
        R = res.ret
        pyop = {"IsEq": lambda a, b: a == b, "IsNe": lambda a, b: a != b, "IsLt": lambda a, b: a < b, "IsLe": lambda a, b: a <= b, "IsGt": lambda a, b: a > b, "IsGe": lambda a, b: a >= b}[n]
        vs = {"l": l, "r": r}
        want_short = z3.If(pyop(sval(l), sval(r)), z3.BitVecVal(1, 1), z3.BitVecVal(0, 1))
        k.prove(n, "fast path, both short => Python comparison of the values", "bv", [z3.Not(slow), S(l), S(r)], R == want_short, vs)
        if n in ("IsEq", "IsNe"):
            k.prove(n, "fast path with a boxed right operand => values differ (canonical form)", "bv", [z3.Not(slow), z3.Not(z3.And(S(l), S(r)))], z3.And(S(l), R == (0 if n == "IsEq" else 1)), vs)
        else:
            k.prove(n, "fast path only when both operands are short", "bv", [z3.Not(slow)], z3.And(S(l), S(r)), vs)
        twins[n] = k.reachable(n, "fast", [], z3.Not(slow)) and k.reachable(n, "slow", [], slow)

    # range predicates
    for n in ("TooBig", "TooBigInt64"):
        ex, (v,), res = k.exec_bv("k_" + n, 1, {})
        fits = z3.And(v >= -(2**62), v < 2**62)
        k.prove(n, "true iff value << 1 does not fit a short tagged int", "bv", [], (res.ret == 1) == z3.Not(fits), {"l": v})
        twins[n] = True
    ex, (l, r), res = k.exec_bv("k_IsAddOverflow", 2, {})
    k.prove("IsAddOverflow", "true iff signed l + r overflows", "bv", [], (res.ret == 1) == z3.Not(z3.And(z3.BVAddNoOverflow(l, r, True), z3.BVAddNoUnderflow(l, r))), {"l": l, "r": r})
    ex, (l, r), res = k.exec_bv("k_IsSubtractOverflow", 2, {})
    k.prove("IsSubtractOverflow", "true iff signed l - r overflows", "bv", [], (res.ret == 1) == z3.Not(z3.And(z3.BVSubNoOverflow(l, r), z3.BVSubNoUnderflow(l, r, True))), {"l": l, "r": r})
    ex, (x, sh), res = k.exec_bv("k_IsShortLshiftOverflow", 2, {})
    k.prove("IsShortLshiftOverflow", "for 0 <= shift < 64: true iff x << shift loses information", "bv", [sh >= 0, sh < 64], (res.ret == 1) == (z3.SignExt(64, x << sh) != (z3.SignExt(64, x) << z3.ZeroExt(64, sh))), {"l": x, "r": sh})
    k.ub_obligations("IsShortLshiftOverflow", "bv", [sh >= 0, sh < 64], res, {"l": x, "r": sh})

    # boxing: a value is boxed iff it does not fit (this establishes the canonical-form invariant)
    for n, stub in (("CPyTagged_FromSsize_t", "PyLong_FromSsize_t"), ("CPyTagged_FromInt64", "PyLong_FromLongLong")):
        stubs = {s_: L.uf_stub(s_) for s_ in ("PyLong_FromSsize_t", "PyLong_FromLongLong", "PyLong_FromLong")}
        ex, (v,), res = k.exec_bv(n, 1, stubs)
        calls = [e for e in res.events if e.kind == "call"]
        slow = z3.Or(*[e.cond for e in calls]) if calls else z3.BoolVal(False)
        fits = z3.And(v >= -(2**62), v < 2**62)
        k.prove(n, "unboxed iff the value fits; unboxed word = value << 1", "bv", [], z3.And(slow == z3.Not(fits), z3.Implies(fits, res.ret == (v << 1))), {"l": v})
        k.prove(n, "boxed result carries the tag bit", "bv", [slow], (res.ret & 1) == 1, {"l": v})
        k.ub_obligations(n, "bv", [], res, {"l": v})
        twins[n] = k.reachable(n, "fast", [], z3.Not(slow)) and k.reachable(n, "slow", [], slow)

    # ---------------- integer domain kernels (multiplication / division)
    def even(x: Any) -> Any:
        return x % 2 == 0

    def pymod_witness(x: Any, y: Any, m: Any, q: Any) -> Any:
        """m = x mod y (Python): range/sign condition plus divisibility witnessed by the C quotient
        q or q-1 (uniqueness of quotient and remainder is the standard lemma)."""
        return z3.And(y != 0, z3.If(y > 0, z3.And(m >= 0, m < y), z3.And(m <= 0, m > y)), z3.Or(x == q * y + m, x == (q - 1) * y + m))

    def binary_int(n: str, exact: Callable[[Any, Any, Any, Any], Any], words: bool = False) -> None:
        slowname = STUB_NAMES_2[n]
        # (1) generic operand words: the fast path is only taken for two short operands
        ex, (l, r), res, hyps = k.exec_int("k_" + n, 2, {slowname: L.int_uf_stub(slowname)})
        calls = [e for e in res.events if e.kind == "call"]
        slow = z3.Or(*[e.cond for e in calls])
        vs = {"l": l, "r": r}
        k.prove(n, "fast path => both operands short", "int", hyps + [z3.Not(slow)], z3.And(even(l), even(r)), vs)
        k.prove(n, "slow path => result is the slow-path callee's", "int", hyps + [slow], z3.Or(*[z3.And(e.cond, res.ret == e.result) for e in calls]), vs)
        twins[n] = k.reachable(n, "fast", hyps, z3.Not(slow)) and k.reachable(n, "slow", hyps, slow)
        k.ub_obligations(n, "int", hyps, res, vs)
        if words:
            R0 = res.ret
            k.prove(n, "fast path => result short and exact", "int", hyps + [z3.Not(slow)], z3.And(even(R0), R0 >= -(2**63), R0 < 2**63, exact(l / 2, r / 2, R0, None)), vs)
            return
        # (2) short operands l = 2a, r = 2b (the IR is executed on the words 2a, 2b, so products of
        #     the values appear as the single monomial a*b and the query stays near-linear)
        ex2 = L.IntExecutor(funcs, {slowname: L.int_uf_stub(slowname)})
        a, b = z3.Int("a"), z3.Int("b")
        res2 = ex2.run("k_" + n, [2 * a, 2 * b])
        hyps2 = [a >= -(2**62), a < 2**62, b >= -(2**62), b < 2**62] + res2.axioms + ex2.range_axioms
        calls2 = [e for e in res2.events if e.kind == "call"]
        slow2 = z3.Or(*[e.cond for e in calls2])
        R = res2.ret
        q = ex2.divs[0][2] if getattr(ex2, "divs", None) else None
        vs2 = {"a": a, "b": b}
        k.prove(n, "fast path on short operands => result short and exact", "int", hyps2 + [z3.Not(slow2)], z3.And(even(R), R >= -(2**63), R < 2**63, exact(a, b, R, q)), vs2)
        for e in res2.events:
            if e.kind == "ub":
                k.prove(n, "no UB (short operands): " + e.name, "int", hyps2, z3.Not(e.cond), vs2)

    binary_int("Multiply", lambda a, b, R, q: R == 2 * (a * b))
    def floordiv_char(a: Any, b: Any, qv: Any) -> Any:
        """qv = a // b (Python) characterised by the remainder a - qv*b lying between 0 and b"""
        m = a - qv * b
        return z3.And(b != 0, z3.If(b > 0, z3.And(m >= 0, m < b), z3.And(m <= 0, m > b)))

    binary_int("FloorDivide", lambda a, b, R, q: floordiv_char(a, b, R / 2), words=True)
    binary_int("Remainder", lambda a, b, R, q: pymod_witness(2 * a, 2 * b, R, q))
    ex, (l, r), res = k.exec_bv("k_IsMultiplyOverflow", 2, {})
    prod = z3.SignExt(64, sval(l)) * z3.SignExt(64, sval(r))
    k.prove("IsMultiplyOverflow", "false (for short operands) => the product of the values fits a short tagged int", "bv", [S(l), S(r), res.ret == 0], z3.And(prod >= -(2**62), prod < 2**62), {"l": l, "r": r})

    # fixed-width division helpers of int_ops.c
    for w in (64, 32, 16):
        for what in ("Divide", "Remainder"):
            fn = f"CPyInt{w}_{what}"
            if fn not in funcs:
                rep.error(f"{fn} missing from the compiled IR")
                continue

            def errstub(ex_: Any, args: list, pc: Any, res_: L.Result, mem: Any) -> Any:
                res_.events.append(L.Event("call", pc, "PyErr_SetString", args))
                return None

            ex, (x, y), res, hyps = k.exec_int(fn, 2, {"PyErr_SetString": errstub}, [w, w])
            errs = [e for e in res.events if e.kind == "call" and e.name == "PyErr_SetString"]
            gl = getattr(ex, "globals_seen", {})

            def exc_is(e: L.Event, name: str) -> Any:
                want = [v for v, nm in gl.items() if nm == "@" + name]
                return z3.Or(*[e.args[0] == v for v in want]) if want else z3.BoolVal(False)

            zde = z3.Or(*[z3.And(e.cond, exc_is(e, "PyExc_ZeroDivisionError")) for e in errs]) if errs else z3.BoolVal(False)
            ove = z3.Or(*[z3.And(e.cond, exc_is(e, "PyExc_OverflowError")) for e in errs]) if errs else z3.BoolVal(False)
            anyerr = z3.Or(*[e.cond for e in errs]) if errs else z3.BoolVal(False)
            vs = {"l": x, "r": y}
            lo = -(2 ** (w - 1))
            k.prove(fn, "ZeroDivisionError iff divisor is 0", "int", hyps, zde == (y == 0), vs)
            if what == "Divide":
                k.prove(fn, "OverflowError iff MIN // -1", "int", hyps, ove == z3.And(x == lo, y == -1), vs)
                k.prove(fn, "no error => floor division", "int", hyps + [z3.Not(anyerr)], floordiv_char(x, y, res.ret), vs)
            else:
                k.prove(fn, "no OverflowError for remainder", "int", hyps, z3.Not(ove), vs)
                divs = getattr(ex, "divs", [])
                if divs:
                    # the MIN % -1 special case returns 0 without dividing
                    k.prove(fn, "no error => Python modulo", "int", hyps + [z3.Not(anyerr)], z3.Or(z3.And(x == lo, y == -1, res.ret == 0), pymod_witness(x, y, res.ret, divs[0][2])), vs)
                else:
                    k.prove(fn, "no error => Python modulo", "int", hyps + [z3.Not(anyerr)], res.ret == symx.py_mod(x, y), vs)
            k.prove(fn, "error => error sentinel returned", "int", hyps + [anyerr], res.ret == -113, vs)
            k.ub_obligations(fn, "int", hyps, res, vs)
            twins[fn] = k.reachable(fn, "ok", hyps, z3.Not(anyerr)) and k.reachable(fn, "err", hyps, anyerr)

    # ---------------- accounting
    proved = sum(1 for o in k.obls if o.result == "proved")
    unknown = [o for o in k.obls if o.result == "unknown"]
    refuted = [o for o in k.obls if o.result == "refuted"]
    rep.add_counts(len(k.obls), proved, queries=len(k.obls) + 2 * len(twins), solver_s=k.solver_s, inconclusive=len(unknown))
    rep.section(
        "K1 lib-rt fast paths (LLVM IR -> SMT)",
        kernels=sorted({o.kernel for o in k.obls}),
        obligations=len(k.obls),
        proved=proved,
        refuted=len(refuted),
        unknown=len(unknown),
        solver_s=round(k.solver_s, 2),
        slowest=[{"kernel": o.kernel, "label": o.label, "domain": o.domain, "s": round(o.time, 2)} for o in sorted(k.obls, key=lambda o: -o.time)[:5]],
    )
    for n, ok in twins.items():
        rep.twin(f"K1 {n}: both fast and slow/err outcomes satisfiable", ok)
    for o in unknown:
        rep.error(f"inconclusive: {o.kernel}: {o.label} ({o.domain}, {o.time:.0f}s)")
    for o in k.obls[:3]:
        rep.sample({"kernel": o.kernel, "obligation": o.label, "domain": o.domain, "result": o.result, "s": round(o.time, 3)})
    for o in refuted:
        rep.sample({"kernel": o.kernel, "obligation": o.label, "model": o.model})
        from vf import mypyc_replay

        rep.candidate(f"lib-rt {o.kernel}: {o.label}", f"operand words {o.model} violate: {o.label}", o.model, mypyc_replay.replay_primitive(o.kernel, o.model))


DIGITS_SHIM = """
#include <Python.h>
#include "CPy.h"
#include "int_ops.c"
static inline __attribute__((always_inline)) uint64_t recon(digit *buf, Py_ssize_t size) {
    Py_ssize_t len = size < 0 ? -size : size;
    uint64_t v = 0;
    if (len > 0) v |= (uint64_t)buf[0];
    if (len > 1) v |= (uint64_t)buf[1] << PyLong_SHIFT;
    if (len > 2) v |= (uint64_t)buf[2] << (2 * PyLong_SHIFT);
    return v;
}
uint64_t k_digits_value(CPyTagged n) { if (n & 1) return 0; digit buf[3] = {0, 0, 0}; Py_ssize_t size; GetIntDigits(n, &size, buf); return recon(buf, size); }
int64_t k_digits_size(CPyTagged n) { if (n & 1) return 0; digit buf[3] = {0, 0, 0}; Py_ssize_t size; GetIntDigits(n, &size, buf); return size; }
uint64_t k_digit0(CPyTagged n) { if (n & 1) return 0; digit buf[3] = {0, 0, 0}; Py_ssize_t size; GetIntDigits(n, &size, buf); return buf[0]; }
uint64_t k_digit1(CPyTagged n) { if (n & 1) return 0; digit buf[3] = {0, 0, 0}; Py_ssize_t size; GetIntDigits(n, &size, buf); return buf[1]; }
uint64_t k_digit2(CPyTagged n) { if (n & 1) return 0; digit buf[3] = {0, 0, 0}; Py_ssize_t size; GetIntDigits(n, &size, buf); return buf[2]; }
uint64_t k_shift(void) { return PyLong_SHIFT; }
"""


def run_digits(rep: Report, tier: str) -> None:
    """int_ops.c GetIntDigits on a short tagged int (the digit view used by the bitwise slow path):
    sign, minimal digit count and value of the base-2^PyLong_SHIFT digits, for every short int."""
    work = scratch("c15d-")
    try:
        ir = L.compile_ir(DIGITS_SHIM, work, opt="-O2")
    finally:
        shutil.rmtree(work, ignore_errors=True)
    funcs = L.parse_module(ir)
    for name in ("k_digits_value", "k_digits_size", "k_digit0", "k_digit1", "k_digit2"):
        rep.kernel("lib-rt:" + name, L.func_hash(funcs[name]))
    k = K1(rep, funcs, 60000)
    n = z3.BitVec("n", 64)
    vs = {"n": n}

    def ex(name: str) -> Any:
        return L.Executor(funcs, {}, arith="bv").run(name, [n]).ret

    value, size, d0, d1, d2 = (ex(x) for x in ("k_digits_value", "k_digits_size", "k_digit0", "k_digit1", "k_digit2"))
    SH = 30  # PyLong_SHIFT of 64-bit CPython; checked below against the header
    short = (n & 1) == 0
    v = n >> 1
    absv = z3.If(v < 0, -v, v)
    ln = z3.If(size < 0, -size, size)
    B = z3.BitVecVal(1 << SH, 64)
    hyps = [short]
    k.prove("GetIntDigits", "the digits denote |value|", "bv", hyps, value == absv, vs)
    k.prove("GetIntDigits", "the sign of the size is the sign of the value (zero counts as one digit)", "bv", hyps, (size < 0) == (v < 0), vs)
    k.prove("GetIntDigits", "digit count is minimal: 1 below 2^30, 2 below 2^60, else 3", "bv", hyps, ln == z3.If(z3.ULT(absv, B), z3.BitVecVal(1, 64), z3.If(z3.ULT(absv, z3.BitVecVal(1 << (2 * SH), 64)), z3.BitVecVal(2, 64), z3.BitVecVal(3, 64))), vs)
    k.prove("GetIntDigits", "every digit is below the base", "bv", hyps, z3.And(z3.ULT(d0, B), z3.ULT(d1, B), z3.ULT(d2, B)), vs)
    sh = L.Executor(funcs, {}, arith="bv").run("k_shift", []).ret
    shv = sh if isinstance(sh, int) else z3.simplify(sh).as_long()
    if shv != SH:
        rep.error(f"PyLong_SHIFT is {shv}, the digit kernel assumes {SH}")
    rep.twin("GetIntDigits: one-, two- and three-digit values reachable", all(k.reachable("GetIntDigits", f"len {i}", [short], ln == i) for i in (1, 2, 3)))
    bad = [o for o in k.obls if o.result != "proved"]
    rep.section("K1d GetIntDigits (digit view of short ints for the bitwise slow path)", obligations=len(k.obls), proved=len(k.obls) - len(bad), solver_s=round(k.solver_s, 2))
    rep.add_counts(len(k.obls), len(k.obls) - len(bad), queries=len(k.obls), solver_s=k.solver_s, paths=len(k.obls))
    for o in bad:
        if o.result == "unknown":
            rep.error(f"inconclusive: GetIntDigits {o.label}")
            continue
        rep.sample({"kernel": "GetIntDigits", "obligation": o.label, "model": o.model})

        def replay(d: str, o: Any = o) -> tuple[bool, str]:
            # compiled vs interpreted bitwise ops with the short operand from the model and a long one
            from vf import mypyc_replay

            nv = int(o.model["n"])
            if nv >= 2**63:
                nv -= 2**64
            short_v = nv >> 1
            src = "def band(a: int, b: int) -> int:\n    return a & b\ndef bor(a: int, b: int) -> int:\n    return a | b\ndef bxor(a: int, b: int) -> int:\n    return a ^ b\n"
            big = (1 << 100) - 1
            cases = [(f, [abs(short_v), big]) for f in ("band", "bor", "bxor")] + [(f, [big, abs(short_v)]) for f in ("band", "bor", "bxor")]
            return mypyc_replay.build_and_compare(src, cases, d)

        rep.candidate("C kernel GetIntDigits: " + o.label, f"n = {o.model}", o.model, replay)


def main(args: Any) -> int:
    rep = Report(PID, args.tier, "clang -O1 LLVM IR of the real lib-rt C sources translated to SMT (bit-vector domain; integer domain with axiomatised truncating division for multiply/divide kernels); all 64-bit operand words; z3")
    only = set(args.only.split(",")) if args.only else None
    import mypy.build  # noqa: F401  (import order: avoids the types/expandtype cycle)

    rep.bounds += [
        "K1: loop-free C fast paths at full 64-bit width (all 2^128 operand pairs per binary kernel); clang -O1 IR of /repo/mypyc/lib-rt regenerated on every run",
    ]
    rep.assumptions += [
        "slow-path callees (CPyTagged_*_ through PyLong) are uninterpreted stubs: the claim is about fast-path selection, overflow detection and representation boundaries",
        "canonical-form invariant of tagged ints: a boxed operand holds a value outside the short range (established for CPyTagged_FromSsize_t / FromInt64 in this check)",
        "clang's -O1 IR is a faithful compilation of the C source (other optimisation levels not modelled)",
        "integer-domain bitwise ops on two symbolic operands are uninterpreted with low-bit and sign lemmas only",
    ]
    rep.outside += ["float_ops.c apart from the floor-division helper of K3 (libm calls), CPyTagged_FromFloat/TrueDivide (floating point)", "long-int slow paths", "CPyLong_As* conversions (CPython API loops)"]
    if only is None or "K1" in only:
        run_k1(rep, args.tier)
        run_digits(rep, args.tier)
        rep.bounds.append("K1d: GetIntDigits for every short tagged int (64-bit), clang -O2 IR with the output buffer scalarised")
    if only is None or "K2" in only:
        try:
            from vf import c15_ir
        except ImportError:
            c15_ir = None  # type: ignore[assignment]
        if c15_ir is not None:
            c15_ir.run(rep, args.tier)
    if only is None or "K3" in only:
        from vf import c15_float

        c15_float.run(rep, args.tier)
    return rep.finish(level="other")


if __name__ == "__main__":
    run_main(PID, main)
