"""C04: a killed run or a failed cache write never makes later runs wrong.

K2 fault schedules against the real store protocol (end to end).  A two-module project is
   checked once (run 1, complete).  After an edit, run 2 is executed by the real `python -m mypy`
   with the metadata-store classes wrapped from outside (vf/shim/sitecustomize.py, active only
   with PYTHON_MYPY_VERIF=1): the solver chooses the schedule -- the store operation before
   which the process is killed (os._exit, no cleanup) and/or the subset of writes that fail --
   within the stated bound.  Then run 3 (warm, no faults) must print exactly what a cold run
   prints.  Both stores; sequential and (thorough) -n 2.
K1 (vf/c04_kernel.py when present) symbolic generations/clock through the real reader functions.
"""

from __future__ import annotations

import itertools
import json
import multiprocessing as mp
import os
import shutil
import subprocess
import sys
from typing import Any

import z3

from vf import symx
from vf.report import VERIF, Report, run_main, scratch
from vf.symx import Ctx

PID = "C04"
SHIM = os.path.join(VERIF, "vf", "shim")

B_V1 = "def g() -> int:\n    return 1\n"
A_V1 = "from b import g\n\ndef f() -> int:\n    x: str = g()\n    return 1\n"
SCENARIOS = {
    # name: (files after the edit, description)
    "body-fix": ({"a.py": "from b import g\n\ndef f() -> int:\n    x: int = g()\n    return 1\n"}, "error inside a function body is fixed (interface of a unchanged)"),
    "iface-change": ({"b.py": "def g() -> str:\n    return ''\n"}, "return type of b.g changes (interface of b changes, a's error disappears)"),
    "new-error": ({"b.py": "def g() -> bytes:\n    return b''\n\ndef h() -> int:\n    return ''\n"}, "interface change plus a new error in b"),
}
T0 = 1_700_000_000


def mypy_cmd(store: str, workers: int) -> list[str]:
    cmd = [sys.executable, "-m", "mypy", "--no-error-summary", "--cache-dir=cache", "--sqlite-cache" if store == "sqlite" else "--no-sqlite-cache"]
    if workers:
        cmd += ["-n", str(workers)]
    return cmd + ["a.py"]


def run(cmd: list[str], cwd: str, plan: "dict | None" = None, timeout: int = 300) -> tuple[int, str]:
    env = dict(os.environ)
    env.pop("PYTHONPATH", None)
    env["PYTHON_MYPY_VERIF"] = "1"
    if plan is not None:
        env["PYTHONPATH"] = SHIM
        env["VERIF_FAULT_PLAN"] = json.dumps(plan)
    else:
        env.pop("VERIF_FAULT_PLAN", None)
    p = subprocess.run(cmd, cwd=cwd, capture_output=True, text=True, env=env, timeout=timeout)
    return p.returncode, p.stdout + p.stderr


def put(d: str, name: str, src: str, t: int) -> None:
    with open(os.path.join(d, name), "w") as f:
        f.write(src)
    os.utime(os.path.join(d, name), (t, t))


def prepare_base(store: str, workers: int) -> str:
    """project + cache after a complete run 1"""
    base = scratch("c04base-")
    put(base, "a.py", A_V1, T0)
    put(base, "b.py", B_V1, T0)
    rc, out = run(mypy_cmd(store, workers), base)
    if "a.py:4" not in out:
        raise RuntimeError("unexpected run-1 output: " + out)
    return base


def one_schedule(arg: tuple) -> dict:
    base, store, workers, scen, plan, idx = arg
    work = scratch("c04-")
    try:
        proj = os.path.join(work, "p")
        shutil.copytree(base, proj, symlinks=True)
        for name, src in SCENARIOS[scen][0].items():
            put(proj, name, src, T0 + 100)
        log = os.path.join(work, "ops.jsonl")
        plan2 = dict(plan)
        plan2["log"] = log
        rc2, out2 = run(mypy_cmd(store, workers), proj, plan2)
        rc3, out3 = run(mypy_cmd(store, workers), proj, None)
        cold_cmd = [c if not c.startswith("--cache-dir") else "--cache-dir=" + os.devnull for c in mypy_cmd(store, 0)]
        rcc, outc = run(cold_cmd, proj, None)
        ops = []
        if os.path.exists(log):
            with open(log) as f:
                ops = [json.loads(l) for l in f]
        return {"idx": idx, "store": store, "workers": workers, "scenario": scen, "plan": plan, "run2": (rc2, out2.strip()[-300:]), "warm": (rc3, out3.strip()), "cold": (rcc, outc.strip()), "ops": ops}
    finally:
        shutil.rmtree(work, ignore_errors=True)


def op_label(op: dict) -> str:
    name = os.path.basename(op.get("name", "")) or "-"
    for suf, kind in ((".meta_ex.ff", "meta_ex"), (".meta.ff", "meta"), (".data.ff", "data"), (".meta_ex.json", "meta_ex"), (".meta.json", "meta"), (".data.json", "data")):
        if name.endswith(suf):
            mod = name[: -len(suf)]
            return f"{op['op']} {kind} of {mod if mod in ('a', 'b') else 'another module'}"
    return f"{op['op']} {name if name in ('-',) else 'other record'}"


def discover_ops(base: str, store: str, workers: int, scen: str) -> list[dict]:
    r = one_schedule((base, store, workers, scen, {"crash_at": None, "fail": [], "role": "any"}, -1))
    if r["warm"] != r["cold"]:
        raise RuntimeError(f"fault-free history already differs: {r['warm']} vs {r['cold']}")
    return [o for o in r["ops"] if o.get("idx") is not None]


def k2_fault_schedules(rep: Report, tier: str) -> None:
    import mypy.build as B
    import mypy.metastore as MS

    rep.kernel("mypy.metastore", symx.source_hash(MS.__file__))
    rep.kernel("mypy.build", symx.source_hash(B.__file__))
    rep.kernel("vf/shim/sitecustomize.py", symx.source_hash(os.path.join(SHIM, "sitecustomize.py")))
    configs = [("fs", 0), ("sqlite", 0)]
    if tier == "thorough":
        configs += [("fs", 2), ("sqlite", 2)]
    scens = ["body-fix", "iface-change"] if tier == "quick" else list(SCENARIOS)
    maxfail = 1 if tier == "quick" else 2
    jobs = []
    bases = {}
    opsmap: dict = {}
    try:
        for store, workers in configs:
            bases[(store, workers)] = prepare_base(store, workers)
        for (store, workers), base in bases.items():
            for scen in scens:
                ops = discover_ops(base, store, workers, scen)
                opsmap[(store, workers, scen)] = ops
                n = len(ops)
                writes = [o["idx"] for o in ops if o["op"] == "write"]
                # the schedule is chosen by the solver within the bound: kill before op k (0..n-1),
                # or a set of <= maxfail failing writes, or both for a single failing write
                ctx = Ctx()
                plans: list[dict] = []

                def body(c: Ctx) -> None:
                    kind = c.choose("kind", 3)
                    if kind == 0:
                        plans.append({"crash_at": c.choose("crash_at", n), "fail": [], "role": "any"})
                    elif kind == 1:
                        k = c.choose("nfail", maxfail) + 1
                        combos = list(itertools.combinations(writes, k))
                        if not combos:
                            return
                        plans.append({"crash_at": None, "fail": list(combos[c.choose("which", len(combos))]), "role": "any"})
                    else:
                        if not writes:
                            return
                        w = writes[c.choose("failing", len(writes))]
                        later = [o["idx"] for o in ops if o["idx"] > w]
                        if not later:
                            return
                        plans.append({"crash_at": later[c.choose("then_crash", len(later))], "fail": [w], "role": "any"})

                ctx.explore(body)
                rep.add_ctx(f"schedule space {store} workers={workers} {scen}", ctx, store_ops=n, writes=len(writes), schedules=len(plans))
                for p in plans:
                    jobs.append((base, store, workers, scen, p, len(jobs)))
        with mp.get_context("fork").Pool(14) as pool:
            results = pool.map(one_schedule, jobs)
    finally:
        for b in bases.values():
            shutil.rmtree(b, ignore_errors=True)
    ok = 0
    found: dict[str, dict] = {}
    for r in results:
        if r["warm"] == r["cold"]:
            ok += 1
            continue
        ops = opsmap[(r["store"], r["workers"], r["scenario"])]
        byidx = {o["idx"]: o for o in ops}
        plan = r["plan"]
        parts = []
        if plan.get("fail"):
            parts.append("failed " + ", ".join(op_label(byidx[i]) for i in plan["fail"] if i in byidx))
        if plan.get("crash_at") is not None:
            parts.append("killed before " + (op_label(byidx[plan["crash_at"]]) if plan["crash_at"] in byidx else f"op {plan['crash_at']}"))
        r["schedule_text"] = "; ".join(parts)
        # canonical identification of the failing history: which records of the two modules the
        # fault-free run rewrites, and which of those the faulty run left durable
        def recs(oplist: list, durable_only: bool) -> set:
            out: set = set()
            pending: set = set()
            for o in oplist:
                lab = op_label(o)
                if o["op"] == "write" and o.get("event") == "ok" and o.get("result") is not False and " of " in lab and "another" not in lab:
                    (pending if (r["store"] == "sqlite" and durable_only) else out).add(lab.split(" ", 1)[1])
                if o["op"] in ("commit", "commit_path") and o.get("event") == "ok":
                    out |= pending
                    pending = set()
            return out
        expected = recs(ops, False)
        applied = recs([o for o in r["ops"] if o.get("idx") is not None], True)
        missing = sorted(expected - applied)
        present = sorted(expected & applied)
        tied = [m_ for m_ in ("a", "b") if f"meta of {m_}" in present and f"meta_ex of {m_}" in missing]
        how = "a failed write" if plan.get("fail") else "a kill alone"
        if tied:
            key = f"{r['store']} store{' -n ' + str(r['workers']) if r['workers'] else ''}, {how}: warm run accepts the new meta of module {'/'.join(tied)} together with its stale meta_ex (nothing ties meta_ex to meta)"
        else:
            key = "warm run trusts a cache where the interrupted run left [" + ", ".join(present) + "] updated but [" + ", ".join(missing) + "] stale"
        found.setdefault(key, r)
    rep.add_counts(len(results), ok, queries=len(results))
    rep.section("K2 fault schedules replayed end to end", schedules=len(results), warm_equals_cold=ok, configs=[f"{s}/n={w}" for s, w in configs], scenarios=scens)
    rep.twin("K2: schedules executed", len(results) > 10)
    if results:
        r0 = results[0]
        rep.sample({"plan": r0["plan"], "store": r0["store"], "scenario": r0["scenario"], "ops": [op_label(o) for o in opsmap[(r0["store"], r0["workers"], r0["scenario"])]][:12]})
    for key, r in found.items():
        rep.sample({"class": key, "plan": r["plan"], "warm": r["warm"], "cold": r["cold"]})
        rep.candidate(key, f"{r['store']} store, edit {r['scenario']}, schedule: {r['schedule_text']}: the warm run prints {r['warm']} but a cold run prints {r['cold']}", r["plan"], replay_again(r))


def replay_again(r: dict):
    def replay(d: str) -> tuple[bool, str]:
        base = prepare_base(r["store"], r["workers"])
        try:
            r2 = one_schedule((base, r["store"], r["workers"], r["scenario"], r["plan"], 0))
        finally:
            shutil.rmtree(base, ignore_errors=True)
        with open(os.path.join(d, "replay.md"), "w") as f:
            f.write(
                f"project: a.py = {A_V1!r}, b.py = {B_V1!r}; run 1: {' '.join(mypy_cmd(r['store'], r['workers']))}\n"
                f"edit: {SCENARIOS[r['scenario']][1]}: {SCENARIOS[r['scenario']][0]}\n"
                f"run 2 with PYTHONPATH=/verif/vf/shim PYTHON_MYPY_VERIF=1 VERIF_FAULT_PLAN='{json.dumps(r['plan'])}'\n"
                f"run 3 (warm) must equal a cold run (--cache-dir=/dev/null)\nwarm: {r2['warm']}\ncold: {r2['cold']}\n"
            )
        return r2["warm"] != r2["cold"], f"warm {r2['warm']} vs cold {r2['cold']}"

    return replay


def main(args: Any) -> int:
    rep = Report(PID, args.tier, "solver-chosen fault schedules (kill point x failing-write subset within the bound) replayed end to end through the real mypy command with the metadata store wrapped from outside; warm run vs cold run")
    rep.bounds += [
        "two-module project, edits: body-fix / interface change (thorough: + new error); schedules: kill before any one store operation of run 2, or <= 1 (quick) / <= 2 (thorough) failing writes, or one failing write followed by a kill; stores: filesystem and sqlite; sequential (thorough: also -n 2, faults in every process)",
    ]
    rep.assumptions += [
        "os._exit(137) before a store operation models a kill between two operations; a failing write returns False without touching the store",
        "source mtimes are set to distinct whole seconds (the whole-second finding of C02 is excluded here)",
        "torn sqlite pages after power loss (OS-level durability) are outside",
    ]
    rep.outside += ["kill points inside a store operation (atomic replace / sqlite transaction are trusted)", "larger import graphs"]
    level = "fault_enumeration"
    k2_fault_schedules(rep, args.tier)
    try:
        from vf import c04_kernel
    except ImportError:
        c04_kernel = None  # type: ignore[assignment]
    if c04_kernel is not None:
        c04_kernel.run(rep, args.tier)
    return rep.finish(level="other")


if __name__ == "__main__":
    run_main(PID, main)
