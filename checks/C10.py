"""C10 (narrow): ordering kernels are independent of set iteration order.

The real graph_utils.strongly_connected_components / prepare_sccs / topsort and
build.sorted_components_inner / order_ascc / deps_filtered / transitive_dep_hash are executed
from a source rewrite (regenerated on every run) in which every set / frozenset -- constructor
calls, set displays and comprehensions -- is an NDSet whose iteration order is chosen by the
solver at every iteration.  Graph edges, edge priorities and the State.order permutation are
solver-chosen as well.  Obligation: the sequence of SCCs, the order inside each SCC and the
token stream fed to the transitive-dependency hash equal those of the canonical (sorted)
iteration order, for every choice.  A second family of partitions runs the real find_stale_sccs
(with order_ascc_ex and verify_transitive_deps) on the fully fresh graph with solver-chosen
"module has cached diagnostics" flags: the order in which the cached diagnostics are flushed on a
warm run must not depend on the iteration ranks either.

Outside the claim: whole-run hash-seed independence, API reuse in one process (global
interpreter state; not encodable).
"""

from __future__ import annotations

import ast
import itertools
import multiprocessing as mp
import os
import subprocess
import sys
from typing import Any

import z3

from vf import librt_stub

librt_stub.install()

from vf import symx  # noqa: E402
from vf.report import Report, run_main  # noqa: E402
from vf.symx import Ctx, Kernel  # noqa: E402

PID = "C10"

_MODE: dict = {"ctx": None, "n": 0, "ranks": {}}


class NDSet:
    """A set whose iteration order is decided by the solver (or canonical when no Ctx is active)."""

    frozen = False

    def __init__(self, it: Any = ()):
        self.items: list = []
        for x in it:
            if x not in self.items:
                self.items.append(x)

    # -- iteration: the only place where order can leak
    def __iter__(self) -> Any:
        rest = sorted(self.items, key=_key)
        c = _MODE["ctx"]
        if c is None or len(rest) < 2:
            yield from rest
            return
        # hash-seed model: one symbolic rank per hashable element for the whole run; every set
        # iterates in rank order (the solver ranges over all rank assignments)
        ranks = _MODE["ranks"]
        out: list = []
        for x in rest:
            k = repr(_key(x))
            if k not in ranks:
                r = c.int("rank:" + k)
                for other in ranks.values():
                    c.solver.add(r.t != other.t)
                ranks[k] = r
            pos = len(out)
            while pos > 0 and bool(ranks[k] < ranks[repr(_key(out[pos - 1]))]):
                pos -= 1
            out.insert(pos, x)
        yield from out

    def __len__(self) -> int:
        return len(self.items)

    def __contains__(self, x: Any) -> bool:
        return x in self.items

    def __bool__(self) -> bool:
        return bool(self.items)

    def add(self, x: Any) -> None:
        if x not in self.items:
            self.items.append(x)

    def discard(self, x: Any) -> None:
        if x in self.items:
            self.items.remove(x)

    def remove(self, x: Any) -> None:
        self.items.remove(x)

    def update(self, *its: Any) -> None:
        for it in its:
            for x in list(it):
                self.add(x)

    def copy(self) -> "NDSet":
        return type(self)(self.items)

    def _bin(self, o: Any, f: Any) -> "NDSet":
        a, b = set(map(_H, self.items)), set(map(_H, list(o)))
        return NDSet([h.v for h in f(a, b)])

    def __or__(self, o: Any) -> "NDSet":
        return self._bin(o, lambda a, b: a | b)

    def __and__(self, o: Any) -> "NDSet":
        return self._bin(o, lambda a, b: a & b)

    def __sub__(self, o: Any) -> "NDSet":
        return self._bin(o, lambda a, b: a - b)

    def __xor__(self, o: Any) -> "NDSet":
        return self._bin(o, lambda a, b: a ^ b)

    def __ior__(self, o: Any) -> "NDSet":
        self.update(o)
        return self

    def __le__(self, o: Any) -> bool:
        return all(x in o for x in self.items)

    def __eq__(self, o: Any) -> bool:  # type: ignore[override]
        if isinstance(o, (NDSet, set, frozenset)):
            return len(self) == len(o) and all(x in o for x in self.items)
        return False

    def __hash__(self) -> int:  # type: ignore[override]
        if not self.frozen:
            raise TypeError("unhashable type: 'set'")
        return hash(tuple(sorted(map(_key, self.items))))

    def __repr__(self) -> str:
        return "{" + ", ".join(repr(x) for x in sorted(self.items, key=_key)) + "}"


class NDFrozenSet(NDSet):
    frozen = True


class _H:
    def __init__(self, v: Any):
        self.v = v

    def __hash__(self) -> int:
        return hash(_key(self.v))

    def __eq__(self, o: Any) -> bool:
        return self.v == o.v


def _key(x: Any) -> Any:
    if isinstance(x, NDSet):
        return tuple(sorted(map(_key, x.items)))
    if hasattr(x, "id"):
        return ("scc", x.id)
    if hasattr(x, "code") and hasattr(x, "default_enabled"):
        return ("errorcode", x.code)
    return ("v", x)


def set_hook(node: ast.AST) -> "ast.AST | None":
    # set displays and comprehensions -> NDSet
    if isinstance(node, ast.Set):
        return ast.copy_location(ast.Call(func=ast.Name(id="__symx_set", ctx=ast.Load()), args=[ast.List(elts=[_visit(e) for e in node.elts], ctx=ast.Load())], keywords=[]), node)
    if isinstance(node, ast.SetComp):
        lc = ast.ListComp(elt=_visit(node.elt), generators=[_visit(g) for g in node.generators])
        return ast.copy_location(ast.Call(func=ast.Name(id="__symx_set", ctx=ast.Load()), args=[lc], keywords=[]), node)
    return None


_RW: Any = None


def _visit(n: Any) -> Any:
    return _RW.visit(n)


class _State:
    def __init__(self, id: str, order: int, deps: list[str], prios: dict[str, int], tdh: bytes):
        self.id = id
        self.order = order
        self.dependencies = deps
        self.priorities = prios
        self.trans_dep_hash = tdh
        self.size_hint = 1


class _SCC:
    _n = 0

    def __init__(self, ids: Any):
        _SCC._n += 1
        self.id = _SCC._n
        self.mod_ids = ids


def load_kernels() -> tuple[Kernel, Kernel, Any]:
    global _RW
    shims = dict(symx.SHIMS)
    shims["set"] = NDSet
    shims["frozenset"] = NDFrozenSet
    _RW = symx._Rewriter(set(shims), set_hook)
    KG = Kernel("mypy.graph_utils", ["strongly_connected_components", "prepare_sccs", "topsort.__init__", "topsort.__next__"], shims=shims, node_hook=set_hook, closure=False)

    class TS:
        __init__ = KG["topsort.__init__"]
        __next__ = KG["topsort.__next__"]

        def __iter__(self) -> Any:
            return self

    from vf.librt_stub import TokWrite

    KB = Kernel(
        "mypy.build",
        ["deps_filtered", "sorted_components_inner", "order_ascc", "transitive_dep_hash", "order_ascc_ex", "verify_transitive_deps", "find_stale_sccs"],
        shims=shims,
        node_hook=set_hook,
        closure=False,
        extra_globals={
            "strongly_connected_components": KG["strongly_connected_components"],
            "prepare_sccs": KG["prepare_sccs"],
            "topsort": TS,
            "WriteBuffer": TokWrite,
            "hash_digest_bytes": lambda toks: ("HASH", tuple(toks)),
        },
    )
    return KG, KB, TS


MODS = ["ma", "mb", "mc"]
PAIRS = [(a, b) for a in MODS for b in MODS if a != b]


def explore_partition(arg: tuple) -> tuple:
    kind, perm, first_edge_mask = arg
    import mypy.build as B

    KG, KB, TS = load_kernels()
    # TokWrite.getvalue is what transitive_dep_hash passes to the hash
    from vf.librt_stub import TokWrite

    if not hasattr(TokWrite, "getvalue"):
        TokWrite.getvalue = lambda self: list(self.toks)  # type: ignore[attr-defined]
    PRI_HIGH, PRI_INDIRECT = B.PRI_HIGH, B.PRI_INDIRECT
    found: dict[str, tuple] = {}
    n = {"p": 0}
    canon: dict = {}

    def outputs(graph: dict) -> tuple:
        verts = NDSet(MODS)
        inner = KB["sorted_components_inner"](graph, verts, PRI_INDIRECT)
        inner_l = [tuple(sorted(s.items)) if isinstance(s, NDSet) else tuple(sorted(s)) for s in inner]
        orders = []
        for s in inner:
            ids = NDSet(list(s))
            orders.append(tuple(KB["order_ascc"](graph, ids)))
        hashes = []
        for s in inner:
            scc = _SCC(NDSet(list(s)))
            hashes.append(KB["transitive_dep_hash"](scc, graph))
        return inner_l, orders, hashes

    def replay_order(graph: dict, errs: tuple) -> tuple:
        """find_stale_sccs on a fully fresh graph: the order in which the cached diagnostics of the
        modules are flushed (the warm-run output order)"""
        _MODE_save = _MODE["ctx"]
        _MODE["ctx"] = None
        try:  # the list of SCCs handed over is the (already compared) canonical sequence
            inner = KB["sorted_components_inner"](graph, NDSet(MODS), PRI_INDIRECT)
            sccs = []
            for i, s_ in enumerate(inner):
                sc = _SCC(NDSet(sorted(s_.items if isinstance(s_, NDSet) else s_)))
                sc.id = i
                sc.deps = NDSet()
                sccs.append(sc)
        finally:
            _MODE["ctx"] = _MODE_save
        by_mod = {m: sc for sc in sccs for m in sc.mod_ids.items}
        for m, st in graph.items():
            st.is_fresh = lambda: True
            st.dep_hashes = {d: "I" + d for d in st.dependencies}
            st.interface_hash = "I" + m
            st.error_lines = ["E:" + m] if errs[MODS.index(m)] else []
            st.xpath = m + ".py"
            st.meta = type("Meta", (), {"trans_dep_hash": st.trans_dep_hash})
            for d in st.dependencies:
                if by_mod[d] is not by_mod[m]:
                    by_mod[m].deps.add(by_mod[d].id)
        flushed: list = []

        class Errs:
            @staticmethod
            def simplify_path(p: str) -> str:
                return p

            @staticmethod
            def format_messages(path: str, lines: list, formatter: Any = None) -> list:
                return list(lines)

        class Mgr:
            logging_enabled = False
            tracing_enabled = False
            errors = Errs
            error_formatter = None
            scc_by_mod_id = by_mod

            @staticmethod
            def flush_errors(path: str, msgs: list, blocker: bool) -> None:
                flushed.append((path, tuple(msgs)))

        stale, fresh = KB["find_stale_sccs"](sccs, graph, Mgr)
        return tuple(flushed), len(stale), len(fresh)

    def mkgraph(edges: dict) -> dict:
        g = {}
        for i, m in enumerate(MODS):
            deps = [b for (a, b) in PAIRS if a == m and edges.get((a, b))]
            prios = {b: edges[(m, b)] for b in deps}
            g[m] = _State(m, perm[i], deps, prios, b"h" + m.encode())
        return g

    def body(c: Ctx) -> None:
        _MODE["n"] = 0
        _MODE["ranks"] = {}
        edges = {}
        for idx, pr in enumerate(PAIRS):
            if idx < 2:
                k = (first_edge_mask // (3**idx)) % 3
            else:
                k = c.choose(f"edge{idx}", 3)
            edges[pr] = {0: None, 1: PRI_HIGH, 2: PRI_INDIRECT}[k]
        key = tuple(sorted((k, v) for k, v in edges.items()))
        if kind == "replay":
            errs = tuple(c.choose(f"errors_in_{m}", 2) for m in MODS)
            key = key + (errs,)
            run = lambda: replay_order(mkgraph(edges), errs)  # noqa: E731
        else:
            errs = ()
            run = lambda: outputs(mkgraph(edges))  # noqa: E731
        if key not in canon:
            _MODE["ctx"] = None
            canon[key] = run()
        _MODE["ctx"] = c
        try:
            got = run()
        finally:
            _MODE["ctx"] = None
        n["p"] += 1
        c.stats["assert_queries"] += 1
        if got == canon[key]:
            c.stats["discharged"] += 1
        elif kind == "replay":
            c.stats["refuted"] += 1
            found.setdefault("order in which cached diagnostics of a fresh SCC are replayed depends on set iteration order", ({f"{a}->{b}": v for (a, b), v in edges.items() if v}, list(perm), repr(got)[:300], repr(canon[key])[:300], list(errs)))
        else:
            c.stats["refuted"] += 1
            which = "SCC sequence" if got[0] != canon[key][0] else ("order inside an SCC" if got[1] != canon[key][1] else "transitive dependency hash input")
            found.setdefault(f"{which} depends on set iteration order", ({f"{a}->{b}": v for (a, b), v in edges.items() if v}, list(perm), repr(got)[:300], repr(canon[key])[:300], []))

    ctx = Ctx(max_paths=5_000_000, deadline_s=3000)
    ctx.explore(body)
    return ctx.stats, ctx.exhausted, n["p"], found


# --- H1: a build does not see state left behind by an earlier build in the same process
def h1_history(rep: Report) -> None:
    """Two builds in one interpreter, as far as the "known modules" memo is concerned: the statements
    build.build executes before it defines its first helper (the per-build resets) are cut out of the
    source and run at the start of each simulated build; get_known_modules is then called with the
    typeshed VERSIONS table and target version of that build (both solver-chosen, per build).  The
    second build must get what a fresh process gets (module state restored to its import-time
    snapshot)."""
    import ast
    import copy
    import inspect
    import types

    import mypy.build as B
    import mypy.known_modules as KM

    src = inspect.getsource(B.build)
    fn = ast.parse(__import__("textwrap").dedent(src)).body[0]
    pre = []
    for st in fn.body:  # type: ignore[attr-defined]
        if isinstance(st, ast.FunctionDef):
            break
        if isinstance(st, ast.Expr) and isinstance(st.value, ast.Call):
            pre.append(st)
    code = compile(ast.Module(body=pre, type_ignores=[]), "<build.build preamble>", "exec")
    rep.kernel("mypy.build.build[per-build resets]", symx.hashlib.sha256("\n".join(ast.unparse(x) for x in pre).encode()).hexdigest()[:16])
    rep.kernel("mypy.known_modules", symx.source_hash(KM.__file__))
    snap = {k: copy.deepcopy(v) for k, v in vars(KM).items() if not k.startswith("__") and not isinstance(v, (types.FunctionType, types.ModuleType, type)) and not k.isupper()}

    def restore() -> None:
        for k, v in snap.items():
            cur = getattr(KM, k, None)
            if isinstance(cur, dict) and isinstance(v, dict):
                cur.clear()
                cur.update(copy.deepcopy(v))
            elif isinstance(cur, (list, set)) and isinstance(v, (list, set)):
                cur.clear()
                (cur.extend if isinstance(cur, list) else cur.update)(copy.deepcopy(v))
            else:
                setattr(KM, k, copy.deepcopy(v))

    TS = [{"aaa": ((3, 0), None), "bbbb": ((3, 10), None)}, {"cccc": ((3, 0), None)}, None]
    VER = [(3, 8), (3, 12), None]
    ctx = Ctx()
    found: dict = {}
    n = {"p": 0, "differing_inputs": 0}

    def body(c: Ctx) -> None:
        t1, v1 = TS[c.choose("build1_typeshed", 3)], VER[c.choose("build1_python_version", 3)]
        t2, v2 = TS[c.choose("build2_typeshed", 3)], VER[c.choose("build2_python_version", 3)]
        restore()
        exec(code, vars(B))
        KM.get_known_modules(t1, v1)
        exec(code, vars(B))
        hist = KM.get_known_modules(t2, v2)
        restore()
        exec(code, vars(B))
        fresh = KM.get_known_modules(t2, v2)
        restore()
        n["p"] += 1
        n["differing_inputs"] += 1 if (t1, v1) != (t2, v2) else 0
        c.stats["assert_queries"] += 1
        if hist == fresh:
            c.stats["discharged"] += 1
        else:
            c.stats["refuted"] += 1
            found.setdefault("the set of known module names of a build depends on an earlier build in the same process", (c.path_model(), sorted(hist ^ fresh)[:6]))

    ctx.explore(body)
    rep.add_ctx("H1 known-modules memo across builds in one process", ctx, histories=n["p"])
    rep.twin("H1: histories with different typeshed/version reached", n["differing_inputs"] > 0)
    for key, (m, diff) in found.items():
        rep.sample({"kernel": "known_modules", "class": key, "model": m, "differs_in": diff})

        def replay(d: str, m: dict = m) -> tuple[bool, str]:
            # two real builds through mypy.api in one process vs the second one alone in a fresh process
            ts = []
            for i, names in enumerate((["aaa", "bbbb"], ["cccc"])):
                t = os.path.join(d, f"typeshed{i}")
                import mypy.typeshed as _T  # noqa: F401

                src_ts = os.path.join(os.path.dirname(B.__file__), "typeshed")
                import shutil as _sh

                _sh.copytree(src_ts, t)
                with open(os.path.join(t, "stdlib", "VERSIONS"), "a") as f:
                    for nm in names:
                        f.write(f"{nm}: 3.0-\n")
                        open(os.path.join(t, "stdlib", nm + ".pyi"), "w").close()
                ts.append(t)
            with open(os.path.join(d, "prog.py"), "w") as f:
                f.write("import aaab\nimport cccd\n")
            script = (
                "import sys\nfrom mypy import api\n"
                "def run(t): return api.run(['--no-incremental', '--no-error-summary', '--custom-typeshed-dir', t, 'prog.py'])[0]\n"
                f"first, second = {ts[0]!r}, {ts[1]!r}\n"
                "if sys.argv[1] == 'history': run(first)\n"
                "print(run(second))\n"
            )
            with open(os.path.join(d, "two_builds.py"), "w") as f:
                f.write(script)
            env = dict(os.environ)
            env.pop("PYTHONPATH", None)
            outs = []
            for mode in ("history", "fresh"):
                p = subprocess.run([sys.executable, "two_builds.py", mode], cwd=d, env=env, capture_output=True, text=True, timeout=900)
                outs.append(p.stdout.strip() or p.stderr[-300:])
            for t in ts:
                _sh.rmtree(t, ignore_errors=True)
            return outs[0] != outs[1], f"second build after another build in the same process:\n{outs[0][:500]}\nsame build in a fresh process:\n{outs[1][:500]}"

        rep.candidate(key, f"history {m}: differs in {diff}", m, replay)


# --- S1: suggestion lists ("did you mean ...") do not depend on set iteration order
def s1_best_matches(rep: Report) -> None:
    """messages.best_matches from a source rewrite with the candidate set as an NDSet (solver-ranked
    iteration): the returned list must equal the canonical one for every rank assignment.  The
    candidate pool contains case-only variants and names with equal similarity ratio."""
    K = Kernel("mypy.messages", ["best_matches"], closure=False)
    rep.kernels_from(K)
    fn = K["best_matches"]
    POOLS = [["Callable", "callable", "callablx"], ["handler_a", "handler_A", "handler_b"], ["abc", "Abc", "ABC", "abd"], ["value", "valve", "valuf"]]
    CUR = ["xallable", "handler_x", "abx", "valux"]
    ctx = Ctx(max_paths=200000)
    found: dict = {}
    n = {"p": 0, "multi": 0}

    def body(c: Ctx) -> None:
        i = c.choose("pool", len(POOLS))
        _MODE["ranks"] = {}
        _MODE["ctx"] = None
        canon = fn(CUR[i], NDSet(POOLS[i]), 3)
        _MODE["ctx"] = c
        try:
            got = fn(CUR[i], NDSet(POOLS[i]), 3)
        finally:
            _MODE["ctx"] = None
        n["p"] += 1
        n["multi"] += 1 if len(canon) > 1 else 0
        c.stats["assert_queries"] += 1
        if got == canon:
            c.stats["discharged"] += 1
        else:
            c.stats["refuted"] += 1
            found.setdefault("the order of suggested names depends on set iteration order", (CUR[i], POOLS[i], got, canon))

    ctx.explore(body)
    rep.add_ctx("S1 best_matches under nondeterministic set iteration", ctx, pools=POOLS)
    rep.twin("S1: suggestion lists with several names reached", n["multi"] > 0)
    for key, (cur, pool, got, canon) in found.items():
        rep.sample({"kernel": "best_matches", "class": key, "misspelt": cur, "candidates": pool, "got": got, "canonical": canon})

        def replay(d: str, cur: str = cur, pool: list = pool) -> tuple[bool, str]:
            script = f"import mypy.messages as M\nprint(M.best_matches({cur!r}, set({pool!r}), 3))\n"
            with open(os.path.join(d, "replay.py"), "w") as f:
                f.write(script)
            env = dict(os.environ)
            env.pop("PYTHONPATH", None)
            outs = set()
            for seed in range(48):
                env["PYTHONHASHSEED"] = str(seed)
                p = subprocess.run([sys.executable, os.path.join(d, "replay.py")], capture_output=True, text=True, env=env, timeout=120)
                outs.add(p.stdout.strip() or p.stderr[-200:])
            return len(outs) > 1, f"{len(outs)} distinct suggestion lists over 48 hash seeds: {sorted(outs)[:3]}"

        rep.candidate(key, f"best_matches({cur!r}, {pool}) = {got} vs canonical {canon}", {"misspelt": cur}, replay)


def s2_options_snapshot(rep: Report) -> None:
    """Options.select_options_affecting_cache (the value list that build.options_snapshot hashes into
    every cache record and find_cache_meta compares on warm runs) with every set-valued keyed option as
    an NDSet: the value list must be the same for every iteration rank assignment, otherwise cache
    records and freshness decisions depend on the hash seed."""
    import mypy.options as O
    from mypy import errorcodes

    K = Kernel("mypy.options", ["Options.select_options_affecting_cache"], closure=False)
    rep.kernels_from(K)
    fn = K["Options.select_options_affecting_cache"]
    base = O.Options()
    set_attrs = sorted(a for a in O.OPTIONS_AFFECTING_CACHE if isinstance(getattr(base, a, None), (set, frozenset)))
    pool_codes = [errorcodes.TRUTHY_BOOL, errorcodes.REDUNDANT_EXPR, errorcodes.ARG_TYPE, errorcodes.MISC]
    ctx = Ctx(max_paths=200000)
    found: dict = {}
    n = {"p": 0}

    def mk() -> Any:
        o = O.Options()
        return o

    def body(c: Ctx) -> None:
        a = set_attrs[c.choose("attribute", len(set_attrs))]
        k = 2 + c.choose("size", 2)
        members = pool_codes[:k] if a.endswith("error_codes") else ["alpha", "beta", "gamma"][:k]
        _MODE["ranks"] = {}
        _MODE["ctx"] = None
        o = mk()
        setattr(o, a, NDSet(members))
        canon = repr(fn(o))
        _MODE["ctx"] = c
        try:
            got = repr(fn(o))
        finally:
            _MODE["ctx"] = None
        n["p"] += 1
        c.stats["assert_queries"] += 1
        if got == canon:
            c.stats["discharged"] += 1
        else:
            c.stats["refuted"] += 1
            found.setdefault(f"the option snapshot written to cache records depends on the iteration order of the set option {a}", (a, k))

    ctx.explore(body)
    rep.add_ctx("S2 select_options_affecting_cache under nondeterministic set iteration", ctx, set_valued_keyed_options=set_attrs, runs=n["p"])
    rep.twin("S2: a keyed set-valued option exists and was permuted", n["p"] > 0 and len(set_attrs) > 0)
    rep.bounds.append(f"S2: each set-valued option in OPTIONS_AFFECTING_CACHE ({', '.join(set_attrs)}) holding 2 or 3 members, every iteration rank assignment")
    for key, (a, k) in found.items():
        rep.sample({"kernel": "select_options_affecting_cache", "class": key, "attribute": a, "members": k})

        def replay(d: str, a: str = a, k: int = k) -> tuple[bool, str]:
            names = ["truthy-bool", "redundant-expr", "arg-type", "misc"][:k]
            script = (
                "import mypy.build\nfrom mypy.options import Options\nfrom mypy import errorcodes\n"
                f"o = Options()\nsetattr(o, {a!r}, {{errorcodes.error_codes[x] for x in {names!r}}} if {a!r}.endswith('error_codes') else set({names!r}))\n"
                "print(o.select_options_affecting_cache())\n"
            )
            with open(os.path.join(d, "replay.py"), "w") as f:
                f.write(script)
            env = dict(os.environ)
            env.pop("PYTHONPATH", None)
            outs = set()
            for seed in range(48):
                env["PYTHONHASHSEED"] = str(seed)
                p = subprocess.run([sys.executable, os.path.join(d, "replay.py")], capture_output=True, text=True, env=env, timeout=120)
                outs.add(p.stdout.strip() or p.stderr[-200:])
            return len(outs) > 1, f"{len(outs)} distinct option snapshots over 48 hash seeds"

        rep.candidate(key, f"{a} with {k} members", {"attribute": a, "members": k}, replay)


def s3_indirect_deps(rep: Report) -> None:
    """State.patch_indirect_dependencies + State.add_dependency from the source rewrite: the modules
    found by the indirection detector and the module references arrive as sets (NDSet: solver-ranked
    iteration); the dependency *list* that results -- written to the cache record with its priorities and
    hashed into dependants -- must be the same for every rank assignment."""
    global _RW
    shims = dict(symx.SHIMS)
    shims["set"] = NDSet
    shims["frozenset"] = NDFrozenSet
    _RW = symx._Rewriter(set(shims), set_hook)
    K = Kernel("mypy.build", ["State.patch_indirect_dependencies", "State.add_dependency"], shims=shims, node_hook=set_hook, closure=False)
    rep.kernels_from(K)
    patch = K["State.patch_indirect_dependencies"]
    add_dep = K["State.add_dependency"]
    POOL = ["pkg.a", "pkg.b", "other", "zeta"]
    ctx = Ctx(max_paths=200000)
    found: dict = {}
    n = {"p": 0, "multi": 0}

    def run_once(c: "Ctx | None", found_by_types: list, refs: list, existing: list, suppressed: list) -> tuple:
        class Det:
            @staticmethod
            def find_modules(types: Any) -> Any:
                return NDSet(found_by_types)

        class Mgr:
            indirection_detector = Det
            modules = {m: object() for m in POOL if m != "zeta"}  # one found module is not part of the build

        class St:
            id = "me"
            ancestors: list = []
            manager = Mgr

            def add_dependency(self, dep: str) -> None:
                add_dep(self, dep)

        st = St()
        st.dependencies = list(existing)
        st.dependencies_set = set(existing)
        st.suppressed = list(suppressed)
        st.suppressed_set = set(suppressed)
        st.priorities = {}
        _MODE["ranks"] = {}
        _MODE["ctx"] = c
        try:
            patch(st, NDSet(refs), NDSet([]))
        finally:
            _MODE["ctx"] = None
        return tuple(st.dependencies), tuple(sorted(st.priorities.items())), tuple(st.suppressed)

    def body(c: Ctx) -> None:
        by_types = [m for m in POOL if bool(c.bool(f"types_mention_{m}"))]
        refs = [m for m in ("pkg.b", "other") if bool(c.bool(f"module_ref_{m}"))]
        existing = ["pkg.a"] if bool(c.bool("pkg.a_already_a_dependency")) else []
        suppressed = ["other"] if bool(c.bool("other_is_suppressed")) else []
        canon = run_once(None, by_types, refs, existing, suppressed)
        got = run_once(c, by_types, refs, existing, suppressed)
        n["p"] += 1
        n["multi"] += 1 if len(canon[0]) - len(existing) > 1 else 0
        c.stats["assert_queries"] += 1
        if got == canon:
            c.stats["discharged"] += 1
        else:
            c.stats["refuted"] += 1
            found.setdefault("the order of indirect dependencies recorded for a module depends on set iteration order", (by_types, refs, got[0], canon[0]))

    ctx.explore(body)
    rep.add_ctx("S3 patch_indirect_dependencies under nondeterministic set iteration", ctx, runs=n["p"])
    rep.twin("S3: several indirect dependencies added in one call", n["multi"] > 0)
    rep.bounds.append("S3: a pool of 4 module names (one outside the build), any subset found through types, any subset of 2 as module references, one pre-existing and one suppressed dependency optional; every iteration rank assignment")
    for key, (by_types, refs, got, canon) in found.items():
        rep.sample({"kernel": "patch_indirect_dependencies", "class": key, "found_through_types": by_types, "module_refs": refs, "got": list(got), "canonical": list(canon)})

        def replay(d: str, by_types: list = by_types, refs: list = refs) -> tuple[bool, str]:
            script = (
                "import mypy.build as B\n"
                f"POOL = {POOL!r}\n"
                "class Det:\n    @staticmethod\n    def find_modules(types):\n        return set(" + repr(by_types) + ")\n"
                "class Mgr:\n    indirection_detector = Det\n    modules = {m: object() for m in POOL if m != 'zeta'}\n"
                "st = B.State.__new__(B.State)\n"
                "st.id = 'me'; st.ancestors = []; st.manager = Mgr; st.dependencies = []; st.dependencies_set = set(); st.suppressed = []; st.suppressed_set = set(); st.priorities = {}\n"
                f"B.State.patch_indirect_dependencies(st, set({refs!r}), set())\nprint(st.dependencies)\n"
            )
            with open(os.path.join(d, "replay.py"), "w") as f:
                f.write(script)
            env = dict(os.environ)
            env.pop("PYTHONPATH", None)
            outs = set()
            for seed in range(48):
                env["PYTHONHASHSEED"] = str(seed)
                p = subprocess.run([sys.executable, os.path.join(d, "replay.py")], capture_output=True, text=True, env=env, timeout=120)
                outs.add(p.stdout.strip() or p.stderr[-200:])
            return len(outs) > 1, f"{len(outs)} distinct dependency lists over 48 hash seeds: {sorted(outs)[:3]}"

        rep.candidate(key, f"types mention {by_types}, module refs {refs}: {list(got)} vs canonical {list(canon)}", {"types": by_types, "refs": refs}, replay)


# --- H2: recursion guards shared by all modules of a build are left as they were found
def h2_guard_stacks(rep: Report) -> None:
    """constraints.infer_constraints (the real function) on types from a real build: a generic protocol
    template against a NamedTuple, a plain tuple, a nominal implementer and a non-implementer (the
    solver chooses template, actual and direction).  TypeInfo.inferring / assuming stacks and
    type_state.inferring are guards shared by every module checked later in the same build: they must be
    exactly as before when the call returns."""
    import mypy.build as B
    import mypy.constraints as CO
    from mypy.modulefinder import BuildSource
    from mypy.nodes import TypeInfo
    from mypy.options import Options
    from mypy.typestate import type_state

    rep.kernel("mypy.constraints", symx.source_hash(CO.__file__))
    SRC = (
        "from typing import Protocol, TypeVar, NamedTuple, Generic, Iterator\n"
        "T = TypeVar('T')\nS = TypeVar('S', covariant=True)\n"
        "class HasFirst(Protocol[S]):\n    @property\n    def first(self) -> S: ...\n"
        "class Boxed(Protocol[T]):\n    def get(self) -> T: ...\n    def put(self, x: T) -> None: ...\n"
        "class Pair(NamedTuple):\n    first: int\n    second: str\n"
        "class Impl:\n    @property\n    def first(self) -> int: ...\n    def get(self) -> str: ...\n    def put(self, x: str) -> None: ...\n"
        "class Other: ...\n"
        "class GenImpl(Generic[T]):\n    def get(self) -> T: ...\n    def put(self, x: T) -> None: ...\n"
        "def f1(x: HasFirst[T]) -> T: ...\ndef f2(x: Boxed[T]) -> T: ...\n"
        "p: Pair\ni: Impl\no: Other\ng: GenImpl[int]\nt: tuple[int, str]\n"
    )
    o = Options()
    o.incremental = False
    o.cache_dir = os.devnull
    o.python_version = (3, 12)
    o.preserve_asts = True
    res = B.build([BuildSource(None, "gs", SRC)], o)
    names = res.files["gs"].names
    templates = {"HasFirst[T]": names["f1"].node.type.arg_types[0], "Boxed[T]": names["f2"].node.type.arg_types[0]}
    actuals = {k: names[k].node.type for k in ("p", "i", "o", "g", "t")}
    infos = [n_.node for n_ in names.values() if isinstance(n_.node, TypeInfo)]
    tn, an = sorted(templates), sorted(actuals)
    ctx = Ctx()
    found: dict = {}
    n = {"p": 0}

    def snapshot() -> tuple:
        return (tuple((i.fullname, len(i.inferring), len(i.assuming), len(i.assuming_proper)) for i in infos), len(type_state.inferring))

    def body(c: Ctx) -> None:
        t = tn[c.choose("template", len(tn))]
        a = an[c.choose("actual", len(an))]
        direction = [CO.SUBTYPE_OF, CO.SUPERTYPE_OF][c.choose("direction", 2)]
        before = snapshot()
        err = None
        try:
            CO.infer_constraints(templates[t], actuals[a], direction)
        except Exception as e:  # noqa: BLE001
            err = type(e).__name__
        after = snapshot()
        n["p"] += 1
        c.stats["assert_queries"] += 1
        if err is None and before == after:
            c.stats["discharged"] += 1
        else:
            c.stats["refuted"] += 1
            changed = [x[0] for x, y in zip(after[0], before[0]) if x != y]
            found.setdefault("a recursion guard shared by the whole build is left modified by infer_constraints" if err is None else f"infer_constraints raises {err}", (t, a, direction, changed))
            for i in infos:  # restore for the remaining paths
                del i.inferring[:]

    ctx.explore(body)
    rep.add_ctx("H2 recursion-guard stacks after infer_constraints", ctx, templates=tn, actuals=an)
    rep.twin("H2: calls made", n["p"] > 0)
    for key, (t, a, direction, changed) in found.items():
        rep.sample({"kernel": "infer_constraints", "class": key, "template": t, "actual": a, "direction": direction, "guards_changed": changed})

        def replay(d: str) -> tuple[bool, str]:
            # the order of file arguments must not matter
            files = {
                "lib.py": "from typing import Protocol, TypeVar, NamedTuple, Callable\nT = TypeVar('T')\nS = TypeVar('S', covariant=True)\nclass HasFirst(Protocol[S]):\n    @property\n    def first(self) -> S: ...\nclass Pair(NamedTuple):\n    first: int\n    second: str\ndef collect(x: HasFirst[T]) -> list[T]: ...\ndef use(f: Callable[[Pair], object]) -> None: ...\n",
                "a.py": "from lib import use, collect\n\nuse(collect)\n",
                "b.py": "from lib import use, collect\n\nuse(collect)\n",
            }
            for fn_, text in files.items():
                with open(os.path.join(d, fn_), "w") as f:
                    f.write(text)
            env = dict(os.environ)
            env.pop("PYTHONPATH", None)
            outs = []
            for order in (["a.py", "b.py"], ["b.py", "a.py"]):
                p = subprocess.run([sys.executable, "-m", "mypy", "--no-incremental", "--no-error-summary", "lib.py"] + order, cwd=d, env=env, capture_output=True, text=True, timeout=600)
                outs.append((p.returncode, sorted(p.stdout.strip().splitlines())))
            return outs[0] != outs[1] or outs[0][0] != 0, f"mypy lib.py a.py b.py: {outs[0]}; mypy lib.py b.py a.py: {outs[1]}"

        rep.candidate(key, f"infer_constraints({t}, {a}, direction {direction}): guards changed {changed}", {"template": t, "actual": a}, replay)


def main(args: Any) -> int:
    rep = Report(PID, args.tier, "symbolic execution of the real ordering functions from a source rewrite with solver-chosen set iteration orders (NDSet), graphs and State.order permutations; partitioned over processes; replay = unmodified functions under many PYTHONHASHSEEDs")
    KG, KB, _ = load_kernels()
    rep.kernels_from(KG)
    rep.kernels_from(KB)
    rep.bounds += ["3 modules; every edge absent / direct (PRI_HIGH) / indirect (PRI_INDIRECT); every State.order permutation; every assignment of iteration ranks to the hashable elements (module ids and SCC sets): a hash-seed model in which each run fixes one order per element universe and every set iterates in that order"]
    rep.assumptions += ["State.order values are distinct (State.order_counter)", "set iteration order is modelled as a per-run total order on elements (insertion-history effects of CPython's open addressing are not modelled)", "the hash function is applied to the recorded token stream (typed token buffer instead of WriteBuffer)"]
    rep.outside += ["hash-seed independence of whole runs and of cache bytes; independence from earlier builds in the same process beyond the known-modules memo (H1): global interpreter state, not encodable in general"]
    perms = list(itertools.permutations([1, 2, 3]))
    parts = [(k, p, m) for k in ("order", "replay") for p in perms for m in range(9)]
    if args.tier == "quick":
        parts = [(k, p, m) for k in ("order", "replay") for p in perms[:2] for m in range(9)]
    with mp.get_context("fork").Pool(14) as pool:
        results = pool.map(explore_partition, parts)
    tot = Ctx()
    tot.exhausted = True
    found: dict[str, tuple] = {}
    np_ = 0
    for st, exh, n, fnd in results:
        for k, v in st.items():
            if isinstance(v, (int, float)):
                tot.stats[k] += v
        tot.exhausted = tot.exhausted and exh
        np_ += n
        for k, v in fnd.items():
            found.setdefault(k, v)
    h1_history(rep)
    s1_best_matches(rep)
    s2_options_snapshot(rep)
    s3_indirect_deps(rep)
    h2_guard_stacks(rep)
    rep.bounds.append("S1: four candidate pools with case-only variants and equal-ratio ties, every iteration rank assignment; H2: two generic protocol templates x five actual types (NamedTuple, tuple, nominal implementer, generic implementer, non-implementer) x both directions")
    rep.bounds.append("H1: two builds in one process, typeshed VERSIONS table (3 choices) and target version (3 choices) solver-chosen per build; only the known-modules memo and the resets at the top of build.build")
    rep.add_ctx("ordering kernels under nondeterministic set iteration", tot, partitions=len(parts), compared=np_)
    rep.twin("ordering kernels compared on some path", np_ > 0)
    rep.sample({"modules": MODS, "partitions": len(parts), "compared": np_})
    for key, (edges, perm, got, want, errs) in found.items():
        rep.sample({"class": key, "edges": edges, "orders": perm, "got": got, "canonical": want, "modules_with_errors": errs})
        rep.candidate(key, f"graph {edges} with orders {perm}{' errors in ' + str(errs) if errs else ''}: got {got} vs canonical {want}", {"edges": edges, "orders": perm}, replay_seeds(edges, perm, errs))
    return rep.finish()


SEED_SCRIPT = r'''
import sys
import mypy.build as B
edges = {edges!r}; perm = {perm!r}; MODS = {mods!r}
class S:
    def __init__(self, id, order, deps, prios):
        self.id=id; self.order=order; self.dependencies=deps; self.priorities=prios; self.trans_dep_hash=b"h"+id.encode(); self.size_hint=1
g = {{}}
for i, m in enumerate(MODS):
    deps = [k.split("->")[1] for k in edges if k.startswith(m + "->")]
    g[m] = S(m, perm[i], deps, {{d: edges[m + "->" + d] for d in deps}})
inner = B.sorted_components_inner(g, set(MODS), B.PRI_INDIRECT)
out = [sorted(s) for s in inner]
orders = [B.order_ascc(g, set(s)) for s in inner]
class SCC:
    def __init__(self, ids): self.mod_ids = set(ids); self.id = 1
hashes = [B.transitive_dep_hash(SCC(s), g).hex() for s in inner]
flushed = []
errs = {errs!r}
if errs:
    sccs = []
    for i, s in enumerate(inner):
        sc = SCC(s); sc.id = i; sc.deps = set(); sccs.append(sc)
    by_mod = {{m: sc for sc in sccs for m in sc.mod_ids}}
    for m, st in g.items():
        st.is_fresh = lambda: True
        st.dep_hashes = {{d: "I" + d for d in st.dependencies}}
        st.interface_hash = "I" + m
        st.error_lines = ["E:" + m] if errs[MODS.index(m)] else []
        st.xpath = m + ".py"
        st.meta = type("Meta", (), {{"trans_dep_hash": st.trans_dep_hash}})
    class Errs:
        simplify_path = staticmethod(lambda p: p)
        format_messages = staticmethod(lambda path, lines, formatter=None: list(lines))
    class Mgr:
        logging_enabled = False; tracing_enabled = False; errors = Errs; error_formatter = None; scc_by_mod_id = by_mod
        flush_errors = staticmethod(lambda path, msgs, blocker: flushed.append(path))
    B.find_stale_sccs(sccs, g, Mgr)
print(out, orders, hashes, flushed)
'''


def replay_seeds(edges: dict, perm: list, errs: list = []):
    def replay(d: str) -> tuple[bool, str]:
        script = SEED_SCRIPT.format(edges=edges, perm=perm, mods=MODS, errs=list(errs))
        with open(os.path.join(d, "replay.py"), "w") as f:
            f.write(script)
        outs = set()
        env = dict(os.environ)
        env.pop("PYTHONPATH", None)
        for seed in range(48):
            env["PYTHONHASHSEED"] = str(seed)
            p = subprocess.run([sys.executable, os.path.join(d, "replay.py")], capture_output=True, text=True, env=env, timeout=120)
            outs.add(p.stdout.strip() or p.stderr[-200:])
        return len(outs) > 1, f"{len(outs)} distinct outputs over 48 hash seeds: {list(outs)[:2]}"

    return replay


if __name__ == "__main__":
    run_main(PID, main)
