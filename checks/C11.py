"""C11: cache serialisation is faithful in both formats.

K2a flat records (CacheMeta, CacheMetaEx/error tuples, DataclassTransformSpec): every int/bool
    field is a symbolic term; write->read and serialize->deserialize must give back the same
    term in the same field, the reader must consume exactly the writer's token kinds, and the
    two formats must agree (cross round trips).
K2b module interfaces: every module of a real build (feature-rich sample + the typeshed
    modules it pulls in) is written to a typed token buffer, read back, fixed up and written
    again; the same through JSON; token streams and JSON dicts must coincide pairwise.
K1  (vf/c11_codec.py when present) C codec of librt_internal.c via LLVM IR -> SMT.
"""

from __future__ import annotations

from vf import librt_stub

librt_stub.install()

import json  # noqa: E402
import os  # noqa: E402
import shutil  # noqa: E402
import subprocess  # noqa: E402
import sys  # noqa: E402
from typing import Any  # noqa: E402

import z3  # noqa: E402

from vf import symx  # noqa: E402
from vf.librt_stub import PairingError, TokRead, TokWrite  # noqa: E402
from vf.report import Report, run_main, scratch  # noqa: E402
from vf.symx import Ctx, SymBool, SymInt  # noqa: E402

PID = "C11"

SAMPLE = '''
from __future__ import annotations, division, generator_stop
import abc, enum, dataclasses
from typing import (Any, Callable, ClassVar, Final, Generic, Literal, NamedTuple, NewType, Optional, overload,
                    ParamSpec, Protocol, TypedDict, TypeVar, TypeVarTuple, Union, Unpack, Iterator, Awaitable)
from typing_extensions import Self, TypeAlias, TypeGuard, Concatenate, Required, NotRequired, ReadOnly

T = TypeVar("T")
K = TypeVar("K", bound=str)
V = TypeVar("V", int, str)
Tco = TypeVar("Tco", covariant=True)
P = ParamSpec("P")
Ts = TypeVarTuple("Ts")
UserId = NewType("UserId", int)
Json: TypeAlias = Union[dict[str, "Json"], list["Json"], str, int, None]
Pair = tuple[T, T]
MAXV: Final = 10
NAME: Final[str] = "x"

class Color(enum.Enum):
    RED = 1
    GREEN = "g"

class Flag(enum.IntFlag):
    A = 1
    B = 2

class Point(NamedTuple):
    x: int
    y: int = 0

class Movie(TypedDict, total=False):
    title: Required[str]
    year: int
    tag: ReadOnly[NotRequired[str]]

class Proto(Protocol[Tco]):
    attr: int
    def meth(self, x: int, /, *args: str, key: bool = ..., **kw: object) -> Tco: ...

@dataclasses.dataclass(frozen=True, order=True)
class DC(Generic[T]):
    a: T
    b: list[int] = dataclasses.field(default_factory=list)
    c: ClassVar[int] = 3

class Base(abc.ABC, Generic[T, K]):
    __slots__ = ("_v",)
    cls_attr: ClassVar[dict[str, int]] = {}
    def __init__(self, v: T) -> None:
        self._v = v
    @property
    def v(self) -> T: return self._v
    @v.setter
    def v(self, x: T) -> None: self._v = x
    @abc.abstractmethod
    def need(self, k: K) -> Optional[T]: ...
    @classmethod
    def make(cls, v: T) -> Self: ...
    @staticmethod
    def st(x: Literal[1, "a", True]) -> Literal[b"z"]: ...
    @overload
    def ov(self, x: int) -> int: ...
    @overload
    def ov(self, x: str, y: bytes = ...) -> str: ...
    def ov(self, x: object, y: object = None) -> object: return x
    async def co(self) -> Awaitable[int]: ...
    def gen(self) -> Iterator[T]:
        yield self._v

class Derived(Base[int, str]):
    def need(self, k: str) -> int | None: return None
    def __eq__(self, o: object) -> bool: return True
    class Inner:
        z: tuple[int, ...] = ()
        w: tuple[int, Unpack[tuple[str, ...]], bytes] = (1, b"")

def deco(f: Callable[P, T]) -> Callable[Concatenate[int, P], T]: ...
@deco
def decorated(a: str, *, b: float = 1.5) -> complex: ...
def variadic(*args: Unpack[Ts]) -> tuple[Unpack[Ts]]: ...
def guard(x: object) -> TypeGuard[int]: ...
def kw(**kwargs: Unpack[Movie]) -> type[Derived]: ...
def untyped(a, b=1, *c, d, **e): pass
lam = lambda q: q
any_v: Any = 0
none_v = None
cb: Callable[..., None] = lambda *a: None
def nested_default(x: Callable[[int, str], list[dict[str, Point]]] = ...) -> None: ...
if MAXV > 5:
    cond_def = 1

# boundary shapes: empty / zero / falsy values of serialized fields
class EmptySlots:
    __slots__ = ()
class SlotsChild(EmptySlots):
    __slots__ = ("a",)
    def __init__(self) -> None:
        self.a = 1
class ThreeSlots:
    __slots__ = ("s1", "s2", "s3")
class ThreeKeys(TypedDict):
    k1: int
    k2: ReadOnly[int]
    k3: ReadOnly[str]
class EmptyTD(TypedDict):
    pass
class ClosedTD(TypedDict, total=True):
    only: int
class NoMembers: ...
EMPTY_STR: Final = ""
ZERO: Final = 0
FALSE_: Final = False
NEG: Final = -1
BIG: Final = 2**70
FLT: Final = 0.0
empty_tuple: tuple[()] = ()
lit_empty: Literal[""] = ""
lit_zero: Literal[0] = 0
lit_false: Literal[False] = False
def no_args() -> None: ...
def only_star(*a: int) -> None: ...
def only_kw(**k: int) -> None: ...
def pos_only(a: int, b: int = 0, /) -> None: ...
def kw_only(*, a: int, b: int = 0) -> None: ...
class Meta(type): ...
class WithMeta(metaclass=Meta): ...
class Abstract(abc.ABC):
    @property
    @abc.abstractmethod
    def p(self) -> int: ...
class FinalCls:
    from typing import final as _final
@dataclasses.dataclass(slots=True, kw_only=True)
class DC2:
    x: int = 0
class GenericAlias(Generic[T]):
    Alias = list[T]
OptAlias = Optional[int]
from typing import Protocol as _P, runtime_checkable
@runtime_checkable
class RT(_P):
    def m(self) -> int: ...
class SelfRef:
    nxt: "SelfRef | None" = None
def deprecated_like(x: "int | str" = 0) -> "int | str": ...
'''


# --------------------------------------------------------------------------------------
# deep comparison producing one SMT obligation


def deep_eq(a: Any, b: Any, path: str, eqs: list, diffs: list) -> None:
    if symx.is_sym(a) or symx.is_sym(b):
        if isinstance(a, (SymInt, int)) and isinstance(b, (SymInt, int)) and not isinstance(a, bool) and not isinstance(b, bool):
            eqs.append((path, symx.to_z3int(a) == symx.to_z3int(b)))
        elif isinstance(a, (SymBool, bool)) and isinstance(b, (SymBool, bool)):
            eqs.append((path, symx.to_z3bool(a) == symx.to_z3bool(b)))
        else:
            diffs.append(f"{path}: {a!r} vs {b!r}")
        return
    if type(a) is not type(b) and not (isinstance(a, (list, tuple)) and isinstance(b, (list, tuple))):
        diffs.append(f"{path}: type {type(a).__name__} vs {type(b).__name__}")
        return
    if isinstance(a, dict):
        if set(a) != set(b):
            diffs.append(f"{path}: keys {sorted(map(str, a))} vs {sorted(map(str, b))}")
            return
        for k in a:
            deep_eq(a[k], b[k], f"{path}[{k!r}]", eqs, diffs)
    elif isinstance(a, (list, tuple)):
        if len(a) != len(b):
            diffs.append(f"{path}: length {len(a)} vs {len(b)}")
            return
        for i, (x, y) in enumerate(zip(a, b)):
            deep_eq(x, y, f"{path}[{i}]", eqs, diffs)
    elif isinstance(a, float):
        if not (a == b or (a != a and b != b)):
            diffs.append(f"{path}: {a!r} vs {b!r}")
    else:
        if a != b:
            diffs.append(f"{path}: {a!r} vs {b!r}")


def discharge(c: Ctx, label: str, a: Any, b: Any, found: dict, key: str) -> None:
    eqs: list = []
    diffs: list = []
    deep_eq(a, b, "", eqs, diffs)
    if diffs:
        c.stats["assert_queries"] += 1
        c.stats["refuted"] += 1
        found.setdefault(f"{key}: {label}: structural difference", (diffs[:5], c.path_model()))
        return
    ok = c.check(z3.And(*[e for _, e in eqs]) if eqs else z3.BoolVal(True), f"{key}: {label}")
    if not ok and c.cex:
        m = c.cex[-1].model
        bad = []
        mdl = c.solver.model()
        for p, e in eqs:
            if not z3.is_true(mdl.eval(e, model_completion=True)):
                bad.append(p)
        found.setdefault(f"{key}: {label}: field terms differ at {bad[:4]}", (bad[:5], m))


# --------------------------------------------------------------------------------------
# K2a flat records


def toks_of(obj: Any, *a: Any) -> list:
    w = TokWrite()
    obj.write(w, *a)
    return w.toks


def k2a_flat(rep: Report) -> None:
    import mypy.build  # noqa: F401
    from mypy import cache as C
    from mypy.nodes import DataclassTransformSpec

    rep.kernel("mypy.cache.CacheMeta.{write,read,serialize,deserialize}", symx.source_hash(C.__file__))
    found: dict[str, tuple] = {}
    ctx = Ctx()
    n = {"paths": 0}

    def body(c: Ctx) -> None:
        n["paths"] += 1
        I = lambda nm: c.int(nm)  # noqa: E731
        meta = C.CacheMeta(
            id="pkg.mod",
            path="pkg/mod.py",
            mtime=I("mtime"),
            size=I("size"),
            hash="h" * 40,
            dependencies=["builtins", "typing"],
            data_mtime=I("data_mtime"),
            data_file="pkg/mod.data.ff",
            suppressed=["missing"],
            imports_ignored={3: ["import-not-found"], 9: []},
            options={"platform": "linux", "other_options": "abc", "n": 3, "f": 1.5, "b": True, "none": None, "l": [1, "x"]},
            suppressed_deps_opts=b"\x00\x01",
            dep_prios=[I("prio0"), I("prio1"), I("prio2")],
            dep_lines=[I("line0"), I("line1"), I("line2")],
            dep_hashes=[b"\x01" * 20, b"\x02" * 20],
            interface_hash=b"\x03" * 20,
            trans_dep_hash=b"\x04" * 20,
            version_id="2.4.0+dev",
            ignore_all=c.bool("ignore_all"),
            plugin_data={"k": [1, 2, {"z": None}]},
        )
        fields = lambda m: dict(m.__dict__)  # noqa: E731
        # FF round trip
        t1 = toks_of(meta)
        rd = TokRead(t1)
        try:
            m2 = C.CacheMeta.read(rd, "pkg/mod.data.ff")
        except PairingError as e:
            found.setdefault("CacheMeta: reader/writer token kinds differ", ([str(e)], c.path_model()))
            return
        if m2 is None:
            found.setdefault("CacheMeta: read() of a written record returns None", ([], c.path_model()))
            return
        c.check(rd.pos == len(t1), "CacheMeta: reader consumes exactly the writer's tokens")
        discharge(c, "write->read", fields(meta), fields(m2), found, "CacheMeta")
        # JSON round trip
        j1 = meta.serialize()
        m3 = C.CacheMeta.deserialize(j1, "pkg/mod.data.ff")
        if m3 is None:
            found.setdefault("CacheMeta: deserialize() of a serialized record returns None", ([], c.path_model()))
            return
        discharge(c, "serialize->deserialize", fields(meta), fields(m3), found, "CacheMeta")
        # cross-format agreement
        discharge(c, "formats agree (tokens of JSON-restored = tokens of original)", t1, toks_of(m3), found, "CacheMeta")
        discharge(c, "formats agree (JSON of FF-restored = JSON of original)", j1, m2.serialize(), found, "CacheMeta")

        # CacheMetaEx with error tuples
        errs = [
            ("a.py", I("e_line"), I("e_col"), I("e_end_line"), I("e_end_col"), "error", "msg one", "arg-type"),
            (None, I("f_line"), I("f_col"), I("f_end_line"), I("f_end_col"), "note", "msg two", None),
        ]
        ex = C.CacheMetaEx(["x.y"], ["q"], [b"\x05" * 20], errs)
        t1 = toks_of(ex)
        rd = TokRead(t1)
        try:
            ex2 = C.CacheMetaEx.read(rd)
        except PairingError as e:
            found.setdefault("CacheMetaEx: reader/writer token kinds differ", ([str(e)], c.path_model()))
            return
        if ex2 is None:
            found.setdefault("CacheMetaEx: read() of a written record returns None", ([], c.path_model()))
            return
        c.check(rd.pos == len(t1), "CacheMetaEx: reader consumes exactly the writer's tokens")
        discharge(c, "write->read", fields(ex), fields(ex2), found, "CacheMetaEx")
        ex3 = C.CacheMetaEx.deserialize(ex.serialize())
        if ex3 is None:
            found.setdefault("CacheMetaEx: deserialize() of a serialized record returns None", ([], c.path_model()))
            return
        discharge(c, "serialize->deserialize", fields(ex), fields(ex3), found, "CacheMetaEx")
        discharge(c, "formats agree", t1, toks_of(ex3), found, "CacheMetaEx")

        # DataclassTransformSpec: four flags + field specifiers
        spec = DataclassTransformSpec(
            eq_default=c.bool("eq_default"),
            order_default=c.bool("order_default"),
            kw_only_default=c.bool("kw_only_default"),
            frozen_default=c.bool("frozen_default"),
            field_specifiers=("a.b", "c.d"),
        )
        # SymBools as flags: the writer decides by truth value, so this forks 2^4 ways
        t1 = toks_of(spec)
        rd = TokRead(t1)
        try:
            from mypy.cache import read_tag

            tag = read_tag(rd)
            s2 = DataclassTransformSpec.read(rd)
        except PairingError as e:
            found.setdefault("DataclassTransformSpec: reader/writer token kinds differ", ([str(e)], c.path_model()))
            return
        c.check(rd.pos == len(t1), "DataclassTransformSpec: reader consumes exactly the writer's tokens")
        names = ["eq_default", "order_default", "kw_only_default", "frozen_default", "field_specifiers"]
        get = lambda s: {k: getattr(s, k) for k in names}  # noqa: E731
        # after the fork the flags are concrete on this path: compare truth values
        conc = lambda d: {k: (bool(v) if isinstance(v, (SymBool, bool)) else v) for k, v in d.items()}  # noqa: E731
        discharge(c, "write->read", conc(get(spec)), conc(get(s2)), found, "DataclassTransformSpec")
        s3 = DataclassTransformSpec.deserialize(spec.serialize())
        discharge(c, "serialize->deserialize", conc(get(spec)), conc(get(s3)), found, "DataclassTransformSpec")

    ctx.explore(body)
    rep.add_ctx("K2a flat records with symbolic fields", ctx, records=["CacheMeta", "CacheMetaEx", "DataclassTransformSpec"])
    rep.twin("K2a reached", n["paths"] > 0 and ctx.stats["assert_queries"] > 0)
    for key, (detail, model) in found.items():
        rep.sample({"kernel": "K2a", "class": key, "detail": detail, "model": model})
        rep.candidate(key, f"{detail} with field values {model}", model, replay_flat(key, model))


def replay_flat(key: str, model: dict[str, Any]):
    def replay(d: str) -> tuple[bool, str]:
        # concrete record with the model's field values through the REAL librt buffers and json
        script = f'''
import json, sys
from librt.internal import ReadBuffer, WriteBuffer
import mypy.build
from mypy import cache as C
from mypy.nodes import DataclassTransformSpec
from mypy.cache import read_tag
m = {model!r}
g = lambda k, dflt=0: m.get(k, dflt)
meta = C.CacheMeta(id="pkg.mod", path="pkg/mod.py", mtime=g("mtime"), size=g("size"), hash="h"*40, dependencies=["builtins", "typing"],
    data_mtime=g("data_mtime"), data_file="d", suppressed=["missing"], imports_ignored={{3: ["import-not-found"], 9: []}},
    options={{"platform": "linux", "n": 3, "f": 1.5, "b": True, "none": None, "l": [1, "x"]}}, suppressed_deps_opts=b"\\x00\\x01",
    dep_prios=[g("prio0"), g("prio1"), g("prio2")], dep_lines=[g("line0"), g("line1"), g("line2")], dep_hashes=[b"\\x01"*20, b"\\x02"*20],
    interface_hash=b"\\x03"*20, trans_dep_hash=b"\\x04"*20, version_id="v", ignore_all=bool(g("ignore_all", False)), plugin_data={{"k": [1, 2, {{"z": None}}]}})
errs = [("a.py", g("e_line"), g("e_col"), g("e_end_line"), g("e_end_col"), "error", "msg one", "arg-type"), (None, g("f_line"), g("f_col"), g("f_end_line"), g("f_end_col"), "note", "msg two", None)]
ex = C.CacheMetaEx(["x.y"], ["q"], [b"\\x05"*20], errs)
spec = DataclassTransformSpec(eq_default=bool(g("eq_default", False)), order_default=bool(g("order_default", False)), kw_only_default=bool(g("kw_only_default", False)), frozen_default=bool(g("frozen_default", False)), field_specifiers=("a.b", "c.d"))
bad = []
def rt(obj, reader, *a):
    w = WriteBuffer(); obj.write(w); return reader(ReadBuffer(w.getvalue()), *a)
m2 = rt(meta, C.CacheMeta.read, "d")
if m2 is None or m2.__dict__ != meta.__dict__: bad.append(("CacheMeta ff", None if m2 is None else {{k: (v, m2.__dict__[k]) for k, v in meta.__dict__.items() if m2.__dict__[k] != v}}))
m3 = C.CacheMeta.deserialize(json.loads(json.dumps(meta.serialize())), "d")
if m3 is None or m3.__dict__ != meta.__dict__: bad.append(("CacheMeta json", None if m3 is None else {{k: (v, m3.__dict__[k]) for k, v in meta.__dict__.items() if m3.__dict__[k] != v}}))
e2 = rt(ex, C.CacheMetaEx.read)
if e2 is None or [tuple(x) for x in e2.error_lines] != [tuple(x) for x in ex.error_lines] or e2.dependencies != ex.dependencies: bad.append(("CacheMetaEx ff", None if e2 is None else e2.__dict__))
e3 = C.CacheMetaEx.deserialize(json.loads(json.dumps(ex.serialize())))
if e3 is None or [tuple(x) for x in e3.error_lines] != [tuple(x) for x in ex.error_lines]: bad.append(("CacheMetaEx json", None if e3 is None else e3.__dict__))
w = WriteBuffer(); spec.write(w); r = ReadBuffer(w.getvalue()); read_tag(r); s2 = DataclassTransformSpec.read(r)
names = ["eq_default", "order_default", "kw_only_default", "frozen_default", "field_specifiers"]
if any(getattr(s2, k) != getattr(spec, k) for k in names): bad.append(("DataclassTransformSpec ff", {{k: getattr(s2, k) for k in names}}))
s3 = DataclassTransformSpec.deserialize(json.loads(json.dumps(spec.serialize())))
if any(getattr(s3, k) != getattr(spec, k) for k in names): bad.append(("DataclassTransformSpec json", {{k: getattr(s3, k) for k in names}}))
print(bad)
sys.exit(1 if bad else 0)
'''
        with open(os.path.join(d, "replay.py"), "w") as f:
            f.write(script)
        env = dict(os.environ)
        env.pop("PYTHONPATH", None)
        p = subprocess.run([sys.executable, os.path.join(d, "replay.py")], capture_output=True, text=True, timeout=120, env=env)
        return p.returncode == 1, (p.stdout + p.stderr)[-600:]

    return replay


# --------------------------------------------------------------------------------------
# K2b whole module interfaces from a real build


def k2b_modules(rep: Report, tier: str) -> None:
    import mypy.build as B
    from mypy import nodes as N
    from mypy.fixup import NodeFixer
    from mypy.modules_state import modules_state
    from mypy.modulefinder import BuildSource
    from mypy.options import Options

    rep.kernel("mypy.nodes (write/read/serialize/deserialize)", symx.source_hash(N.__file__))
    import mypy.types as T

    rep.kernel("mypy.types (write/read/serialize/deserialize)", symx.source_hash(T.__file__))
    import mypy.fixup as F

    rep.kernel("mypy.fixup", symx.source_hash(F.__file__))
    o = Options()
    o.incremental = False
    o.cache_dir = os.devnull
    o.python_version = (3, 12)
    o.show_traceback = True
    work = scratch("c11-")
    try:
        res = B.build([BuildSource(None, "sample", SAMPLE)], o)
    finally:
        shutil.rmtree(work, ignore_errors=True)
    files = res.files
    ids = sorted(files)
    if tier == "quick":
        prefer = ["sample", "enum", "dataclasses", "abc", "types", "typing_extensions", "collections.abc", "_typeshed"]
        ids = [i for i in prefer if i in files]
    obligations = 0
    ok = 0
    found: dict[str, tuple] = {}
    ntok = 0
    for mid in ids:
        tree = files[mid]

        def restore(tree2: Any) -> Any:
            mods = dict(files)
            mods[mid] = tree2
            # as build.State.fix_cross_refs does (cross references are resolved lazily through
            # the global node fixer while the tree is used)
            modules_state.node_fixer = NodeFixer(mods, False)
            modules_state.node_fixer.visit_symbol_table(tree2.names)
            return tree2

        try:
            t1 = toks_of(tree)
            ntok += len(t1)
            rd = TokRead(t1)
            tree2 = N.MypyFile.read(rd)
            obligations += 1
            if rd.pos != len(t1):
                found.setdefault(f"module {mid}: reader consumed {rd.pos} of {len(t1)} tokens", ([], {}))
                continue
            ok += 1
            restore(tree2)
            t2 = toks_of(tree2)
            j1 = tree.serialize()
            tree3 = restore(N.MypyFile.deserialize(json.loads(json.dumps(j1))))
            t3 = toks_of(tree3)
            j2 = tree2.serialize()
        except PairingError as e:
            obligations += 1
            found.setdefault(f"module {mid}: reader/writer token kinds differ", ([str(e)], {}))
            continue
        except Exception as e:  # noqa: BLE001  -- the real (de)serialisers / fix-up failing on a real module interface
            obligations += 1
            found.setdefault(f"module interface: round trip raises {type(e).__name__}", ([mid, str(e)[:200]], {}))
            continue
        for label, a, b in (("FF round trip (tokens)", t1, t2), ("JSON round trip seen through FF tokens", t1, t3), ("FF round trip seen through JSON", j1, j2)):
            obligations += 1
            eqs: list = []
            diffs: list = []
            deep_eq(a, b, "", eqs, diffs)
            if diffs:
                found.setdefault(f"module interface: {label} differs", ([mid] + diffs[:4], {}))
            else:
                ok += 1
    rep.add_counts(obligations, ok, queries=obligations)
    rep.section("K2b module interface round trips", modules=len(ids), tokens=ntok, obligations=obligations, ok=ok, sample_modules=ids[:10])
    rep.twin("K2b: modules round-tripped", len(ids) > 0 and ntok > 1000)
    rep.sample({"kernel": "K2b", "modules": ids[:8], "tokens": ntok})
    for key, (detail, model) in found.items():
        rep.sample({"kernel": "K2b", "class": key, "detail": detail})
        rep.candidate(key, f"{detail}", {"detail": detail}, replay_modules(detail[0] if detail else "sample"))


class PermSet(set):
    """A real set whose iteration order is the permutation the solver picked (a hash-seed stand-in for
    one set object); sorted()/list()/for all go through __iter__."""

    order: list = []

    def __iter__(self) -> Any:
        return iter(self.order)


def k2c_set_order(rep: Report) -> None:
    """Bytes written for a module must not depend on the iteration order of its set-valued fields
    (MypyFile.future_import_flags, TypeInfo.slots, TypedDictType.required_keys / readonly_keys,
    ExtraAttrs.immutable): for every such set of the sample module with >= 2 elements, every
    permutation (chosen by the solver) must give the token stream and the JSON of the canonical run."""
    import itertools

    import mypy.build as B
    from mypy import nodes as N
    from mypy.modulefinder import BuildSource
    from mypy.options import Options
    from mypy.types import ExtraAttrs, Instance, TypedDictType, get_proper_type

    o = Options()
    o.incremental = False
    o.cache_dir = os.devnull
    o.python_version = (3, 12)
    res = B.build([BuildSource(None, "sample", SAMPLE)], o)
    tree = res.files["sample"]
    targets: list = []
    if len(tree.future_import_flags) >= 2:
        targets.append((tree, "future_import_flags", "MypyFile.future_import_flags"))
    for _, sym, _ in tree.local_definitions():
        node = sym.node
        if isinstance(node, N.TypeInfo):
            if node.slots is not None and len(node.slots) >= 2:
                targets.append((node, "slots", f"TypeInfo({node.name}).slots"))
            td = node.typeddict_type
            if isinstance(td, TypedDictType):
                for attr in ("required_keys", "readonly_keys"):
                    if len(getattr(td, attr)) >= 2:
                        targets.append((td, attr, f"TypedDictType({node.name}).{attr}"))
    found: dict = {}
    canon_t = toks_of(tree)
    canon_j = json.dumps(tree.serialize(), sort_keys=True)
    tot = Ctx()
    tot.exhausted = True
    nperm = 0
    for obj, attr, label in targets:
        orig = getattr(obj, attr)
        elems = sorted(orig)
        perms = list(itertools.permutations(elems))
        ctx = Ctx()

        def body(c: Ctx, obj: Any = obj, attr: str = attr, label: str = label, perms: list = perms, orig: Any = orig) -> None:
            ps = PermSet(orig)
            ps.order = list(perms[c.choose("iteration_order", len(perms))])
            setattr(obj, attr, ps)
            try:
                t = toks_of(tree)
                j = json.dumps(tree.serialize(), sort_keys=True)
            finally:
                setattr(obj, attr, orig)
            for what, a, b in (("binary", t, canon_t), ("JSON", j, canon_j)):
                c.stats["assert_queries"] += 1
                if a == b:
                    c.stats["discharged"] += 1
                else:
                    c.stats["refuted"] += 1
                    found.setdefault(f"{what} cache bytes depend on the iteration order of {label.split('(')[0]}{'.' + attr if '(' in label else ''}", (label, ps.order, what))

        ctx.explore(body)
        nperm += len(perms)
        for k, v in ctx.stats.items():
            if isinstance(v, (int, float)):
                tot.stats[k] += v
        tot.exhausted = tot.exhausted and ctx.exhausted
    rep.add_ctx("K2c set-valued fields: serialized form independent of iteration order", tot, sets=[t[2] for t in targets], permutations=nperm)
    rep.twin("K2c: set-valued fields with >= 2 elements found in the sample", len(targets) >= 3)
    for key, (label, order, what) in found.items():
        rep.sample({"kernel": "K2c", "class": key, "field": label, "order": order})

        def replay(d: str, label: str = label, what: str = what) -> tuple[bool, str]:
            # real runs under different hash seeds: the cache file of the sample must be byte-identical
            import hashlib

            with open(os.path.join(d, "sample.py"), "w") as f:
                f.write(SAMPLE)
            env = dict(os.environ)
            env.pop("PYTHONPATH", None)
            digests = set()
            for seed in range(1, 13):
                env["PYTHONHASHSEED"] = str(seed)
                cd = os.path.join(d, f"cache{seed}")
                flags = ["--no-sqlite-cache", "--cache-dir", cd, "--python-version", "3.12"] + ([] if what == "binary" else ["--no-fixed-format-cache"])
                subprocess.run([sys.executable, "-m", "mypy"] + flags + ["sample.py"], cwd=d, env=env, capture_output=True, text=True, timeout=600)
                for root, _, fs in os.walk(cd):
                    for fn in fs:
                        if fn.startswith("sample.data"):
                            digests.add(hashlib.sha256(open(os.path.join(root, fn), "rb").read()).hexdigest()[:12])
                shutil.rmtree(cd, ignore_errors=True)
            return len(digests) > 1, f"{len(digests)} distinct sample.data.* files over 12 hash seeds ({what} format): {sorted(digests)[:4]}"

        rep.candidate(key, f"{label} iterated as {order}", {"field": label, "order": order}, replay)


REAL_RT = r'''
# Round trip of real module interfaces through the REAL librt buffers and json, observed as the
# property says: structural dump before serialization vs after load + fixup, both formats.
import json, os, sys
from librt.internal import ReadBuffer, WriteBuffer
import mypy.build as B
from mypy import nodes as N
from mypy.fixup import NodeFixer
from mypy.modules_state import modules_state
from mypy.modulefinder import BuildSource
from mypy.options import Options
SAMPLE = open(os.path.join(os.path.dirname(os.path.abspath(__file__)), "sample.py")).read()
o = Options(); o.incremental = False; o.cache_dir = os.devnull; o.python_version = (3, 12)
res = B.build([BuildSource(None, "sample", SAMPLE)], o)
files = res.files
only = sys.argv[1:] or sorted(files)
def restore(mid, tree2):
    mods = dict(files); mods[mid] = tree2
    modules_state.node_fixer = NodeFixer(mods, False)
    modules_state.node_fixer.visit_symbol_table(tree2.names)
    return tree2
def diff(a, b, path, out):
    if len(out) > 6: return
    if type(a) is not type(b): out.append(f"{path}: {type(a).__name__} vs {type(b).__name__}"); return
    if isinstance(a, dict):
        if set(a) != set(b): out.append(f"{path}: keys differ {sorted(set(a) ^ set(b))}"); return
        for k in a: diff(a[k], b[k], f"{path}[{k!r}]", out)
    elif isinstance(a, list):
        if len(a) != len(b): out.append(f"{path}: length {len(a)} vs {len(b)}"); return
        for i, (x, y) in enumerate(zip(a, b)): diff(x, y, f"{path}[{i}]", out)
    elif a != b: out.append(f"{path}: {a!r} vs {b!r}")
bad = []
for mid in only:
    if mid not in files: continue
    tree = files[mid]
    j1 = tree.serialize()
    w = WriteBuffer(); tree.write(w); b1 = w.getvalue()
    tree2 = restore(mid, N.MypyFile.read(ReadBuffer(b1)))
    out = []; diff(j1, tree2.serialize(), "", out)
    if out: bad.append((mid, "binary format: dump after load differs", out))
    w = WriteBuffer(); tree2.write(w)
    if w.getvalue() != b1: bad.append((mid, "binary format: bytes of the reloaded interface differ", []))
    tree3 = restore(mid, N.MypyFile.deserialize(json.loads(json.dumps(j1))))
    out = []; diff(j1, tree3.serialize(), "", out)
    if out: bad.append((mid, "JSON format: dump after load differs", out))
    w = WriteBuffer(); tree3.write(w)
    if w.getvalue() != b1: bad.append((mid, "formats disagree: binary bytes of the JSON-reloaded interface differ", []))
for b in bad: print(b)
print("DIFFERENT" if bad else "SAME")
sys.exit(1 if bad else 0)
'''


def replay_modules(mid: str):
    def replay(d: str) -> tuple[bool, str]:
        with open(os.path.join(d, "sample.py"), "w") as f:
            f.write(SAMPLE)
        with open(os.path.join(d, "replay.py"), "w") as f:
            f.write(REAL_RT)
        env = dict(os.environ)
        env.pop("PYTHONPATH", None)
        p = subprocess.run([sys.executable, os.path.join(d, "replay.py"), mid], capture_output=True, text=True, timeout=600, env=env, cwd=d)
        return p.returncode == 1, (p.stdout + p.stderr)[-1200:]

    return replay


def main(args: Any) -> int:
    rep = Report(PID, args.tier, "typed-token execution of the real write/read/serialize/deserialize methods with symbolic field terms (z3 decides term equality / produces distinguishing field values); whole-module round trips of a real build through both formats; replay through the real librt buffers, json and warm-vs-cold runs")
    only = set(args.only.split(",")) if args.only else None
    rep.bounds += [
        "K2a: one record of each flat class with every int/bool field symbolic (list lengths and strings concrete)",
        "K2b: module interfaces of a feature-rich sample module plus the typeshed modules it imports (quick: 8 modules, thorough: all ~60); values as produced by the real build",
    ]
    rep.assumptions += [
        "typed token buffer stands in for librt.internal's byte buffers (kinds int/str/bytes/bool/float/tag); the byte-level codec is K1's subject",
        "NodeFixer is installed and applied after each read, as build.State.fix_cross_refs does",
    ]
    rep.outside += ["byte-determinism across hash seeds (C10)", "symbols of programs other than the sample and typeshed modules"]
    if only is None or "K2a" in only:
        k2a_flat(rep)
    if only is None or "K2b" in only:
        k2b_modules(rep, args.tier)
    if only is None or "K2c" in only:
        k2c_set_order(rep)
        rep.bounds.append("K2c: every permutation of every set-valued field (>= 2 elements) of the sample module, one field at a time")
    if only is None or "K1" in only:
        try:
            from vf import c11_codec
        except ImportError:
            c11_codec = None  # type: ignore[assignment]
        if c11_codec is not None:
            c11_codec.run(rep, args.tier)
    return rep.finish()


if __name__ == "__main__":
    run_main(PID, main)
