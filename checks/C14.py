"""C14 (narrow): reported positions are normalised.

K1 Errors.report: for every (line, column, end_line, end_column) incl. None / -1, the
   ErrorInfo handed on has an end position that is not before its start.
K2 Errors.format_messages_default: the location prefix printed under
   --show-column-numbers / --show-error-end has a 1-based column >= 1 and an end that is
   not before the start, for every ErrorInfo K1 can produce.
K3 (when present, vf/c14_marker.py): --pretty marker arithmetic.

Not applicable part: native vs default parser equivalence (external compiled front end,
inputs are programs) and 'line exists / column within the line' (needs the whole pipeline).
"""

from __future__ import annotations

import os
from typing import Any

import z3

from vf import bstr as B
from vf import symx
from vf.report import Report, run_main
from vf.symx import Ctx, Kernel, PathAbort, SymBool, SymInt, Unsupported

PID = "C14"


class _ReportSelf:
    scope = None
    global_watcher = False
    file = "f.py"
    target_module = "m"

    def __init__(self) -> None:
        self.infos: list = []

    def import_context(self) -> list:
        return []

    def current_module(self) -> str:
        return "m"

    def current_target(self) -> str:
        return "m.f"

    def add_error_info(self, info: Any) -> None:
        self.infos.append(info)


def opt_int(c: Ctx, name: str, lo: int) -> Any:
    if bool(c.bool(name + "_is_none")):
        return None
    return c.int(name, lo)


def k1_k2(rep: Report) -> None:
    import mypy.build  # noqa: F401
    import mypy.errors as E

    K = Kernel("mypy.errors", ["Errors.report", "Errors.format_messages_default"], closure=False)
    rep.kernels_from(K)
    report = K["Errors.report"]
    fmt = K["Errors.format_messages_default"]
    ctx = Ctx()
    found: dict[str, tuple] = {}
    n = {"infos": 0, "lines": 0}

    def body(c: Ctx) -> None:
        line = c.int("line", 1)
        column = opt_int(c, "column", -1)
        end_line = opt_int(c, "end_line", -1)
        end_column = opt_int(c, "end_column", -1)
        me = _ReportSelf()
        report(me, line, column, "msg", None, end_line=end_line, end_column=end_column)
        if len(me.infos) != 1:
            c.check(False, "report hands on exactly one ErrorInfo")
            return
        info = me.infos[0]
        n["infos"] += 1
        L, C_, EL, EC = (symx.to_z3int(x) for x in (info.line, info.column, info.end_line, info.end_column))
        c.check(EL >= L, "end_line >= line")
        c.check(z3.Implies(z3.And(EL == L, C_ >= 0), EC > C_), "same line: end_column > column")
        c.check(C_ >= -1, "column >= -1")
        c.check(z3.Implies(C_ == -1, z3.Or(EC == -1, EL > L, EC >= 0)), "unknown column handled")

        # K2: render the location prefix
        class Opts:
            show_column_numbers = bool(c.bool("show_column_numbers"))
            show_error_end = bool(c.bool("show_error_end"))
            pretty = False

        class FSelf:
            options = Opts
            hide_error_codes = True

        captured: list = []

        def fstr_hook(parts: list) -> Any:
            captured.append(list(parts))
            return "LOC"

        symx.FSTR_HOOKS.insert(0, ((SymInt,), fstr_hook))
        try:
            out = fmt(FSelf, [("f.py", info.line, info.column, info.end_line, info.end_column, "error", "msg", None)], None)
        finally:
            symx.FSTR_HOOKS.pop(0)
        n["lines"] += 1
        # captured f-string parts: ["f.py", ":", line, ":", 1+column] (+ [srcloc, ":", end_line, ":", end_column])
        nums = [[p for p in parts if isinstance(p, (SymInt, int)) and not isinstance(p, bool)] for parts in captured]
        flat = [symx.to_z3int(x) for ns in nums for x in ns]
        if Opts.show_column_numbers and len(flat) >= 2:
            c.check(flat[1] >= 1, "printed column is 1-based and >= 1")
            c.check(flat[0] >= 1, "printed line >= 1")
        if Opts.show_column_numbers and Opts.show_error_end and len(flat) >= 4:
            pl, pc, pel, pec = flat[0], flat[1], flat[2], flat[3]
            # printed start column is 1-based, printed end column is the 0-based exclusive end
            # = 1-based inclusive end: (pel, pec) >= (pl, pc)
            c.check(z3.Or(pel > pl, z3.And(pel == pl, pec >= pc)), "printed end position not before printed start")

    ctx.explore(body)
    rep.add_ctx("K1+K2 Errors.report -> format_messages_default location prefix", ctx, infos=n["infos"], rendered=n["lines"])
    rep.twin("K1/K2 reached", n["infos"] > 0 and n["lines"] > 0)
    for x in ctx.cex:
        found.setdefault("position normalisation: " + x.label, (x.model,))
    for key, (model,) in found.items():
        rep.sample({"kernel": "Errors.report/format_messages_default", "class": key, "model": model})

        def replay(d: str, model: dict = model) -> tuple[bool, str]:
            # call the unmodified Errors.report + format_messages_default with the model's values
            from mypy.errors import Errors
            from mypy.options import Options

            o = Options()
            o.show_column_numbers = True
            o.show_error_end = True
            o.hide_error_codes = True
            e = Errors(o)
            e.set_file("f.py", "m", o)

            def g(nm: str) -> Any:
                return None if model.get(nm + "_is_none") else model.get(nm)

            info = e.report(model["line"], g("column"), "msg", end_line=g("end_line"), end_column=g("end_column"))
            lines = e.format_messages_default(e.render_messages("f.py", [info]), None)
            txt = lines[0] if lines else ""
            import re

            m = re.match(r"f\.py:(\d+):(\d+):(\d+):(\d+):", txt)
            bad = False
            if m:
                l, c_, el, ec = map(int, m.groups())
                bad = (el, ec) < (l, c_) or c_ < 1
            bad = bad or (info.end_line, info.end_column) < (info.line, info.column) and info.column >= 0
            with open(os.path.join(d, "replay.py"), "w") as f:
                f.write(f"# model: {model}\n# rendered: {txt}\n")
            return bad, f"rendered {txt!r}; info=({info.line},{info.column},{info.end_line},{info.end_column})"

        rep.candidate(key, f"positions not normalised for {model}", model, replay)


def k3_set_line(rep: Report) -> None:
    """nodes.Context.set_line: every explicitly given component (column, end_line, end_column -- any
    integer incl. 0, the column of a construct that starts a line) is stored; an omitted one keeps what
    the target node supplied (or the default).  Both parsers position nodes through it or by direct
    assignment, so a component it drops makes their diagnostics differ."""
    K = Kernel("mypy.nodes", ["Context.set_line"], closure=False)
    rep.kernels_from(K)
    fn = K["Context.set_line"]
    ctx = Ctx()
    n = {"runs": 0, "explicit": 0}

    class Node:
        def __init__(self) -> None:
            self.line: Any = -1
            self.column: Any = -1
            self.end_line: Any = None
            self.end_column: Any = None

    def same(c: Ctx, a: Any, b: Any, label: str) -> None:
        if a is None or b is None:
            c.check(a is None and b is None, label)
        else:
            c.check(symx.to_z3int(a) == symx.to_z3int(b), label)

    def body(c: Ctx) -> None:
        node = Node()
        if bool(c.bool("target_is_node")):
            t: Any = Node()
            t.line = c.int("t_line", 1)
            t.column = c.int("t_column", -1)
            t.end_line = opt_int(c, "t_end_line", 1)
            t.end_column = opt_int(c, "t_end_column", 0)
            base = (t.line, t.column, t.end_line, t.end_column)
        else:
            t = c.int("line", 1)
            base = (t, -1, None, None)
        column = opt_int(c, "column", 0)
        end_line = opt_int(c, "end_line", 1)
        end_column = opt_int(c, "end_column", 0)
        fn(node, t, column, end_line, end_column)
        n["runs"] += 1
        n["explicit"] += 1 if column is not None else 0
        same(c, node.line, base[0], "line taken from the target")
        same(c, node.column, column if column is not None else base[1], "an explicit column (0 included) is stored, an omitted one keeps the target's")
        same(c, node.end_line, end_line if end_line is not None else base[2], "an explicit end line is stored, an omitted one keeps the target's")
        same(c, node.end_column, end_column if end_column is not None else base[3], "an explicit end column (0 included) is stored, an omitted one keeps the target's")

    ctx.explore(body)
    rep.add_ctx("K3 Context.set_line stores every explicit position component", ctx, **n)
    rep.twin("K3 reached with explicit components", n["explicit"] > 0)
    rep.bounds.append("K3: target an int line or a node with symbolic positions; column / end_column None or any int >= 0, end_line None or any int >= 1")
    seen: dict = {}
    for x in ctx.cex:
        seen.setdefault(x.label, x.model)
    for label, model in seen.items():
        rep.sample({"kernel": "Context.set_line", "class": label, "model": model})

        def replay(d: str, model: dict = model) -> tuple[bool, str]:
            from mypy.nodes import Context

            def g(nm: str) -> Any:
                return None if model.get(nm + "_is_none") else model.get(nm)

            node = Context()
            if model.get("target_is_node"):
                t: Any = Context()
                t.line, t.column, t.end_line, t.end_column = model.get("t_line", 1), model.get("t_column", -1), g("t_end_line"), g("t_end_column")
                base = (t.line, t.column, t.end_line, t.end_column)
            else:
                t = model.get("line", 1)
                base = (t, -1, None, None)
            node.set_line(t, g("column"), g("end_line"), g("end_column"))
            want = (base[0], g("column") if g("column") is not None else base[1], g("end_line") if g("end_line") is not None else base[2], g("end_column") if g("end_column") is not None else base[3])
            got = (node.line, node.column, node.end_line, node.end_column)
            with open(os.path.join(d, "replay.txt"), "w") as f:
                f.write(f"model {model}\ngot {got}\nwant {want}\n")
            return got != want, f"unmodified Context.set_line: got {got}, expected {want}"

        rep.candidate("set_line: " + label, f"{label}: {model}", model, replay)


def main(args: Any) -> int:
    rep = Report(PID, args.tier, "symbolic execution (symx/z3) of the real Errors.report clamps and the location-prefix rendering; all four position components symbolic incl. None")
    rep.bounds += ["line >= 1, column/end_line/end_column each None or an int >= -1 (unbounded above); one diagnostic; show_column_numbers/show_error_end symbolic; pretty off (K3 covers the marker when present)"]
    rep.assumptions += ["stub Errors self (no scope, no watchers); ErrorInfo is the real class"]
    rep.outside += ["native vs default parser equivalence beyond the generated programs of K6 and the option hand-over in parse_all (the property quantifies over every source file)", "line exists in the file / column within the line (needs the parser + checker pipeline on source text)"]
    k1_k2(rep)
    k3_set_line(rep)
    # the one hinge of "native parser = default parser" that is mypy's own Python code: batch parsing must
    # hand each file's inline configuration to the deserialiser (kernel shared with C17/K5)
    from checks.C17 import k5_inline_batch

    k5_inline_batch(rep)
    rep.bounds.append("K5 (shared with C17): batches of 2-3 files in BuildManager.parse_all, native-parser branch")
    from vf import c14_parsers

    c14_parsers.run(rep, args.tier)
    try:
        from vf import c14_marker
    except ImportError:
        c14_marker = None  # type: ignore[assignment]
    if c14_marker is not None:
        c14_marker.run(rep, args.tier)
    return rep.finish()


if __name__ == "__main__":
    run_main(PID, main)
