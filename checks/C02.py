"""C02: warm run = cold run -- freshness-decision kernels.

K1 build.validate_meta on a duck-typed manager with symbolic stat/clock/hash values.
K3 State.is_fresh / find_stale_sccs kernels   (vf/c02_fresh.py, when present)

Environment contract (the code's own documented assumption, fswatcher/validate_meta
docstrings): a content change changes the file's size or its (real-valued) mtime.
Nothing else is assumed about time.
"""

from __future__ import annotations

import os
import shutil
import stat as stat_mod
import subprocess
import sys
import types
from typing import Any

import z3

from vf import symx
from vf.report import Report, run_main, scratch
from vf.symx import Ctx, Kernel, PathAbort, SymBool, SymInt, SymReal, Unsupported

PID = "C02"


class _Stat:
    def __init__(self, mode: int, size: Any, mtime: Any):
        self.st_mode = mode
        self.st_size = size
        self.st_mtime = mtime


class _Meta:
    pass


def k1_validate_meta(rep: Report) -> None:
    import mypy.build as B

    calls: list = []
    K = Kernel(
        "mypy.build",
        ["validate_meta"],
        extra_globals={
            "options_snapshot": lambda id, manager: "SNAPSHOT-NOW",
            "get_cache_names": lambda id, path, options: ("m.meta", "m.data", "m.meta_ex"),
            "write_cache_meta": lambda meta, manager, meta_file: calls.append(("write_cache_meta", meta_file)),
            "normpath": lambda path, options: path,
        },
        closure=False,
    )
    rep.kernels_from(K)
    fn = K["validate_meta"]
    ctx = Ctx()
    classes: dict[str, tuple] = {}
    accepted = {"n": 0}

    def body(c: Ctx) -> None:
        calls.clear()
        # --- symbolic world
        old_real_mtime = c.real("old_real_mtime")  # source mtime when the cache was written
        c.solver.add(old_real_mtime.t >= 0)
        new_real_mtime = c.real("new_real_mtime")
        c.solver.add(new_real_mtime.t >= 0)
        meta = _Meta()
        meta.ignore_all = bool(c.bool("meta_ignore_all"))
        meta.data_file = "m.data"
        meta.data_mtime = c.int("meta_data_mtime", 0)
        meta.size = c.int("meta_size", 0)
        meta.mtime = old_real_mtime.trunc()  # what write_cache stores: int(st.st_mtime)
        same_path = bool(c.bool("same_path"))
        meta.path = "p.py" if same_path else "other/p.py"
        meta.hash = c.tok("meta_hash", "Hash")
        meta.options = "SNAPSHOT-OLD"
        cur_hash = c.tok("cur_hash", "Hash")
        size_now = c.int("size_now", 0)
        ignore_all = bool(c.bool("ignore_all"))
        mode_kind = c.choose("mode_kind", 3)
        mode = (stat_mod.S_IFREG | 0o644, stat_mod.S_IFDIR | 0o755, stat_mod.S_IFIFO)[mode_kind]
        data_mtime_now = c.int("data_mtime_now", 0)
        data_stat_fails = c.bool("data_stat_fails")
        stat_none = c.bool("stat_none")
        hash_fails = c.bool("hash_fails")
        has_qs = c.choose("quickstart", 2)

        class Opts:
            bazel = bool(c.bool("bazel"))
            skip_cache_mtime_checks = bool(c.bool("skip_cache_mtime_checks"))

        class FS:
            @staticmethod
            def hash_digest(path: str) -> Any:
                if hash_fails:
                    raise OSError("unreadable")
                return cur_hash

        class Mgr:
            options = Opts
            stats_enabled = False
            logging_enabled = False
            fscache = FS
            quickstart_state = None

            @staticmethod
            def log(*a: Any) -> None:
                pass

            @staticmethod
            def add_stats(**kw: Any) -> None:
                pass

            @staticmethod
            def getmtime(path: str) -> Any:
                if data_stat_fails:
                    raise OSError("gone")
                return 0 if Opts.bazel else data_mtime_now

            @staticmethod
            def get_stat(path: str) -> Any:
                if stat_none:
                    return None
                return _Stat(mode, size_now, new_real_mtime)

            _fg = None

            @staticmethod
            def use_fine_grained_cache() -> bool:
                if Mgr._fg is None:
                    Mgr._fg = bool(c.bool("fine_grained_cache"))
                return Mgr._fg

        qs_access = {"n": 0}

        class QS(dict):
            def __getitem__(self, k: Any) -> Any:
                qs_access["n"] += 1
                return dict.__getitem__(self, k)

        if has_qs:
            Mgr.quickstart_state = QS({"p.py": (c.real("q_mtime"), c.int("q_size", 0), c.tok("q_hash", "Hash"))})
        hashed = {"n": 0}
        orig_hash_digest = FS.hash_digest

        def counting_hash(path: str) -> Any:
            hashed["n"] += 1
            return orig_hash_digest(path)

        FS.hash_digest = staticmethod(counting_hash)  # type: ignore[assignment]
        orig_mtime, orig_size, orig_hash, orig_data_mtime = meta.mtime, meta.size, meta.hash, meta.data_mtime
        # a directory (namespace package) hashes to ""
        EMPTY = c.tok("hash_of_empty", "Hash")
        if mode_kind == 1:
            cur = EMPTY
        else:
            cur = cur_hash

        res = fn(meta, "m", "p.py", ignore_all, Mgr)
        if res is None:
            c.check(True, "rejected")
            return
        accepted["n"] += 1
        # documented escapes
        if Opts.bazel or Mgr.use_fine_grained_cache():
            c.check(True, "escape: bazel / fine-grained cache load")
            return
        if qs_access["n"] and not hashed["n"]:
            c.check(True, "escape: quickstart file vouches for the hash")
            return
        changed = symx.Not(cur == orig_hash) if mode_kind != 1 else SymBool(z3.BoolVal(False))
        if mode_kind == 1:
            # namespace package directory: nothing to hash; accepted iff sizes etc. match
            c.check(True, "directory")
            return
        # contract: changed content => size or real mtime changed
        contract = symx.Implies(changed, symx.Or(symx.Not(size_now == orig_size), symx.Not(new_real_mtime == old_real_mtime)))
        c.solver.add(contract.t)
        if c._check() == "unsat":
            raise PathAbort()
        # data file tie (second step of validate_meta)
        if not Opts.skip_cache_mtime_checks:
            c.check(data_mtime_now == orig_data_mtime, "accepted => data file mtime unchanged")
        # classify violations of "accepted => source unchanged"
        for mt_eq in (True, False):
            for sz_eq in (True, False):
                cond = z3.And(
                    changed.t,
                    (orig_mtime == new_real_mtime.trunc()).t if mt_eq else z3.Not((orig_mtime == new_real_mtime.trunc()).t),
                    (size_now == orig_size).t if sz_eq else z3.Not((size_now == orig_size).t),
                )
                c.stats["assert_queries"] += 1
                hit, model = c.feasible(cond)
                if not hit:
                    c.stats["discharged"] += 1
                    continue
                c.stats["refuted"] += 1
                via = "mtime-refresh" if calls else "fresh"
                key = f"validate_meta accepts changed source: int(mtime)_equal={mt_eq} size_equal={sz_eq} path_equal={same_path} via={via}"
                classes.setdefault(key, (model, mt_eq, sz_eq, same_path, via))

    ctx.explore(body)
    rep.add_ctx("K1 build.validate_meta", ctx, accepted_paths=accepted["n"])
    rep.twin("K1: validate_meta accepts a meta on some path", accepted["n"] > 0)
    for key, (model, mt_eq, sz_eq, same_path, via) in classes.items():
        rep.sample({"kernel": "validate_meta", "class": key, "model": model})
        rep.candidate(
            key,
            f"a changed source file (different content hash) is accepted from cache; old mtime {model.get('old_real_mtime')}, new mtime {model.get('new_real_mtime')}, size {model.get('meta_size')}->{model.get('size_now')}",
            model,
            replay_warm_vs_cold(model, mt_eq, sz_eq, same_path),
        )


WARM_COLD = r'''
import os, subprocess, sys, shutil
# usage: replay.py <workdir>
w = sys.argv[1]
os.makedirs(w, exist_ok=True)
p = os.path.join(w, "a.py")
T0 = 1_700_000_000
def run(extra):
    env = dict(os.environ); env.pop("PYTHONPATH", None); env["MYPY_CACHE_DIR"] = ""
    r = subprocess.run([sys.executable, "-m", "mypy", "--no-error-summary"] + extra + ["a.py"], cwd=w, capture_output=True, text=True, env=env)
    return r.returncode, r.stdout + r.stderr
open(p, "w").write({src1!r})
os.utime(p, ns=(int((T0 + {f1}) * 1e9), int((T0 + {f1}) * 1e9)))
rc1, o1 = run(["--cache-dir=cache"] + {flags!r})
open(p, "w").write({src2!r})
os.utime(p, ns=(int((T0 + {f2}) * 1e9), int((T0 + {f2}) * 1e9)))
rcw, ow = run(["--cache-dir=cache"] + {flags!r})
rcc, oc = run(["--cache-dir=" + os.devnull] + {flags!r})
print("first :", rc1, o1.strip())
print("warm  :", rcw, ow.strip())
print("cold  :", rcc, oc.strip())
print("DIFFERENT" if (rcw, ow) != (rcc, oc) else "SAME")
'''


def replay_warm_vs_cold(model: dict[str, Any], mt_eq: bool, sz_eq: bool, same_path: bool):
    def replay(d: str) -> tuple[bool, str]:
        # realise the model: two versions of a.py; same size iff sz_eq; mtimes from the model's
        # fractional parts (same whole second iff mt_eq)
        def frac(x: Any) -> float:
            x = float(x)
            return round(x - int(x), 3)

        f1 = frac(model.get("old_real_mtime", 0.1))
        f2 = frac(model.get("new_real_mtime", 0.6))
        if not mt_eq:
            f2 += 5
        elif f1 == f2:
            f2 = f1 + 0.001
        src1 = "x: int = 1\n"
        src2 = "x: str = 1\n" if sz_eq else "x: str = 1  # changed\n"
        if not same_path:
            return False, "path-differs class has no end-to-end replay (same file reached through another path is re-hashed)"
        results = []
        for flags in (["--sqlite-cache"], ["--no-sqlite-cache"], ["--no-sqlite-cache", "--no-fixed-format-cache"] if _has_flag("--no-fixed-format-cache") else ["--no-sqlite-cache"]):
            script = WARM_COLD.format(src1=src1, src2=src2, f1=f1, f2=f2, flags=flags)
            with open(os.path.join(d, "replay.py"), "w") as f:
                f.write(script)
            work = scratch("c02-")
            try:
                p = subprocess.run([sys.executable, os.path.join(d, "replay.py"), work], capture_output=True, text=True, timeout=300)
            finally:
                shutil.rmtree(work, ignore_errors=True)
            results.append((flags, p.stdout.strip().splitlines()[-1] if p.stdout.strip() else "ERR " + p.stderr[-200:], p.stdout))
            if "DIFFERENT" in results[-1][1]:
                return True, f"flags {flags}: warm run differs from cold run:\n{p.stdout[-600:]}"
        return False, "; ".join(f"{fl}: {r}" for fl, r, _ in results)

    return replay


def _has_flag(flag: str) -> bool:
    try:
        src = open("/repo/mypy/main.py").read()
    except OSError:
        return False
    return flag in src


def main(args: Any) -> int:
    rep = Report(PID, args.tier, "symbolic execution (symx/z3) of the real freshness-decision functions on duck-typed managers; stat results, clocks, hashes, flags symbolic; counterexamples replayed as warm-vs-cold runs of the real mypy command")
    only = set(args.only.split(",")) if args.only else None
    import mypy.build  # noqa: F401

    rep.bounds += [
        "K1: one validate_meta call; all ints/reals unbounded (mtimes real-valued, sizes >= 0), hashes opaque tokens, st_mode in {regular, directory, fifo}, every flag combination (bazel, skip_cache_mtime_checks, fine-grained cache, quickstart entry present/absent), stat/hash failures",
    ]
    rep.assumptions += [
        "environment contract: a content change changes the file size or its real-valued mtime (the code's documented assumption); time is otherwise free",
        "hash equality = content equality (cryptographic hash treated as injective)",
        "documented escapes: bazel mode, fine-grained cache load, quickstart file",
    ]
    rep.outside += ["that the contents of a trusted cache reproduce the cold diagnostics (serialisation is C11; semantic analysis is whole-program)"]
    if only is None or "K1" in only:
        k1_validate_meta(rep)
    if only is None or "K3" in only:
        try:
            from vf import c02_fresh
        except ImportError:
            c02_fresh = None  # type: ignore[assignment]
        if c02_fresh is not None:
            c02_fresh.run(rep, args.tier)
    return rep.finish()


if __name__ == "__main__":
    run_main(PID, main)
