"""C18: files and module names map to each other consistently (symbolic file system).

The real SourceFinder (path -> module) and FindModuleCache (module -> path) run against a stub
FileSystemCache over a finite universe of paths whose existence answers are symbolic booleans
(constrained only by file-system sanity: a path exists only inside an existing directory, a
name is not both a file and a directory).  The solver explores every layout the two
implementations can distinguish.

A  inverse: for a named source file F, crawl_up(F) = (module, base); find_module(module) over
   the derived root returns F, its sibling stub, or a documented shadow (stub beside the source,
   package preferred over module).
B  duplicates: two named files get the same module name only if they are a source/stub pair or
   a module/package pair in one directory (the case load_graph reports as a duplicate module).
C  directory form vs file-list form: find_sources_in_dir(root) assigns to every file it returns
   the (module, base) that naming the file individually assigns.
"""

from __future__ import annotations

import os
import shutil
import subprocess
import sys
from typing import Any

import z3

from vf import symx
from vf.report import Report, run_main, scratch
from vf.symx import Ctx, PathAbort, SymBool, Unsupported

PID = "C18"

ROOT = "/vtop/vroot"
NAMES = ["xa", "xb"]


def universe(depth: int) -> tuple[set[str], set[str]]:
    """(candidate file paths, candidate directory paths) below ROOT"""
    files: set[str] = set()
    dirs: set[str] = set()

    def rec(d: str, lvl: int) -> None:
        for n in NAMES:
            files.add(f"{d}/{n}.py")
            files.add(f"{d}/{n}.pyi")
            if lvl < depth:
                sub = f"{d}/{n}"
                dirs.add(sub)
                files.add(f"{sub}/__init__.py")
                files.add(f"{sub}/__init__.pyi")
                rec(sub, lvl + 1)

    rec(ROOT, 1)
    files.add(f"{ROOT}/__init__.py")
    files.add(f"{ROOT}/__init__.pyi")
    return files, dirs


class SymFS:
    """Stub FileSystemCache with symbolic, memoised, sanity-constrained existence answers."""

    def __init__(self, c: Ctx, files: set[str], dirs: set[str]):
        self.c = c
        self.files = files
        self.dirs = dirs
        self.memo: dict[tuple[str, str], bool] = {}
        self.package_root: list[str] = []
        self.root_init = False

    def _ask(self, kind: str, path: str) -> bool:
        key = (kind, path)
        if key not in self.memo:
            self.memo[key] = bool(self.c.bool(f"{kind}:{path[len(ROOT):]}"))
        return self.memo[key]

    def force(self, kind: str, path: str, val: bool) -> None:
        self.memo[(kind, path)] = val

    def isdir(self, path: str) -> bool:
        path = os.path.normpath(path)
        if path == ROOT or ROOT.startswith(path + "/") or path == "/":
            return True
        if path not in self.dirs:
            return False
        if not self.isdir(os.path.dirname(path)):
            return False
        return self._ask("dir", path)

    def isfile(self, path: str) -> bool:
        path = os.path.normpath(path)
        if path not in self.files:
            return False
        if os.path.dirname(path) == ROOT and os.path.basename(path).startswith("__init__") and not self.root_init:
            return False  # the root is a package only in the explicit-package-bases scenario
        if not self.isdir(os.path.dirname(path)):
            return False
        return self._ask("file", path)

    def isfile_case(self, path: str, prefix: str) -> bool:
        return self.isfile(path)

    def exists_case(self, path: str, prefix: str) -> bool:
        return self.isfile(path) or self.isdir(path)

    def exists(self, path: str) -> bool:
        return self.isfile(path) or self.isdir(path)

    def listdir(self, path: str) -> list[str]:
        path = os.path.normpath(path)
        if ROOT.startswith(path.rstrip("/") + "/") or path == "/":
            # ancestors of the root contain exactly the next path component
            rest = ROOT[len(path.rstrip("/")) + 1 :]
            return [rest.split("/")[0]]
        out = []
        for p in sorted(self.files | self.dirs):
            if os.path.dirname(p) == path and (self.isfile(p) or self.isdir(p)):
                out.append(os.path.basename(p))
        return out

    def init_under_package_root(self, path: str) -> bool:
        return False

    def read(self, path: str) -> bytes:
        return b""

    def stat_or_none(self, path: str) -> Any:
        return None

    def layout(self) -> dict[str, bool]:
        return {f"{k}:{p[len(ROOT):]}": v for (k, p), v in sorted(self.memo.items())}


def mod_of(finder: Any, path: str) -> str:
    try:
        return finder.crawl_up(path)[0]
    except Exception:
        return ""


_WORK: Any = None


def _call_work(F: str) -> Any:
    return _WORK(F)


def is_pair(f1: str, f2: str) -> bool:
    """source/stub siblings or module/package of the same name in one directory"""

    def ident(f: str) -> tuple[str, str]:
        d, n = os.path.split(f)
        stem = n.rsplit(".", 1)[0]
        if stem == "__init__":
            return os.path.dirname(d), os.path.basename(d)
        return d, stem

    return ident(f1) == ident(f2)


def run_layouts(rep: Report, tier: str) -> None:
    import mypy.build  # noqa: F401
    import mypy.find_sources as FS
    import mypy.modulefinder as MF
    from mypy.options import Options

    rep.kernel("mypy.find_sources", symx.source_hash(FS.__file__))
    rep.kernel("mypy.modulefinder", symx.source_hash(MF.__file__))
    depth = 2  # thorough keeps the depth-2 universe but names files at every depth of it (depth 3 does not finish: stated in DESIGN)
    files, dirs = universe(depth)
    cand = sorted(f for f in files if os.path.dirname(f) != ROOT or not os.path.basename(f).startswith("__init__"))
    if tier == "quick":
        cand = [f for f in cand if f[len(ROOT):].count("/") <= 2]
    found: dict[str, tuple] = {}
    state: dict = {"files": files, "dirs": dirs, "cand": cand, "small": False}
    stats = {"inverse_ok": 0, "shadowed": 0, "dups": 0, "dir_ok": 0}
    ctx = Ctx(max_paths=3_000_000, deadline_s=1500 if tier == "quick" else 3300)

    def body(c: Ctx) -> None:
        files, dirs, cand = state["files"], state["dirs"], state["cand"]
        fs = SymFS(c, files, dirs)
        ns = bool(c.bool("namespace_packages"))
        explicit = bool(c.bool("explicit_package_bases")) if ns else False
        o = Options()
        o.namespace_packages = ns
        o.explicit_package_bases = explicit
        o.mypy_path = [ROOT] if explicit else []
        fs.root_init = explicit
        F = state["F"] if state.get("F") else cand[c.choose("named_file", len(cand))]
        # the named file exists
        d = os.path.dirname(F)
        while d != ROOT:
            fs.force("dir", d, True)
            d = os.path.dirname(d)
        fs.force("file", F, True)
        cwd = os.getcwd()
        finder = FS.SourceFinder(fs, o)  # type: ignore[arg-type]
        if explicit:
            finder.explicit_package_bases = [ROOT]
        try:
            mod, base = finder.crawl_up(F)
        except FS.InvalidSourceList:
            c.check(True, "invalid package name rejected")
            return
        # --- A: inverse
        sp = MF.SearchPaths((base,), (ROOT,) if explicit else (), (), ())
        fmc = MF.FindModuleCache(sp, fs, o, stdlib_py_versions={"__never__": ((3, 0), None)})  # type: ignore[arg-type]
        r = fmc.find_module(mod)
        c.stats["assert_queries"] += 1
        good = isinstance(r, str) and (os.path.normpath(r) == F or is_pair(r, F))
        if good:
            c.stats["discharged"] += 1
            if os.path.normpath(r) == F:
                stats["inverse_ok"] += 1
            else:
                stats["shadowed"] += 1
        else:
            c.stats["refuted"] += 1
            key = f"inverse: crawl_up gives a module name that find_module resolves elsewhere (namespace_packages={ns}, explicit_package_bases={explicit})"
            found.setdefault(key, (F, mod, base, str(r), ns, explicit, fs.layout()))
            return
        # --- D: the file is not reachable under a second module name from the search roots
        # (that is what makes mypy stop with "Source file found twice under different module names")
        roots = [base] + ([ROOT] if explicit else [])
        for root in roots:
            if not (F.startswith(root + "/")):
                continue
            rel = F[len(root) + 1 :].rsplit(".", 1)[0].split("/")
            if rel[-1] == "__init__":
                rel = rel[:-1]
            alt = ".".join(rel)
            if not alt or alt == mod:
                continue
            r2 = fmc.find_module(alt)
            c.stats["assert_queries"] += 1
            if isinstance(r2, str) and os.path.normpath(r2) == F:
                c.stats["refuted"] += 1
                found.setdefault(f"a named file is assigned one module name but also resolves under another (namespace_packages={ns}, explicit_package_bases={explicit})", (F, mod, base, f"also importable as {alt}", ns, explicit, fs.layout()))
                return
            c.stats["discharged"] += 1
        # --- E: `-p PKG` (find_modules_recursive) lists the same files as crawling the package directory
        if state.get("pkg"):
            for top in ["xa"]:
                pdir = f"{ROOT}/{top}"
                r0 = fmc.find_module(top)
                if not (isinstance(r0, str) and os.path.dirname(os.path.normpath(r0)) == pdir):
                    continue  # `top` does not resolve to the package directory (shadowed / namespace)
                # stated bound of this obligation: regular packages only -- every existing directory
                # below the package has an __init__ file and no module file shares a directory's name
                regular = True
                for dd in sorted(state["dirs"]):
                    if dd.startswith(pdir) and fs.isdir(dd):
                        if not (fs.isfile(dd + "/__init__.py") or fs.isfile(dd + "/__init__.pyi")):
                            regular = False
                        if fs.isfile(dd + ".py") or fs.isfile(dd + ".pyi"):
                            regular = False
                if not regular:
                    continue
                if not fs.isdir(pdir):
                    continue
                try:
                    rec = fmc.find_modules_recursive(top)
                except Exception:
                    continue
                by_p = {os.path.normpath(x.path) for x in rec if x.path}
                try:
                    by_dir = {os.path.normpath(x.path) for x in finder.find_sources_in_dir(pdir)}
                except FS.InvalidSourceList:
                    continue
                # only meaningful when the directory is found as package `top` at all
                if not by_p:
                    continue
                # compare packages/modules below it, modulo stub-shadows-source
                def stem(pth: str) -> str:
                    return pth.rsplit(".", 1)[0]
                c.stats["assert_queries"] += 1
                if {stem(x) for x in by_p} == {stem(x) for x in by_dir if mod_of(finder, x).split(".")[0] == top}:
                    c.stats["discharged"] += 1
                else:
                    c.stats["refuted"] += 1
                    lay = fs.layout()
                    clash = any(k.startswith("dir:") and v and (lay.get("file:" + k[4:] + ".py") or lay.get("file:" + k[4:] + ".pyi")) for k, v in lay.items())
                    cls = "a module file and a same-named directory are both present" if clash else "no module/directory name clash"
                    found.setdefault(f"-p PKG and checking the package directory select different files ({cls}; namespace_packages={ns})", (F, top, base, f"-p: {sorted(by_p)} dir: {sorted(by_dir)}", ns, explicit, lay))
                    return
        # --- B: a second named file with the same module name must be a documented pair
        G = cand[c.choose("second_file", len(cand))]
        if G != F and fs.isfile(G):
            try:
                mod2, base2 = finder.crawl_up(G)
            except FS.InvalidSourceList:
                mod2 = None
            if mod2 == mod:
                c.stats["assert_queries"] += 1
                if is_pair(F, G):
                    c.stats["discharged"] += 1
                    stats["dups"] += 1
                else:
                    # same module name for two unrelated files: legitimate only when their
                    # roots differ (then mypy reports a duplicate module)
                    if base2 != base:
                        c.stats["discharged"] += 1
                        stats["dups"] += 1
                    else:
                        c.stats["refuted"] += 1
                        found.setdefault("two distinct files under one root get the same module name", (F, mod, base, G, ns, explicit, fs.layout()))
                        return
        # --- C: directory form agrees with naming the file individually (the listing touches the
        # whole universe, so it is explored only in the small universe)
        if not state["small"]:
            return
        srcs = finder.find_sources_in_dir(ROOT)
        for s in srcs:
            try:
                m3, b3 = finder.crawl_up(s.path)
            except FS.InvalidSourceList:
                continue
            c.stats["assert_queries"] += 1
            if (s.module, s.base_dir) == (m3 or "__main__", b3):
                c.stats["discharged"] += 1
                stats["dir_ok"] += 1
            else:
                c.stats["refuted"] += 1
                found.setdefault("directory form and file form disagree on (module, base)", (s.path, s.module, s.base_dir, f"{m3},{b3}", ns, explicit, fs.layout()))

    # partition the exploration by the named file over a process pool
    import multiprocessing as mp

    def work(F: str) -> tuple:
        state["F"] = F
        for k in stats:
            stats[k] = 0
        found.clear()
        cx = Ctx(max_paths=3_000_000, deadline_s=1500 if tier == "quick" else 3300)
        cx.explore(body)
        return cx.stats, cx.exhausted, dict(stats), dict(found)

    global _WORK
    _WORK = work
    with mp.get_context("fork").Pool(min(14, len(cand))) as pool:
        results = pool.map(_call_work, cand)
    state["F"] = None
    ctx.exhausted = True
    for st, exh, sts, fnd in results:
        for k, v in st.items():
            if isinstance(v, (int, float)):
                ctx.stats[k] += v
        ctx.exhausted = ctx.exhausted and exh
        for k, v in sts.items():
            stats[k] += v
        for k, v in fnd.items():
            found.setdefault(k, v)
    rep.add_ctx("symbolic file system: crawl_up vs find_module", ctx, depth=depth, universe_files=len(state["files"]), named_candidates=len(state["cand"]), partitions=len(cand), **stats)
    # second exploration: depth-1 universe, one name below the top level, including the directory form
    f1, d1 = universe(1)
    state.update(files=f1, dirs=d1, cand=sorted(f for f in f1 if os.path.dirname(f) != ROOT or not os.path.basename(f).startswith("__init__")), small=True)
    ctx2 = Ctx(max_paths=3_000_000, deadline_s=900)
    ctx2.explore(body)
    rep.add_ctx("symbolic file system (small universe) incl. directory form", ctx2, universe_files=len(f1), **stats)
    # third exploration: one package with a sub-package, for the `-p PKG` form
    fp = {f"{ROOT}/xa/__init__.py", f"{ROOT}/xa/__init__.pyi", f"{ROOT}/xa/xb.py", f"{ROOT}/xa/xb.pyi", f"{ROOT}/xa/xb/__init__.py", f"{ROOT}/xa/xb/__init__.pyi", f"{ROOT}/xa/xb/xa.py", f"{ROOT}/xa/xb/xa.pyi"}
    dp = {f"{ROOT}/xa", f"{ROOT}/xa/xb"}
    state.update(files=fp, dirs=dp, cand=sorted(fp), small=False, pkg=True)
    ctx3 = Ctx(max_paths=3_000_000, deadline_s=900)
    ctx3.explore(body)
    rep.add_ctx("symbolic file system (package universe) incl. -p form", ctx3, universe_files=len(fp), **stats)
    rep.twin("inverse reached with exact and shadowed resolutions", stats["inverse_ok"] > 0 and stats["shadowed"] > 0)
    rep.sample({"universe": sorted(files)[:10], "stats": stats})
    for key, val in found.items():
        F, mod, base, r, ns, explicit, layout = val
        rep.sample({"class": key, "file": F, "module": mod, "base": base, "other": r, "layout": layout})
        rep.candidate(key, f"file {F} -> module {mod!r} (root {base}); resolves to {r}; layout {layout}", {"file": F, "layout": layout, "ns": ns, "explicit": explicit}, replay_layout(F, layout, ns, explicit, mod, key))


def replay_layout(F: str, layout: dict, ns: bool, explicit: bool, mod: str, key_text: str = ""):
    def replay(d: str) -> tuple[bool, str]:
        work = scratch("c18-")
        try:
            root = os.path.join(work, "vroot")
            os.makedirs(root)
            for k, v in layout.items():
                kind, rel = k.split(":", 1)
                if v and kind == "dir":
                    os.makedirs(root + rel, exist_ok=True)
            for k, v in layout.items():
                kind, rel = k.split(":", 1)
                if v and kind == "file" and os.path.isdir(os.path.dirname(root + rel)):
                    with open(root + rel, "w") as f:
                        f.write(f"MARK = {rel!r}\n")
            relF = F[len(ROOT) + 1 :]
            # a probe module that imports the module name mypy assigned and reveals which file it got
            relmod = ".".join(x for x in relF.rsplit(".", 1)[0].split("/") if x != "__init__")
            names_ = [n_ for n_ in dict.fromkeys([mod, relmod, relmod.split(".", 1)[-1]]) if n_]
            probe = "".join(f"import {n_}\nreveal_type({n_}.MARK)\n" for n_ in names_ if n_ == mod or explicit)
            pflag = ["-p", relmod.split(".")[0]] if "select different files" in key_text else []
            with open(os.path.join(root, "zz_probe.py"), "w") as f:
                f.write(probe)
            flags = ["--namespace-packages" if ns else "--no-namespace-packages"] + (["--explicit-package-bases"] if explicit else [])
            env = dict(os.environ)
            env.pop("PYTHONPATH", None)
            if explicit:
                env["MYPYPATH"] = root
            base_cmd = [sys.executable, "-m", "mypy", "--no-incremental", "--cache-dir=" + os.devnull, "--no-error-summary"] + flags
            if pflag:
                # the property's consequence: -p PKG and the package directory report the same diagnostics
                for k, v in layout.items():
                    kind, rel = k.split(":", 1)
                    if v and kind == "file" and os.path.exists(root + rel):
                        with open(root + rel, "w") as f:
                            f.write(f'BAD: int = "{rel}"\n')
                p1 = subprocess.run(base_cmd + pflag, cwd=root, capture_output=True, text=True, env=env, timeout=300)
                p2 = subprocess.run(base_cmd + [pflag[1]], cwd=root, capture_output=True, text=True, env=env, timeout=300)
                o1 = sorted(l for l in p1.stdout.splitlines() if "error" in l)
                o2 = sorted(l for l in p2.stdout.splitlines() if "error" in l)
                return o1 != o2, f"mypy {' '.join(pflag)} reports {o1}; mypy {pflag[1]}/ reports {o2}"
            p = subprocess.run(base_cmd + [relF, "zz_probe.py"], cwd=root, capture_output=True, text=True, env=env, timeout=300)
            out = p.stdout + p.stderr
        finally:
            shutil.rmtree(work, ignore_errors=True)
        with open(os.path.join(d, "replay.txt"), "w") as f:
            f.write(f"layout under vroot/: {layout}\ncommand (cwd vroot): mypy {' '.join(flags)} {relF} zz_probe.py\n")
        bad = "Cannot find" in out or "has no attribute" in out or "error:" in out or "found twice" in out
        return bad, out[-600:]

    return replay


def check_f_abspath(rep: Report) -> None:
    """F: the key of load_graph's "source file found twice" detection.  The block of State.__init__
    that computes self.abspath is cut out of the source (AST) and run on solver-chosen spellings of a
    command-line path (components ".", "..", directory names); the module finder reports the same
    file by its normalised absolute path, so the two must be equal strings."""
    import ast
    import inspect

    import mypy.build as B

    src = inspect.getsource(B.State.__init__)
    tree = ast.parse("class _X:\n" + "\n".join("    " + l if l.strip() else l for l in __import__("textwrap").dedent(src).splitlines()))
    block = None
    for node in ast.walk(tree):
        if isinstance(node, ast.If) and isinstance(node.test, ast.Name) and node.test.id == "path" and "abspath" in ast.unparse(node):
            block = node
            break
    if block is None:
        rep.error("F: the abspath block of State.__init__ was not found")
        return
    code = compile(ast.Module(body=[block], type_ignores=[]), "<State.__init__ abspath block>", "exec")
    rep.kernel("mypy.build.State.__init__[abspath block]", symx.hashlib.sha256(ast.unparse(block).encode()).hexdigest()[:16])
    CWD = "/w/proj/cwd"
    COMPS = [".", "..", "pkg", "cwd", "proj"]
    ctx = Ctx()
    found: dict = {}
    n = {"p": 0, "dotted": 0}

    def canonical(parts: list) -> str:
        st = [x for x in CWD.split("/") if x]
        for x in parts:
            if x == ".":
                continue
            if x == "..":
                if st:
                    st.pop()
            else:
                st.append(x)
        return "/" + "/".join(st)

    def body(c: Ctx) -> None:
        k = c.choose("n_components", 4)
        parts = [COMPS[c.choose(f"component{i}", len(COMPS))] for i in range(k)] + ["mod.py"]
        path = "/".join(parts)

        class Mgr:
            cwd = CWD

        class Self:
            abspath = None

        o = Self()
        ns = dict(B.__dict__)
        ns.update(self=o, path=path, manager=Mgr)
        exec(code, ns)
        n["p"] += 1
        n["dotted"] += 1 if ("." in parts or ".." in parts) else 0
        want = canonical(parts)
        c.stats["assert_queries"] += 1
        if o.abspath == want:
            c.stats["discharged"] += 1
        else:
            c.stats["refuted"] += 1
            kind = "'..'" if ".." in parts else ("'.'" if "." in parts else "plain")
            found.setdefault(f"State.abspath is not the normalised absolute path for a relative path with {kind} components (key of the found-twice detection)", (path, o.abspath, want))

    ctx.explore(body)
    rep.add_ctx("F State.abspath is the canonical key of the found-twice detection", ctx, spellings=n["p"], with_dot_components=n["dotted"])
    rep.twin("F: spellings with dot components reached", n["dotted"] > 0)
    for key, (path, got, want) in found.items():
        rep.sample({"check": "F", "class": key, "path": path, "abspath": got, "expected": want})

        def replay(d: str, path: str = path) -> tuple[bool, str]:
            # real mypy: a file reachable under two module names must stop with the found-twice error
            # however the command-line path is spelled
            root = os.path.join(d, "w", "proj", "cwd")
            os.makedirs(os.path.join(root, "pkg"), exist_ok=True)
            os.makedirs(os.path.join(d, "w", "proj", "pkg"), exist_ok=True)
            parts = path.split("/")
            # materialise: the target directory of the spelling gets __init__.py + mod.py + user.py (imports mod as top-level)
            st = ["w", "proj", "cwd"]
            for x in parts[:-1]:
                if x == ".":
                    continue
                if x == "..":
                    st.pop()
                else:
                    st.append(x)
            tdir = os.path.join(d, *st)
            os.makedirs(tdir, exist_ok=True)
            open(os.path.join(tdir, "__init__.py"), "w").close()
            with open(os.path.join(tdir, "mod.py"), "w") as f:
                f.write("x: int = 1\n")
            with open(os.path.join(tdir, "user.py"), "w") as f:
                f.write("import mod\n")
            env = dict(os.environ)
            env.pop("PYTHONPATH", None)
            env["MYPYPATH"] = tdir
            rel_dir = "/".join(parts[:-1]) or "."
            outs = []
            for spelled in (path, os.path.join(tdir, "mod.py")):
                p = subprocess.run([sys.executable, "-m", "mypy", "--no-incremental", "--no-error-summary", spelled, rel_dir + "/user.py"], cwd=root, env=env, capture_output=True, text=True, timeout=300)
                outs.append((p.returncode, "found twice" in (p.stdout + p.stderr)))
            return outs[0] != outs[1], f"mypy {path} ...: {outs[0]}; with the absolute spelling: {outs[1]} (status, found-twice reported)"

        rep.candidate(key, f"path {path!r}: abspath {got!r}, expected {want!r}", {"path": path}, replay)


def main(args: Any) -> int:
    rep = Report(PID, args.tier, "symbolic execution of the real SourceFinder and FindModuleCache against a symbolic file system (existence answers are z3 booleans under sanity constraints); the solver explores every layout the implementations distinguish; replay on a materialised directory tree")
    rep.bounds += [
        "names {xa, xb}; files name.py / name.pyi / __init__.py[i]; directory depth 2 below the root; one or two named files; namespace_packages and explicit_package_bases symbolic",
    ]
    rep.assumptions += [
        "file-system sanity: a path exists only inside existing directories; case-insensitive file systems, symlinks, -stubs packages and site-packages are outside",
        "documented shadowing is allowed: a stub beside a source, a package preferred over a module of the same name",
        "search roots = the base directory crawl_up derived (plus MYPYPATH=root under explicit package bases)",
    ]
    rep.outside += ["-p/-m forms and diagnostics equality of the three invocation forms (whole runs)", "typeshed / installed packages / PEP 561"]
    only = set(args.only.split(",")) if getattr(args, "only", None) else None
    if only is None or "layouts" in only:
        run_layouts(rep, args.tier)
    if only is None or "F" in only:
        check_f_abspath(rep)
        rep.bounds.append("F: relative command-line paths of <= 3 components from {., .., pkg, cwd, proj} + mod.py below the working directory /w/proj/cwd")
    return rep.finish()


if __name__ == "__main__":
    run_main(PID, main)
