"""C20 (narrow): totality and bounded cost of the constant-folding kernels.

For every operator x operand-kind combination the real folding functions are executed
on symbolic operands.  A1 (totality): no Python exception can escape for any operand
value.  A2 (bounded cost): every big-int / sequence-repeat operation the kernel
performs has a result size the path condition bounds by COST_LIMIT.
Counterexamples are replayed with the real `mypy` command on a one-line file.
"""

from __future__ import annotations

import os
import shutil
import subprocess
import sys
import textwrap
from typing import Any

import z3

from vf import foldharness as fh
from vf import symx
from vf.report import Report, run_main, scratch
from vf.symx import Ctx, PathAbort, Unsupported

PID = "C20"


def explore_binary(rep: Report, fn: Any, fname: str, op: str, lk: str, rk: str, found: list) -> Ctx:
    ctx = Ctx()

    def body(c: Ctx) -> None:
        l = fh.mk(c, "l", lk)
        r = fh.mk(c, "r", rk)
        c.cost_events = []  # type: ignore[attr-defined]
        try:
            fn(op, l, r)
        except (PathAbort, Unsupported):
            raise
        except Exception as e:  # an exception escaping the folding function
            c.stats["assert_queries"] += 1
            c.stats["refuted"] += 1
            found.append(("raise", fname, op, lk, rk, type(e).__name__, c.path_model()))
            return
        c.stats["assert_queries"] += 1
        c.stats["discharged"] += 1
        nv = c.stats["nonvacuous"]
        nv["total"] = nv.get("total", 0) + 1
        for ev in c.cost_events:  # type: ignore[attr-defined]
            if ev.op == "str+" and "bytes" in (lk, rk):
                continue  # bytes values cannot be named through Final, so bytes + is linear in the text
            # prefer a witness whose int operands are small (the bit_length axioms are then
            # exact enough for the model to be a real witness); fall back to any model
            small = [z3.And(v < 2**62, v > -(2**62)) for n_, v in c.vars.items() if z3.is_int(v) and n_ in ("l", "r")]
            small += [v <= 64 for n_, v in c.vars.items() if n_ in ("l_len", "r_len")]
            hit, model = c.feasible(z3.And(ev.cost > fh.COST_LIMIT, *small))
            if hit:
                c.stats["assert_queries"] += 1
                c.stats["refuted"] += 1
                found.append(("cost", fname, op, lk, rk, ev.op, model))
                continue
            ok = c.check(ev.cost <= fh.COST_LIMIT, f"cost:{ev.op}")
            if not ok and c.cex and c.cex[-1].label == f"cost:{ev.op}":
                found.append(("cost", fname, op, lk, rk, ev.op, c.cex[-1].model))

    ctx.explore(body)
    return ctx


def explore_unary(rep: Report, fn: Any, op: str, k: str, found: list) -> Ctx:
    ctx = Ctx()

    def body(c: Ctx) -> None:
        v = fh.mk(c, "l", k)
        c.cost_events = []  # type: ignore[attr-defined]
        try:
            fn(op, v)
        except (PathAbort, Unsupported):
            raise
        except Exception as e:
            c.stats["assert_queries"] += 1
            c.stats["refuted"] += 1
            found.append(("raise", "constant_fold_unary_op", op, k, "-", type(e).__name__, c.path_model()))
            return
        c.stats["assert_queries"] += 1
        c.stats["discharged"] += 1

    ctx.explore(body)
    return ctx


def make_program(op: str, lk: str, rk: str, model: dict[str, Any], kind: str = "raise", costop: str = "") -> str:
    pre: list[str] = []
    if rk == "-":
        e = f"{op} {fh.render(lk, 'l', model, pre)}"
        return "from typing import Final\n" + "\n".join(pre) + f"\nX: Final = {e}\n"
    lines = ["from typing import Final"]
    l = fh.render(lk, "l", model, pre)
    r = fh.render(rk, "r", model, pre)
    lines += pre
    lines += [f"L: Final = {l}", f"R: Final = {r}", f"A0: Final = L {op} R"]
    if kind == "cost":
        # amplify: feed the result back into the same operation through Final names
        for i in range(fh.CHAIN):
            if costop in ("int*", "str+"):
                lines.append(f"A{i + 1}: Final = A{i} {op} A{i}")
            elif costop in ("<<", "**") or lk in ("str", "bytes"):
                lines.append(f"A{i + 1}: Final = A{i} {op} R")
            else:
                lines.append(f"A{i + 1}: Final = L {op} A{i}")
    return "\n".join(lines) + "\n"


MYPYC_DRIVER = """
import os, sys
os.makedirs('tmp', exist_ok=True)
import shutil
shutil.copy(os.path.join({repo!r}, 'mypyc/test-data/fixtures/ir.py'), 'tmp/builtins.pyi')
from mypyc.options import CompilerOptions
from mypyc.test.testutil import build_ir_for_single_file2
src = open('prog.py').read()
build_ir_for_single_file2(src.splitlines(), CompilerOptions(capi_version=(3, 9)))
print('IRBUILD-OK')
"""


def replay_factory(kind: str, fname: str, op: str, lk: str, rk: str, what: str, model: dict[str, Any], costop: str = ""):
    def replay(d: str) -> tuple[bool, str]:
        src = make_program(op, lk, rk, model, kind, costop)
        with open(os.path.join(d, "prog.py"), "w") as f:
            f.write(src)
        work = scratch("c20-")
        try:
            if fname.endswith("_extended"):
                # mypyc-only kernel: run the real IR builder on the program
                with open(os.path.join(work, "prog.py"), "w") as f:
                    f.write(src + "def f() -> object:\n    return " + ("A%d" % fh.CHAIN if kind == "cost" else "A0") + "\n")
                with open(os.path.join(work, "drv.py"), "w") as f:
                    f.write(MYPYC_DRIVER.format(repo=os.environ.get("VERIF_REPO", "/repo")))
                shutil.copy(os.path.join(work, "drv.py"), os.path.join(d, "drv.py"))
                cmd = f"ulimit -v {6 * 1024 * 1024}; exec {sys.executable} drv.py"
                try:
                    p = subprocess.run(["bash", "-c", cmd], cwd=work, capture_output=True, text=True, timeout=60)
                    status = "ok" if "IRBUILD-OK" in p.stdout else "internal-error"
                    tail = (p.stderr or "")[-400:]
                except subprocess.TimeoutExpired:
                    status, tail = "timeout", ""
            else:
                status, rc, out, err = fh.run_mypy_on(src, work, timeout=60)
                tail = (err or out)[-400:]
        finally:
            shutil.rmtree(work, ignore_errors=True)
        with open(os.path.join(d, "replay.sh"), "w") as f:
            f.write("#!/bin/bash\n# mypy must answer with diagnostics, not an internal error / hang\ncd \"$(dirname \"$0\")\"\n")
            if fname.endswith("_extended"):
                f.write("timeout 60 /verif/.venv/bin/python drv.py\n")
            else:
                f.write("timeout 60 /verif/.venv/bin/python -m mypy --no-incremental --cache-dir=/dev/null prog.py\n")
        return status != "ok", f"{status}: {src.splitlines()[-1][:200]} :: {tail}"

    return replay


def main(args: Any) -> int:
    rep = Report(PID, args.tier, "symbolic execution (symx/z3) of the real folding functions per operator x operand kind; totality + cost obligations")
    k1, k2 = fh.load_kernels()
    rep.kernels_from(k1)
    rep.kernels_from(k2)
    rep.bounds += [
        "operand values: int unbounded (z3 Int), float = all Float64 incl. inf/nan, bool; str/bytes/complex operands fixed representatives ('ab', b'ab', 1j) - only their kind matters to the kernels",
        f"cost limit {fh.COST_LIMIT} result bits/items per folding step",
        "one folding step (binary or unary) from arbitrary already-folded operands; nesting is covered because operands range over every value a nested fold can produce",
    ]
    rep.assumptions += [
        "pysem table in vf/symx.py gives the raise-conditions of CPython's int/float operators (validated on boundary operands at start-up)",
        "float // % ** values are uninterpreted; only their raise-conditions are modelled",
    ]
    rep.outside += ["crashes caused by program structure (needs program generation)", "daemon mode", "all of mypy outside the folding kernels"]
    validate_pysem(rep)

    found: list = []
    kinds = fh.KINDS
    n = 0
    for fname, fn in (
        ("constant_fold_binary_op", k1["constant_fold_binary_op"]),
        ("constant_fold_binary_op_extended", k2["constant_fold_binary_op_extended"]),
    ):
        tot = Ctx()
        tot.exhausted = True
        for op in fh.BIN_OPS:
            for lk in kinds:
                for rk in kinds:
                    if fname == "constant_fold_binary_op" and "bytes" in (lk, rk):
                        continue  # mypy's folder never sees bytes values (ConstantValue excludes them)
                    if fname.endswith("_extended") and "bool" in (lk, rk):
                        continue  # bool operands are covered through the mypy entry point
                    ctx = explore_binary(rep, fn, fname, op, lk, rk, found)
                    for k, v in ctx.stats.items():
                        if isinstance(v, (int, float)):
                            tot.stats[k] += v
                    tot.exhausted = tot.exhausted and ctx.exhausted
                    n += 1
        rep.add_ctx(fname, tot, combos=n)
    tot = Ctx()
    tot.exhausted = True
    for op in fh.UN_OPS:
        for k in kinds:
            if k == "bytes":
                continue
            ctx = explore_unary(rep, k1["constant_fold_unary_op"], op, k, found)
            for kk, v in ctx.stats.items():
                if isinstance(v, (int, float)):
                    tot.stats[kk] += v
            tot.exhausted = tot.exhausted and ctx.exhausted
    rep.add_ctx("constant_fold_unary_op", tot)
    rep.twin("folding kernels reached a return on some path", rep.discharged > 0)

    for kind, fname, op, lk, rk, detail, model in found:
        if kind == "raise":
            key = f"{fname} {lk} {op} {rk}: {detail} escapes"
            what = f"exception {detail} escapes the folder for operands {model}"
        else:
            key = f"{fname} {lk} {op} {rk}: unbounded {detail} cost"
            what = f"folding step of unbounded size for operands {model}"
        rep.sample({"kind": kind, "fn": fname, "op": op, "kinds": [lk, rk], "model": model})
        rep.candidate(key, what, model, replay_factory(kind, fname, op, lk, rk, what, model, detail))
    if not found:
        rep.sample({"note": "all paths total and cost-bounded", "example_combo": ["int", "**", "int"]})
    if not getattr(args, "only", None) or "K2" in args.only:
        from vf import c20_deferral

        c20_deferral.run(rep, args.tier)
    if not getattr(args, "only", None) or "K3" in args.only:
        from vf import c20_daemon_loop

        c20_daemon_loop.run(rep, args.tier)
    if not getattr(args, "only", None) or "K4" in args.only:
        from vf import c20_recursion

        c20_recursion.run(rep, args.tier)
    if not getattr(args, "only", None) or "K5" in args.only:
        from vf import c20_transform

        c20_transform.run(rep, args.tier)
    if not getattr(args, "only", None) or "K6" in args.only:
        from vf import c20_jumps

        c20_jumps.run(rep, args.tier)
    return rep.finish()


def validate_pysem(rep: Report) -> None:
    """Serval-style validation of the semantics table against CPython on boundary values."""
    vals = [0, 1, -1, 2, -2, 3, -3, 7, -7, 2**31, -(2**31), 2**62, -(2**62), 2**63 - 1, -(2**63), 10**30, -(10**30)]
    bad = 0
    n = 0
    for a in vals:
        for b in vals:
            if b == 0:
                continue
            q = z3.simplify(symx.py_floordiv(z3.IntVal(a), z3.IntVal(b))).as_long()
            m = z3.simplify(symx.py_mod(z3.IntVal(a), z3.IntVal(b))).as_long()
            n += 2
            if q != a // b or m != a % b:
                bad += 1
    # int -> float overflow threshold
    for i, exp in ((symx.FLOAT_MAX_INT_EXCL - 1, False), (symx.FLOAT_MAX_INT_EXCL, True), (-symx.FLOAT_MAX_INT_EXCL, True)):
        try:
            float(i)
            got = False
        except OverflowError:
            got = True
        n += 1
        bad += got != exp
    for a, b, exp in ((symx.FLOAT_MAX_INT_EXCL * 3 - 1, 3, False), (symx.FLOAT_MAX_INT_EXCL * 3, 3, True), (10**400, 10**399, False)):
        try:
            a / b
            got = False
        except OverflowError:
            got = True
        n += 1
        bad += got != exp
    rep.extra["pysem_validation"] = {"cases": n, "mismatches": bad}
    if bad:
        rep.error(f"pysem table disagrees with CPython on {bad} boundary cases")


if __name__ == "__main__":
    run_main(PID, main)
