"""C16: the daemon survives client faults; the channel delivers intact frames.

K1 framing: the real IPCBase.frame_from_buffer / read_bytes / write_bytes executed on bounded
   symbolic byte strings (contents, lengths, chunk sizes, EOF position symbolic):
   (a) inductive step: from ANY state satisfying the representation invariant, one
       frame_from_buffer call returns exactly the first complete frame of the unconsumed
       stream (or None and leaves the state alone) and re-establishes the invariant;
       extend() preserves it -- this covers every chunking and any number of frames;
   (b) write_bytes -> frame_from_buffer round trip for every payload within the bound;
   (c) read_bytes with <= 3 recv() results of arbitrary sizes followed by EOF.
K2 serve loop: the real Server.serve body with a scripted stub IPCServer; the fault kind of
   each of <= 3 clients is chosen by the solver; after every fault the loop must accept and
   answer the next client; the status file must be gone after any non-stop exit.
"""

from __future__ import annotations

import json
import os
import shutil
import signal
import socket
import struct
import subprocess
import sys
import time
from typing import Any

import z3

from vf import bstr as B
from vf import symx
from vf.bstr import BStr
from vf.report import Report, run_main, scratch
from vf.symx import Ctx, Kernel, PathAbort, SymBool, SymInt, Unsupported

PID = "C16"


# ---------------------------------------------------------------------------------------
# symbolic byte buffer supporting exactly what the kernel does with bytearray/memoryview


def substr(s: BStr, a: Any, b: Any) -> BStr:
    """s[a:b] for 0 <= a, symbolic ints (b may be None = to the end); clamped like Python."""
    az = symx.to_z3int(a) if a is not None else z3.IntVal(0)
    bz = symx.to_z3int(b) if b is not None else s.n
    az = z3.If(az > s.n, s.n, az)
    bz = z3.If(bz > s.n, s.n, bz)
    n = z3.If(bz > az, bz - az, z3.IntVal(0))
    ac = z3.simplify(az)
    if z3.is_int_value(ac):
        k = ac.as_long()
        return BStr(list(s.chars[k:]) or [], z3.simplify(n))
    chars = [s.at(az + i) for i in range(s.cap)]
    return BStr(chars, n)


class SymBuf:
    """Mutable buffer (bytearray/bytes/memoryview stand-in) over a BStr."""

    def __init__(self, s: BStr):
        self.s = s

    def __symlen__(self) -> SymInt:
        return SymInt(self.s.n)

    def __getitem__(self, i: Any) -> "SymBuf":
        if not isinstance(i, slice) or i.step is not None:
            raise Unsupported("SymBuf index")
        for bnd in (i.start, i.stop):
            if bnd is not None and not isinstance(bnd, (int, SymInt)):
                raise Unsupported("SymBuf slice bound")
        return SymBuf(substr(self.s, i.start, i.stop))

    def __delitem__(self, i: Any) -> None:
        # `del buf[a:b]`: the buffer becomes buf[:a] + buf[b:]
        if not isinstance(i, slice) or i.step is not None:
            raise Unsupported("SymBuf deletion index")
        head = substr(self.s, None, i.start) if i.start is not None else BStr.const(b"")
        tail = substr(self.s, i.stop, None) if i.stop is not None else BStr.const(b"")
        self.s = B.bconcat(head, tail)

    def __setitem__(self, i: Any, v: Any) -> None:
        if not isinstance(i, slice) or i.step is not None:
            raise Unsupported("SymBuf assignment index")
        m = v.s if isinstance(v, SymBuf) else BStr.lift(v)
        head = substr(self.s, None, i.start) if i.start is not None else BStr.const(b"")
        tail = substr(self.s, i.stop, None) if i.stop is not None else BStr.const(b"")
        self.s = B.bconcat(B.bconcat(head, m), tail)

    def extend(self, more: Any) -> None:
        m = more.s if isinstance(more, SymBuf) else BStr.lift(more)
        self.s = B.bconcat(self.s, m)

    def __add__(self, o: Any) -> "SymBuf":
        m = o.s if isinstance(o, SymBuf) else BStr.lift(o)
        return SymBuf(B.bconcat(self.s, m))

    def __bool__(self) -> bool:
        return bool(SymBool(self.s.n > 0))

    def __symisinstance__(self, types: tuple) -> bool:
        return bytes in types or bytearray in types or object in types


def header_value(s: BStr) -> Any:
    """big-endian unsigned 32-bit value of the first four bytes"""
    return sum(z3.BV2Int(s.chars[k], False) * (256 ** (3 - k)) for k in range(4))


class StructStub:
    @staticmethod
    def unpack(fmt: str, buf: Any) -> tuple:
        if fmt != "!L":
            raise Unsupported("struct.unpack format " + fmt)
        s = buf.s if isinstance(buf, SymBuf) else buf
        return (SymInt(header_value(s)),)

    @staticmethod
    def pack(fmt: str, v: Any) -> Any:
        if fmt != "!L":
            raise Unsupported("struct.pack format " + fmt)
        vz = symx.to_z3int(v)
        # struct.error for values outside 0..2**32-1
        if bool(SymBool(z3.Or(vz < 0, vz >= 2**32))):
            raise struct.error("argument out of range")
        chars = [z3.Int2BV((vz / (256 ** (3 - k))) % 256, 8) for k in range(4)]
        return SymBuf(BStr(chars, 4))


KERNEL_GLOBALS = {"struct": StructStub, "memoryview": lambda x: x, "bytes": lambda x: x, "bytearray": lambda *a: SymBuf(BStr.const(bytes(*a)))}


class _Sys:
    platform = "linux"


def load_ipc() -> Kernel:
    g = dict(KERNEL_GLOBALS)
    g["sys"] = _Sys
    return Kernel("mypy.ipc", ["IPCBase.frame_from_buffer", "IPCBase.read_bytes", "IPCBase.write_bytes"], extra_globals=g, closure=False)


class _Conn:
    """stub socket: recv() hands out scripted chunks, sendall() records"""

    def __init__(self, chunks: list):
        self.chunks = list(chunks)
        self.sent: list = []

    def recv(self, size: Any) -> Any:
        if self.chunks:
            return self.chunks.pop(0)
        return SymBuf(BStr.const(b""))

    def sendall(self, data: Any) -> None:
        self.sent.append(data)


class _IPC:
    def __init__(self, K: Kernel, buf: SymBuf, message_size: Any, chunks: list):
        self.K = K
        self.buffer = buf
        self.message_size = message_size
        self.connection = _Conn(chunks)

    def frame_from_buffer(self) -> Any:
        return self.K["IPCBase.frame_from_buffer"](self)


def k1_framing(rep: Report, tier: str) -> None:
    K = load_ipc()
    rep.kernels_from(K)
    cap = 9 if tier == "quick" else 12
    cex: dict[str, tuple] = {}

    # ---- (a) inductive step --------------------------------------------------------
    ctx = Ctx(timeout_ms=60000)
    step = {"frame": 0, "none": 0}

    def body_a(c: Ctx) -> None:
        s0 = B.bstr(c, "buf", cap, lo=0, hi=255)
        have_size = bool(c.bool("message_size_known"))
        if have_size:
            # representation invariant: a cached size is the header of the buffered bytes
            c.assume(SymBool(s0.n >= 4))
            ms: Any = SymInt(header_value(s0))
        else:
            ms = None
        ipc = _IPC(K, SymBuf(s0), ms, [])
        r = ipc.frame_from_buffer()
        h = header_value(s0)
        complete = z3.And(s0.n >= 4, s0.n >= 4 + h)
        if r is None:
            step["none"] += 1
            c.check(z3.Not(complete), "returns None only if no complete frame is buffered")
            c.check(ipc.buffer.s.eq_term(s0), "no frame: buffer untouched")
            if ipc.message_size is not None:
                c.check(z3.And(s0.n >= 4, symx.to_z3int(ipc.message_size) == h), "invariant: cached size = header of buffered bytes")
        else:
            step["frame"] += 1
            c.check(complete, "returns a frame only if one is complete")
            want = substr(s0, 4, SymInt(4 + h))
            rest = substr(s0, SymInt(4 + h), None)
            c.check(r.s.eq_term(want), "frame = payload of the first frame")
            c.check(ipc.buffer.s.eq_term(rest), "buffer = bytes after the first frame")
            c.check(ipc.message_size is None, "cached size cleared")

    ctx.explore(body_a)
    rep.add_ctx("K1a frame_from_buffer inductive step", ctx, cap=cap, outcomes=dict(step))
    rep.twin("K1a: both outcomes (frame / None) reached", step["frame"] > 0 and step["none"] > 0)
    for x in ctx.cex:
        cex.setdefault("frame_from_buffer step: " + x.label, (x.model, "a"))

    # ---- (b) write -> read round trip -------------------------------------------------
    ctx = Ctx(timeout_ms=60000)
    rt = {"n": 0}

    def body_b(c: Ctx) -> None:
        data = B.bstr(c, "payload", cap - 4, lo=0, hi=255)
        ipc = _IPC(K, SymBuf(BStr.const(b"")), None, [])
        K["IPCBase.write_bytes"](ipc, SymBuf(data))
        if len(ipc.connection.sent) != 1:
            c.check(False, "write_bytes sends exactly one blob")
            return
        wire = ipc.connection.sent[0]
        c.check(wire.s.n == data.n + 4, "wire length = payload + header")
        rd = _IPC(K, SymBuf(wire.s), None, [])
        r = rd.frame_from_buffer()
        rt["n"] += 1
        if r is None:
            c.check(False, "a written frame is decodable")
        else:
            c.check(r.s.eq_term(data), "decode(encode(payload)) == payload")
            c.check(rd.buffer.s.n == 0, "reader consumed exactly the written bytes")

    ctx.explore(body_b)
    rep.add_ctx("K1b write_bytes/frame_from_buffer round trip", ctx, max_payload=cap - 4)
    rep.twin("K1b: round trip reached", rt["n"] > 0)
    for x in ctx.cex:
        cex.setdefault("framing round trip: " + x.label, (x.model, "b"))

    # ---- (c) read_bytes over <= 3 chunks then EOF ----------------------------------------
    ctx = Ctx(timeout_ms=60000, max_paths=400000)
    nchunks = 2 if tier == "quick" else 3
    ccap = 5 if tier == "quick" else 4
    rc = {"frame": 0, "eof": 0}

    def body_c(c: Ctx) -> None:
        chunks = [B.bstr(c, f"chunk{i}", ccap, lo=0, hi=255, minlen=1) for i in range(nchunks)]
        stream = BStr.const(b"")
        for ch in chunks:
            stream = B.bconcat(stream, ch)
        # payloads are non-empty (an empty frame is indistinguishable from EOF by design)
        h = header_value(stream)
        c.assume(SymBool(z3.Or(stream.n < 4, h >= 1)))
        ipc = _IPC(K, SymBuf(BStr.const(b"")), None, [SymBuf(ch) for ch in chunks])
        r = K["IPCBase.read_bytes"](ipc)
        complete = z3.And(stream.n >= 4, stream.n >= 4 + h)
        if isinstance(r, bytes):
            rc["eof"] += 1
            c.check(r == b"", "EOF result is b''")
            c.check(z3.Not(complete), "b'' only if the stream ended before a complete frame")
        else:
            rc["frame"] += 1
            got = r.s
            # the first complete frame of what has been received so far
            consumed = nchunks - len(ipc.connection.chunks)
            sofar = BStr.const(b"")
            for ch in chunks[:consumed]:
                sofar = B.bconcat(sofar, ch)
            hh = header_value(sofar)
            c.check(z3.And(sofar.n >= 4 + hh), "frame returned only when complete")
            c.check(got.eq_term(substr(sofar, 4, SymInt(4 + hh))), "read_bytes returns the first frame's payload")
            c.check(ipc.buffer.s.eq_term(substr(sofar, SymInt(4 + hh), None)), "remaining bytes stay buffered")

    ctx.explore(body_c)
    rep.add_ctx("K1c read_bytes over chunked stream", ctx, chunks=nchunks, chunk_cap=ccap, outcomes=dict(rc))
    rep.twin("K1c: frame and EOF outcomes reached", rc["frame"] > 0 and rc["eof"] > 0)
    for x in ctx.cex:
        cex.setdefault("read_bytes: " + x.label, (x.model, "c"))

    # ---- (d) a client that disconnects in the middle of a frame must not affect the next one ----
    g = dict(KERNEL_GLOBALS)
    g["sys"] = _Sys
    KS = Kernel("mypy.ipc", ["IPCServer.__enter__", "IPCServer.__exit__", "IPCBase.close"], extra_globals=g, closure=False)
    rep.kernels_from(KS)
    ctx = Ctx(timeout_ms=60000, max_paths=400000)
    rd = {"n": 0}

    def body_d(c: Ctx) -> None:
        partial = B.bstr(c, "partial", 5 if tier == "quick" else 7, lo=0, hi=255, minlen=1)
        payload = B.bstr(c, "payload2", 3, lo=0, hi=255, minlen=1)
        # connection 1 delivers `partial` then EOF and it is NOT a complete frame
        h1 = header_value(partial)
        c.assume(SymBool(z3.Or(partial.n < 4, partial.n < 4 + h1)))
        # connection 2 delivers one well-formed frame
        hdr = StructStub.pack("!L", SymInt(payload.n))
        frame2 = B.bconcat(hdr.s, payload)

        class Sock:
            def __init__(self) -> None:
                self.conns = [_Conn([SymBuf(partial)]), _Conn([SymBuf(frame2)])]

            def accept(self) -> Any:
                return self.conns.pop(0), None

        for cn in (0, 1):
            pass

        class Srv:
            timeout = None
            buffer = SymBuf(BStr.const(b""))
            message_size = None
            sock = Sock()

            def close(self) -> None:
                KS["IPCBase.close"](self)

            def frame_from_buffer(self) -> Any:
                return K["IPCBase.frame_from_buffer"](self)

        for conn in Srv.sock.conns:
            conn.setsockopt = lambda *a: None  # type: ignore[attr-defined]
            conn.close = lambda: None  # type: ignore[attr-defined]
        srv = Srv()
        srv.buffer = SymBuf(BStr.const(b""))
        srv.message_size = None
        KS["IPCServer.__enter__"](srv)
        r1 = K["IPCBase.read_bytes"](srv)
        KS["IPCServer.__exit__"](srv)
        c.check(isinstance(r1, bytes) and r1 == b"", "truncated request yields b''")
        KS["IPCServer.__enter__"](srv)
        r2 = K["IPCBase.read_bytes"](srv)
        rd["n"] += 1
        if isinstance(r2, bytes):
            c.check(False, "next client's complete frame is delivered")
        else:
            c.check(r2.s.eq_term(payload), "next client's frame arrives intact after a client that hung up mid-frame")

    ctx.explore(body_d)
    rep.add_ctx("K1d framing state across connections (real IPCServer.__enter__/__exit__)", ctx)
    rep.twin("K1d reached", rd["n"] > 0)
    for x in ctx.cex:
        cex.setdefault("cross-connection: " + x.label, (x.model, "d"))

    for key, (model, which) in cex.items():
        rep.sample({"kernel": "ipc framing", "class": key, "model": {k: (v if not isinstance(v, str) else v.encode('latin-1').hex()) for k, v in model.items()}})
        rep.candidate(key, f"framing obligation fails for {model}", model, replay_framing(model, which, cap))


FRAMING_REPLAY = r'''
import socket, sys, struct
from mypy.ipc import IPCBase
kind = {kind!r}
def mk(sock):
    b = IPCBase("x", None); b.connection = sock; return b
a, z = socket.socketpair()
ok = True
if kind == "b":
    payload = bytes.fromhex({payload!r})
    w = mk(a); r = mk(z)
    w.write_bytes(payload); a.close()
    got = r.read_bytes()
    ok = got == payload
    print("sent", payload, "got", got)
else:
    chunks = [bytes.fromhex(h) for h in {chunks!r}]
    stream = b"".join(chunks)
    r = mk(z)
    r.buffer = bytearray()
    import threading
    def feed():
        for ch in chunks:
            if ch: a.sendall(ch)
        a.close()
    t = threading.Thread(target=feed); t.start()
    got = r.read_bytes(); t.join()
    if len(stream) >= 4 and len(stream) >= 4 + struct.unpack("!L", stream[:4])[0]:
        n = struct.unpack("!L", stream[:4])[0]
        want = stream[4:4+n]
    else:
        want = b""
    ok = got == want
    print("stream", stream, "want", want, "got", got)
sys.exit(0 if ok else 1)
'''


def replay_framing(model: dict[str, Any], which: str, cap: int):
    def replay(d: str) -> tuple[bool, str]:
        def hx(name: str) -> str:
            v = model.get(name, "")
            return v.encode("latin-1").hex() if isinstance(v, str) else ""

        if which == "d":
            rp = replay_daemon_partial(hx("partial"))
            return rp(d)
        if which == "b":
            script = FRAMING_REPLAY.format(kind="b", payload=hx("payload"), chunks=[])
        elif which == "c":
            script = FRAMING_REPLAY.format(kind="c", payload="", chunks=[hx(f"chunk{i}") for i in range(3) if f"chunk{i}" in model])
        else:
            script = FRAMING_REPLAY.format(kind="c", payload="", chunks=[hx("buf")])
        with open(os.path.join(d, "replay.py"), "w") as f:
            f.write(script)
        env = dict(os.environ)
        env.pop("PYTHONPATH", None)
        p = subprocess.run([sys.executable, os.path.join(d, "replay.py")], capture_output=True, text=True, timeout=60, env=env)
        return p.returncode != 0, (p.stdout + p.stderr)[-400:]

    return replay


# ---------------------------------------------------------------------------------------
# K2 serve loop

FAULTS = [
    "ok-status",          # well-formed {"command": "status"}
    "close-early",        # connects and closes / closes mid-frame: read() returns ""
    "bad-utf8",           # frame whose payload is not UTF-8
    "not-json",           # frame that is not JSON
    "json-not-dict",      # valid JSON, not an object
    "deep-json",          # well-framed JSON nested deeper than the decoder's recursion limit
    "no-command",         # object without "command"
    "command-not-str",    # "command": 5
    "unknown-command",    # "command": "frobnicate"
    "hangup-before-reply",  # well-formed request, peer gone when the reply is written
]


class _EndOfScript(BaseException):
    pass


def k2_serve(rep: Report, tier: str) -> None:
    import mypy.dmypy_server as DS
    from mypy.ipc import IPCException

    nclients = 2 if tier == "quick" else 3
    found: dict[str, tuple] = {}
    served_all = {"n": 0}
    ctx = Ctx()

    def body(c: Ctx) -> None:
        script = [FAULTS[c.choose(f"client{i}", len(FAULTS))] for i in range(nclients)]
        gone = [bool(c.bool(f"gone{i}")) if script[i] in ("bad-utf8", "not-json", "json-not-dict", "deep-json") else False for i in range(nclients)]
        # the last client is always a well-formed status request: it must be answered
        script.append("ok-status")
        gone.append(False)
        log: list = []
        state = {"i": -1}

        class StubServer:
            def __init__(self, name: str, timeout: Any = None) -> None:
                self.connection_name = "stub-conn"

            def __enter__(self) -> "StubServer":
                state["i"] += 1
                if state["i"] >= len(script):
                    raise _EndOfScript()
                log.append(["accept", script[state["i"]]])
                return self

            def __exit__(self, *a: Any) -> None:
                log.append(["close"])

            def read(self, size: int = 0) -> str:
                k = script[state["i"]]
                if k == "close-early":
                    return ""
                if k == "bad-utf8":
                    return b"\xff\xfe".decode("utf-8")
                if k == "not-json":
                    return "{not json"
                if k == "json-not-dict":
                    return "[1, 2]"
                if k == "deep-json":
                    return "[" * 100000 + "]" * 100000
                if k == "no-command":
                    return json.dumps({"is_tty": False, "terminal_width": 80})
                if k == "command-not-str":
                    return json.dumps({"command": 5, "is_tty": False, "terminal_width": 80})
                if k == "unknown-command":
                    return json.dumps({"command": "frobnicate", "is_tty": False, "terminal_width": 80})
                return json.dumps({"command": "status", "is_tty": False, "terminal_width": 80})

            def write(self, data: str) -> None:
                k = script[state["i"]]
                # a peer that hung up cannot be written to; whether a misbehaving client still
                # reads replies is its own choice (solver-chosen)
                if k in ("hangup-before-reply", "close-early") or (k in ("bad-utf8", "not-json", "json-not-dict", "deep-json") and gone[state["i"]]):
                    raise BrokenPipeError("peer gone")
                log.append(["reply", json.loads(data)])

            def cleanup(self) -> None:
                log.append(["cleanup"])

        K = Kernel("mypy.dmypy_server", ["Server.serve"], extra_globals={"IPCServer": StubServer, "reset_global_state": lambda: None}, closure=False)
        if not rep.kernels.get("mypy.dmypy_server.Server.serve"):
            rep.kernels_from(K)
        work = scratch("c16-")
        try:
            srv = DS.Server.__new__(DS.Server)
            srv.status_file = os.path.join(work, "status.json")
            srv.timeout = None
            from mypy.options import Options

            srv.options = Options()
            outcome = "script-exhausted"
            saved = (sys.stdout, sys.stderr)
            try:
                K["Server.serve"](srv)
                outcome = "returned"
            except _EndOfScript:
                outcome = "script-exhausted"
            except SystemExit:
                outcome = "sys.exit"
            except PathAbort:
                raise
            except BaseException as e:
                outcome = f"raised {type(e).__name__}: {e}"
            finally:
                sys.stdout, sys.stderr = saved
            status_left = os.path.exists(srv.status_file)
        finally:
            shutil.rmtree(work, ignore_errors=True)
        accepted = sum(1 for e in log if e[0] == "accept")
        last_reply = [e for e in log if e[0] == "reply"]
        c.stats["assert_queries"] += 1
        ok = outcome == "script-exhausted" and accepted == len(script) and last_reply and "error" not in last_reply[-1][1] and not status_left
        if ok:
            c.stats["discharged"] += 1
            served_all["n"] += 1
            return
        c.stats["refuted"] += 1
        # which client's behaviour ended the daemon?
        culprit = script[accepted - 1] if accepted else "none"
        if outcome == "script-exhausted" and accepted == len(script):
            key = "serve: status file left behind" if status_left else f"serve: final well-formed request not answered correctly after {script[:-1]}"
        else:
            key = f"serve: daemon stops serving after a client that does: {culprit}"
        found.setdefault(key, (script, outcome, accepted, status_left))

    ctx.explore(body)
    rep.add_ctx("K2 Server.serve under client fault sequences", ctx, clients=nclients, fault_kinds=len(FAULTS), fully_served=served_all["n"])
    rep.twin("K2: some fault sequence is served to the end", served_all["n"] > 0 or bool(found))
    for key, (script, outcome, accepted, status_left) in found.items():
        rep.sample({"kernel": "Server.serve", "class": key, "script": script, "outcome": outcome})
        rep.candidate(key, f"client sequence {script}: serve loop outcome {outcome!r} after {accepted} accepted clients; status file left: {status_left}", {"script": script}, replay_daemon(script, key))


DAEMON_REPLAY = r'''
import json, os, socket, struct, subprocess, sys, time
script = {script!r}
w = sys.argv[1]
os.makedirs(w, exist_ok=True); os.chdir(w)
open("a.py", "w").write("x: int = 1\n")
env = dict(os.environ); env.pop("PYTHONPATH", None)
dm = [sys.executable, "-m", "mypy.dmypy", "--status-file", "st.json"]
subprocess.run(dm + ["start", "--", "--no-error-summary"], env=env, check=True, capture_output=True)
st = json.load(open("st.json")); pid = st["pid"]
def frame(b): return struct.pack("!L", len(b)) + b
def client(kind):
    s = socket.socket(socket.AF_UNIX); s.connect(st["connection_name"])
    req = json.dumps({{"command": "status", "is_tty": False, "terminal_width": 80}}).encode()
    if kind == "close-early": pass
    elif kind == "bad-utf8": s.sendall(frame(b"\xff\xfe"))
    elif kind == "not-json": s.sendall(frame(b"{{not json"))
    elif kind == "json-not-dict": s.sendall(frame(b"[1, 2]"))
    elif kind == "deep-json": s.sendall(frame(b"[" * 100000 + b"]" * 100000))
    elif kind == "no-command": s.sendall(frame(json.dumps({{"is_tty": False, "terminal_width": 80}}).encode()))
    elif kind == "command-not-str": s.sendall(frame(json.dumps({{"command": 5, "is_tty": False, "terminal_width": 80}}).encode()))
    elif kind == "unknown-command": s.sendall(frame(json.dumps({{"command": "frobnicate", "is_tty": False, "terminal_width": 80}}).encode()))
    elif kind == "hangup-before-reply": s.sendall(frame(req))
    else:
        s.sendall(frame(req)); s.settimeout(10)
        try: s.recv(65536)
        except Exception: pass
    if kind not in ("hangup-before-reply", "close-early", "ok-status"):
        s.settimeout(2)
        try: s.recv(65536)
        except Exception: pass
    s.close()
try:
    for k in script[:-1]:
        client(k); time.sleep(0.3)
    r = subprocess.run(dm + ["status"], env=env, capture_output=True, text=True)
    print("dmypy status rc", r.returncode, (r.stdout + r.stderr).strip()[:300])
    alive = True
    try: os.kill(pid, 0)
    except OSError: alive = False
    print("daemon alive:", alive, "status file present:", os.path.exists("st.json"))
    bad = r.returncode != 0 or not alive
    if not alive and os.path.exists("st.json"):
        print("STALE STATUS FILE")
finally:
    subprocess.run(dm + ["kill"], env=env, capture_output=True)
sys.exit(1 if bad else 0)
'''


PARTIAL_REPLAY = r'''
import json, os, socket, subprocess, sys, time
w = sys.argv[1]
os.makedirs(w, exist_ok=True); os.chdir(w)
open("a.py", "w").write("x: int = 1\n")
env = dict(os.environ); env.pop("PYTHONPATH", None)
dm = [sys.executable, "-m", "mypy.dmypy", "--status-file", "st.json"]
subprocess.run(dm + ["start", "--", "--no-error-summary"], env=env, check=True, capture_output=True)
st = json.load(open("st.json"))
bad = True
try:
    s = socket.socket(socket.AF_UNIX); s.connect(st["connection_name"])
    s.sendall(bytes.fromhex({partial!r})); s.close()
    time.sleep(0.5)
    r = subprocess.run(dm + ["status"], env=env, capture_output=True, text=True)
    print("dmypy status after a client that hung up mid-frame: rc", r.returncode, (r.stdout + r.stderr).strip()[:300])
    bad = r.returncode != 0
finally:
    subprocess.run(dm + ["kill"], env=env, capture_output=True)
sys.exit(1 if bad else 0)
'''


def replay_daemon_partial(partial_hex: str):
    def replay(d: str) -> tuple[bool, str]:
        with open(os.path.join(d, "replay.py"), "w") as f:
            f.write(PARTIAL_REPLAY.format(partial=partial_hex))
        work = scratch("c16p-")
        try:
            env = dict(os.environ)
            env.pop("PYTHONPATH", None)
            p = subprocess.run([sys.executable, os.path.join(d, "replay.py"), work], capture_output=True, text=True, timeout=180, env=env)
        finally:
            shutil.rmtree(work, ignore_errors=True)
        return p.returncode != 0, (p.stdout + p.stderr)[-500:]

    return replay


def replay_daemon(script: list[str], key: str):
    def replay(d: str) -> tuple[bool, str]:
        with open(os.path.join(d, "replay.py"), "w") as f:
            f.write(DAEMON_REPLAY.format(script=script))
        work = scratch("c16d-")
        try:
            env = dict(os.environ)
            env.pop("PYTHONPATH", None)
            p = subprocess.run([sys.executable, os.path.join(d, "replay.py"), work], capture_output=True, text=True, timeout=180, env=env)
        finally:
            shutil.rmtree(work, ignore_errors=True)
        return p.returncode != 0, (p.stdout + p.stderr)[-500:]

    return replay


def main(args: Any) -> int:
    rep = Report(PID, args.tier, "symbolic execution (symx/z3, bounded bit-vector byte strings) of the real framing functions incl. an inductive step over arbitrary valid states; solver-chosen client fault sequences through the real serve loop; replay over socketpair / real dmypy daemon")
    only = set(args.only.split(",")) if args.only else None
    import mypy.build  # noqa: F401

    rep.bounds += [
        "K1a: buffer of <= 9 (quick) / 12 (thorough) arbitrary bytes, cached message_size absent or consistent (representation invariant); one frame_from_buffer step. Induction over steps covers every chunking and any number of frames whose size fits the buffer cap",
        "K1b: payload <= cap-4 arbitrary bytes; K1c: 2 chunks of 1..5 bytes (quick) / 3 chunks of 1..4 bytes (thorough), then EOF; payloads non-empty",
        "K2: 2 (quick) / 3 (thorough) clients each with one of 9 behaviours, followed by a well-formed status request",
    ]
    rep.assumptions += [
        "stubs: struct.pack/unpack('!L') modelled as big-endian arithmetic; memoryview/bytes identity; socket recv/sendall scripted; IPCServer accept/read/write scripted; reset_global_state no-op",
        "an empty frame is indistinguishable from EOF by design (payloads non-empty)",
        "non-win32 branch of read_bytes/write_bytes",
    ]
    rep.outside += ["frames larger than the cap are covered only through the inductive step (sizes up to the cap)", "Windows named-pipe branch", "results of later check requests being unaffected (needs real checks; replay asks dmypy status only)"]
    if only is None or "K1" in only:
        k1_framing(rep, args.tier)
    if only is None or "K2" in only:
        k2_serve(rep, args.tier)
    return rep.finish()


if __name__ == "__main__":
    run_main(PID, main)
