"""C12: static models of Python's runtime rules agree with CPython.

K1 arity/keyword binding  (vf/c12_arity.py)
K2 MRO / C3               (vf/c12_mro.py)
K3 reachability: sys.version_info / sys.platform conditions (this file)
K4 constant folding: folded value = value of the Python operator (this file)
"""

from __future__ import annotations

import itertools
import os
import subprocess
import sys
from typing import Any

import z3

from vf import foldharness as fh
from vf import symx
from vf.report import Report, run_main, scratch
from vf.symx import Ctx, Kernel, PathAbort, SymBool, SymInt, SymSeq, Unsupported

PID = "C12"

# --------------------------------------------------------------------------------------
# K3 reachability


class _Level:
    """sys.version_info[3] ('final'): equal to no int, ordering against ints raises."""

    def __eq__(self, o: Any) -> bool:  # type: ignore[override]
        return isinstance(o, _Level)

    def __ne__(self, o: Any) -> bool:  # type: ignore[override]
        return not isinstance(o, _Level)

    def __hash__(self) -> int:
        return 0

    def _no(self, o: Any) -> Any:
        raise TypeError("'<' not supported between instances of 'str' and 'int'")

    __lt__ = __le__ = __gt__ = __ge__ = _no


V_SHAPES: list[tuple] = [("full",), ("idx",)] + [
    ("slice", b, e, s) for b in (None, "sym") for e in (None, "sym") for s in (None, 1, "sym")
]
T_SHAPES: list[tuple] = [("int",)] + [("tuple", k) for k in (0, 1, 2, 3)]
OPS = ["==", "!=", "<", "<=", ">", ">=", "in", "is"]
PYCMP = {
    "==": lambda a, b: a == b,
    "!=": lambda a, b: a != b,
    "<": lambda a, b: a < b,
    "<=": lambda a, b: a <= b,
    ">": lambda a, b: a > b,
    ">=": lambda a, b: a >= b,
}


def build_version_case(c: Ctx, vs: tuple, ts: tuple):
    from mypy.nodes import IndexExpr, IntExpr, MemberExpr, NameExpr, SliceExpr, TupleExpr

    sysv = MemberExpr(NameExpr("sys"), "version_info")
    par: dict[str, Any] = {}
    if vs[0] == "full":
        v = sysv
    elif vs[0] == "idx":
        par["i"] = c.int("i")
        v = IndexExpr(sysv, IntExpr(par["i"]))
    else:
        _, b, e, s = vs
        if b == "sym":
            par["b"] = c.int("b")
        if e == "sym":
            par["e"] = c.int("e")
        if s == "sym":
            par["s"] = c.int("s")
        elif s == 1:
            par["s"] = 1
        v = IndexExpr(
            sysv,
            SliceExpr(
                IntExpr(par["b"]) if "b" in par else None,
                IntExpr(par["e"]) if "e" in par else None,
                IntExpr(par["s"]) if "s" in par else None,
            ),
        )
    if ts[0] == "int":
        par["t"] = [c.int("t0")]
        t = IntExpr(par["t"][0])
    else:
        par["t"] = [c.int(f"t{j}") for j in range(ts[1])]
        t = TupleExpr([IntExpr(x) for x in par["t"]])
    return v, t, par


def runtime_version_value(vs: tuple, par: dict[str, Any], full: SymSeq) -> Any:
    if vs[0] == "full":
        return tuple(full.items)
    if vs[0] == "idx":
        return full[par["i"]]
    s = par.get("s")
    if s is not None and not isinstance(s, int):
        if not (s == 1):
            raise Unsupported("runtime model of slice strides other than 1")
    return full[par.get("b") : par.get("e")]


def render_version_cond(vs: tuple, ts: tuple, op: str, order: int, m: dict[str, Any]) -> str:
    if vs[0] == "full":
        v = "sys.version_info"
    elif vs[0] == "idx":
        v = f"sys.version_info[{m['i']}]"
    else:
        _, b, e, s = vs
        bs = str(m["b"]) if b == "sym" else ""
        es = str(m["e"]) if e == "sym" else ""
        ss = "" if s is None else (":1" if s == 1 else f":{m['s']}")
        v = f"sys.version_info[{bs}:{es}{ss}]"
    if ts[0] == "int":
        t = f"{m['t0']}"
    else:
        k = ts[1]
        t = "(" + ", ".join(str(m[f"t{j}"]) for j in range(k)) + ("," if k == 1 else "") + ")"
    return f"{v} {op} {t}" if order == 0 else f"{t} {op} {v}"


REPLAY_PROG = """import sys
if {cond}:
    a: int = ""
else:
    b: int = ""
"""


def mypy_branches(cond: str, pyver: tuple[int, int], platform: str | None, d: str) -> tuple[str, str]:
    """Which branches does the real mypy consider reachable?  -> ('T', 'F', 'TF'), raw output"""
    work = scratch("c12-")
    try:
        with open(os.path.join(work, "prog.py"), "w") as f:
            f.write(REPLAY_PROG.format(cond=cond))
        cmd = [sys.executable, "-m", "mypy", "--no-incremental", "--cache-dir=/dev/null", "--no-error-summary", "--python-version", f"{pyver[0]}.{pyver[1]}"]
        if platform is not None:
            cmd += ["--platform", platform]
        cmd += ["prog.py"]
        env = dict(os.environ)
        env.pop("PYTHONPATH", None)
        p = subprocess.run(cmd, cwd=work, capture_output=True, text=True, timeout=120, env=env)
    finally:
        import shutil

        shutil.rmtree(work, ignore_errors=True)
    out = p.stdout
    r = ""
    if "prog.py:3:" in out:
        r += "T"
    if "prog.py:5:" in out:
        r += "F"
    return r, out + p.stderr


def replay_reach(cond: str, pyver: tuple[int, int], micro: int, platform: "str | None"):
    def replay(d: str) -> tuple[bool, str]:
        class FakeSys:
            version_info = (pyver[0], pyver[1], micro, "final", 0)

        FakeSys.platform = platform if platform is not None else "linux"  # type: ignore[attr-defined]
        try:
            truth: Any = bool(eval(cond, {"sys": FakeSys, "x": True}))
        except Exception as e:
            truth = "raises " + type(e).__name__
        with open(os.path.join(d, "prog.py"), "w") as f:
            f.write(REPLAY_PROG.format(cond=cond))
        with open(os.path.join(d, "replay.sh"), "w") as f:
            pf = f" --platform {platform}" if platform is not None else ""
            f.write(
                f"#!/bin/bash\n# runtime value of the condition for target {pyver} micro={micro} platform={platform}: {truth}\n"
                f"# mypy must not treat the branch taken at run time as unreachable\ncd \"$(dirname \"$0\")\"\n"
                f"/verif/.venv/bin/python -m mypy --no-incremental --cache-dir=/dev/null --python-version {pyver[0]}.{pyver[1]}{pf} prog.py\n"
            )
        br, out = mypy_branches(cond, pyver, platform, d)
        if br == "TF":
            return False, f"mypy treats both branches as reachable (condition unknown); runtime={truth}"
        if br == "":
            return False, "mypy reported nothing: " + out[-300:]
        bad = (br == "T" and truth is not True) or (br == "F" and truth is not False)
        return bad, f"cond `{cond}` target={pyver} micro={micro} platform={platform}: mypy reachable branch={br}, runtime value={truth}"

    return replay


def k3_version(rep: Report, K: Kernel, tier: str) -> None:
    from mypy import reachability as R

    fn = K["consider_sys_version_info"]
    tot = Ctx()
    tot.exhausted = True
    found: dict[str, tuple] = {}
    ncases = 0
    definite = 0
    from mypy import defaults

    minor_min = defaults.PYTHON3_VERSION_MIN[1]
    for vs in V_SHAPES:
        for ts in T_SHAPES:
            for op in OPS:
                for order in (0, 1):
                    ncases += 1
                    ctx = Ctx()

                    def body(c: Ctx) -> None:
                        nonlocal definite
                        from mypy.nodes import ComparisonExpr

                        major = c.int("major", 3, 3)
                        minor = c.int("minor", minor_min)
                        micro = c.int("micro", 0)
                        serial = c.int("serial", 0)
                        v, t, par = build_version_case(c, vs, ts)
                        operands = [v, t] if order == 0 else [t, v]
                        expr = ComparisonExpr([op], operands)
                        res = fn(expr, SymSeq((major, minor)))
                        c.stats["assert_queries"] += 1
                        if res == R.TRUTH_VALUE_UNKNOWN:
                            c.stats["discharged"] += 1
                            return
                        definite += 1
                        full = SymSeq((major, minor, micro, _Level(), serial))
                        try:
                            rv = runtime_version_value(vs, par, full)
                            tv: Any = tuple(par["t"]) if ts[0] == "tuple" else par["t"][0]
                            a, b = (rv, tv) if order == 0 else (tv, rv)
                            if op not in PYCMP:
                                raise Unsupported("definite answer for operator " + op)
                            truth: Any = bool(PYCMP[op](a, b))
                        except (IndexError, TypeError) as e:
                            truth = "raises"
                        ok = (res == R.ALWAYS_TRUE and truth is True) or (res == R.ALWAYS_FALSE and truth is False)
                        nv = c.stats["nonvacuous"]
                        nv["definite"] = nv.get("definite", 0) + 1
                        if ok:
                            c.stats["discharged"] += 1
                            return
                        c.stats["refuted"] += 1
                        m = c.path_model()
                        open_end = vs[0] == "full" or (vs[0] == "slice" and vs[2] is None)
                        nop = op if order == 0 else {"==": "==", "!=": "!=", "<": ">", ">": "<", "<=": ">=", ">=": "<="}.get(op, op)
                        lo_m = m.get("b", 0) if (vs[0] == "slice" and vs[1] == "sym") else 0
                        tgt = [m["major"], m["minor"]][lo_m:2] if isinstance(lo_m, int) and 0 <= lo_m <= 2 else None
                        thing_m = [m.get(f"t{j}") for j in range(ts[1])] if ts[0] == "tuple" else None
                        if open_end and ts[0] == "tuple" and thing_m == tgt:
                            key = f"version_info open-ended index compared {nop} equal-length tuple equal to the target prefix"
                        else:
                            key = f"version_info shape={vs} {op} thing={ts} order={order}"
                        if key not in found:
                            found[key] = (vs, ts, op, order, m, res, truth)

                    ctx.explore(body)
                    for k, val in ctx.stats.items():
                        if isinstance(val, (int, float)):
                            tot.stats[k] += val
                    for k, val in ctx.stats["nonvacuous"].items():
                        tot.stats["nonvacuous"][k] = tot.stats["nonvacuous"].get(k, 0) + val
                    tot.exhausted = tot.exhausted and ctx.exhausted
    rep.add_ctx("K3 consider_sys_version_info", tot, shape_cases=ncases, definite_paths=definite)
    rep.twin("K3 version: definite answers reached", definite > 0)
    for key, (vs, ts, op, order, m, res, truth) in found.items():
        cond = render_version_cond(vs, ts, op, order, m)
        rep.sample({"kernel": "consider_sys_version_info", "cond": cond, "target": [m["major"], m["minor"]], "micro": m["micro"], "mypy": res, "runtime": truth})
        rep.candidate(
            key,
            f"`{cond}` at target {m['major']}.{m['minor']} (micro {m['micro']}): mypy says {'ALWAYS_TRUE' if res == 1 else 'ALWAYS_FALSE'}, runtime value {truth}",
            m,
            replay_reach(cond, (m["major"], m["minor"]), m["micro"], None),
        )


def k3_platform(rep: Report, K: Kernel) -> None:
    from mypy import reachability as R
    from mypy.nodes import CallExpr, ComparisonExpr, MemberExpr, NameExpr, StrExpr, ARG_POS

    fn = K["consider_sys_platform"]
    tot = Ctx()
    tot.exhausted = True
    found: dict[str, tuple] = {}
    definite = 0
    shapes = [("cmp", op, order) for op in ("==", "!=", "<", "in") for order in (0, 1)] + [("call", m_, 0) for m_ in ("startswith", "endswith")]
    for sh in shapes:
        ctx = Ctx()

        def body(c: Ctx) -> None:
            nonlocal definite
            plat = symx.zstr(c, "platform", 8)
            lit = symx.zstr(c, "lit", 8)
            sysp = MemberExpr(NameExpr("sys"), "platform")
            if sh[0] == "cmp":
                ops = [sysp, StrExpr(lit)] if sh[2] == 0 else [StrExpr(lit), sysp]
                expr: Any = ComparisonExpr([sh[1]], ops)
            else:
                expr = CallExpr(MemberExpr(sysp, sh[1]), [StrExpr(lit)], [ARG_POS], [None])
            res = fn(expr, plat)
            c.stats["assert_queries"] += 1
            if res == R.TRUTH_VALUE_UNKNOWN:
                c.stats["discharged"] += 1
                return
            definite += 1
            if sh[0] == "cmp":
                if sh[1] == "==":
                    truth = bool(plat == lit)
                elif sh[1] == "!=":
                    truth = bool(plat != lit)
                else:
                    raise Unsupported("definite answer for platform operator " + sh[1])
            else:
                truth = bool(plat.startswith(lit)) if sh[1] == "startswith" else bool(plat.endswith(lit))
            ok = (res == R.ALWAYS_TRUE and truth) or (res == R.ALWAYS_FALSE and not truth)
            if ok:
                c.stats["discharged"] += 1
                return
            c.stats["refuted"] += 1
            key = f"sys.platform shape={sh}"
            if key not in found:
                found[key] = (sh, c.path_model(), res, truth)

        ctx.explore(body)
        for k, val in ctx.stats.items():
            if isinstance(val, (int, float)):
                tot.stats[k] += val
        tot.exhausted = tot.exhausted and ctx.exhausted
    rep.add_ctx("K3 consider_sys_platform", tot, shapes=len(shapes), definite_paths=definite)
    rep.twin("K3 platform: definite answers reached", definite > 0)
    for key, (sh, m, res, truth) in found.items():
        lit, plat = m.get("lit", ""), m.get("platform", "")
        if sh[0] == "cmp":
            cond = f"sys.platform {sh[1]} {lit!r}" if sh[2] == 0 else f"{lit!r} {sh[1]} sys.platform"
        else:
            cond = f"sys.platform.{sh[1]}({lit!r})"
        rep.sample({"kernel": "consider_sys_platform", "cond": cond, "platform": plat, "mypy": res, "runtime": truth})
        from mypy import defaults

        rep.candidate(key, f"`{cond}` with platform {plat!r}: mypy {res}, runtime {truth}", m, replay_reach(cond, (3, defaults.PYTHON3_VERSION_MIN[1]), 0, plat or "x"))


class _Opts:
    def __init__(self, pyversion: Any, platform: Any):
        self.python_version = pyversion
        self.platform = platform
        self.always_true: list[str] = []
        self.always_false: list[str] = []


def k3_combinators(rep: Report, K: Kernel, tier: str) -> None:
    """not / and / or over version, platform and unknown leaves, to depth 2."""
    from mypy import reachability as R
    from mypy.nodes import ComparisonExpr, IntExpr, MemberExpr, NameExpr, OpExpr, StrExpr, TupleExpr, UnaryExpr

    fn = K["infer_condition_value"]
    leaves = ["ge", "lt", "plat", "unk"]

    def mk_leaf(c: Ctx, kind: str, n: int, env: dict[str, Any]):
        sysv = MemberExpr(NameExpr("sys"), "version_info")
        if kind in ("ge", "lt"):
            k = c.int(f"k{n}", 0)
            op = ">=" if kind == "ge" else "<"
            e: Any = ComparisonExpr([op], [sysv, TupleExpr([IntExpr(3), IntExpr(k)])])
            rt = (lambda: bool(env["minor"] >= k)) if kind == "ge" else (lambda: bool(env["minor"] < k))
            txt = lambda m: f"sys.version_info {op} (3, {m[f'k{n}']})"
        elif kind == "plat":
            lit = symx.zstr(c, f"lit{n}", 6)
            e = ComparisonExpr(["=="], [MemberExpr(NameExpr("sys"), "platform"), StrExpr(lit)])
            rt = lambda: bool(env["platform"] == lit)
            txt = lambda m: f"sys.platform == {m.get(f'lit{n}', '')!r}"
        else:
            u = c.bool(f"u{n}")
            e = NameExpr("x")
            rt = lambda: bool(u)
            txt = lambda m: "x"
        return e, rt, txt

    shapes: list[tuple] = []
    for a in leaves:
        shapes.append(("not", a))
        for b in leaves:
            for op in ("and", "or"):
                shapes.append((op, a, b))
                shapes.append(("not-" + op, a, b))
                if tier == "thorough":
                    for cc in leaves:
                        for op2 in ("and", "or"):
                            shapes.append((op + "-" + op2, a, b, cc))
    tot = Ctx()
    tot.exhausted = True
    found: dict[str, tuple] = {}
    definite = 0
    for sh in shapes:
        ctx = Ctx()

        def body(c: Ctx) -> None:
            nonlocal definite
            from mypy import defaults

            env: dict[str, Any] = {"minor": c.int("minor", defaults.PYTHON3_VERSION_MIN[1]), "platform": symx.zstr(c, "platform", 6)}
            parts = [mk_leaf(c, kind, i, env) for i, kind in enumerate(sh[1:])]
            if sh[0] == "not":
                expr: Any = UnaryExpr("not", parts[0][0])
                rt = lambda: not parts[0][1]()
                txt = lambda m: f"not ({parts[0][2](m)})"
            elif sh[0] in ("and", "or"):
                expr = OpExpr(sh[0], parts[0][0], parts[1][0])
                rt = (lambda: parts[0][1]() and parts[1][1]()) if sh[0] == "and" else (lambda: parts[0][1]() or parts[1][1]())
                txt = lambda m: f"({parts[0][2](m)}) {sh[0]} ({parts[1][2](m)})"
            elif sh[0].startswith("not-"):
                o = sh[0][4:]
                expr = UnaryExpr("not", OpExpr(o, parts[0][0], parts[1][0]))
                rt = (lambda: not (parts[0][1]() and parts[1][1]())) if o == "and" else (lambda: not (parts[0][1]() or parts[1][1]()))
                txt = lambda m: f"not (({parts[0][2](m)}) {o} ({parts[1][2](m)}))"
            else:
                o1, o2 = sh[0].split("-")
                expr = OpExpr(o2, OpExpr(o1, parts[0][0], parts[1][0]), parts[2][0])
                inner = (lambda: parts[0][1]() and parts[1][1]()) if o1 == "and" else (lambda: parts[0][1]() or parts[1][1]())
                rt = (lambda: inner() and parts[2][1]()) if o2 == "and" else (lambda: inner() or parts[2][1]())
                txt = lambda m: f"(({parts[0][2](m)}) {o1} ({parts[1][2](m)})) {o2} ({parts[2][2](m)})"
            res = fn(expr, _Opts(SymSeq((3, env["minor"])), env["platform"]))
            c.stats["assert_queries"] += 1
            if res not in (R.ALWAYS_TRUE, R.ALWAYS_FALSE):
                c.stats["discharged"] += 1
                return
            definite += 1
            truth = bool(rt())
            if (res == R.ALWAYS_TRUE) == truth:
                c.stats["discharged"] += 1
                return
            c.stats["refuted"] += 1
            key = f"infer_condition_value combinator shape={sh}"
            if key not in found:
                m = c.path_model()
                found[key] = (txt(m), m, res, truth)

        ctx.explore(body)
        for k, val in ctx.stats.items():
            if isinstance(val, (int, float)):
                tot.stats[k] += val
        tot.exhausted = tot.exhausted and ctx.exhausted
    rep.add_ctx("K3 infer_condition_value (not/and/or)", tot, shapes=len(shapes), definite_paths=definite)
    rep.twin("K3 combinators: definite answers reached", definite > 0)
    for key, (cond, m, res, truth) in found.items():
        rep.sample({"kernel": "infer_condition_value", "cond": cond, "model": m, "mypy": res, "runtime": truth})
        rep.candidate(key, f"`{cond}`: mypy {res}, runtime {truth} for {m}", m, replay_reach(cond, (3, m["minor"]), 0, m.get("platform") or "x"))


# --------------------------------------------------------------------------------------
# K4 constant folding value


def k4_fold(rep: Report) -> None:
    k1, k2 = fh.load_kernels()
    rep.kernels_from(k1)
    rep.kernels_from(k2)
    import mypy.constant_fold as real_cf
    import mypyc.irbuild.constant_fold as real_cf2

    tot = Ctx()
    tot.exhausted = True
    found: dict[str, tuple] = {}
    folded = 0

    def run(fname: str, fn: Any, realfn: Any, op: str, lk: str, rk: str) -> None:
        nonlocal folded
        ctx = Ctx()

        def body(c: Ctx) -> None:
            nonlocal folded
            l = fh.mk(c, "l", lk)
            r = fh.mk(c, "r", rk) if rk != "-" else None
            try:
                res = fn(op, l, r) if rk != "-" else fn(op, l)
            except (PathAbort, Unsupported):
                raise
            except Exception:
                return  # totality is C20's obligation
            if res is None:
                c.stats["assert_queries"] += 1
                c.stats["discharged"] += 1
                return
            folded += 1
            kind, val = fh.spec_binary(op, l, r) if rk != "-" else fh.spec_unary(op, l)
            if kind == "raises":
                ok = False
                c.stats["assert_queries"] += 1
                c.stats["refuted"] += 1
                model = c.path_model()
            else:
                ok = c.check(symx.same_value(res, val), f"fold {lk} {op} {rk}")
                model = c.cex[-1].model if (not ok and c.cex) else None
            if not ok and model is not None:
                key = f"{fname} {lk} {op} {rk}: folded value differs from the Python operator"
                found.setdefault(key, (fname, realfn, op, lk, rk, model))

        ctx.explore(body)
        for k, val in ctx.stats.items():
            if isinstance(val, (int, float)):
                tot.stats[k] += val
        tot.exhausted = tot.exhausted and ctx.exhausted

    for op in fh.BIN_OPS:
        for lk in fh.KINDS:
            for rk in fh.KINDS:
                if "bytes" not in (lk, rk):
                    run("constant_fold_binary_op", k1["constant_fold_binary_op"], real_cf.constant_fold_binary_op, op, lk, rk)
                if "bool" not in (lk, rk):
                    run("constant_fold_binary_op_extended", k2["constant_fold_binary_op_extended"], real_cf2.constant_fold_binary_op_extended, op, lk, rk)
    for op in fh.UN_OPS:
        for k in fh.KINDS:
            if k != "bytes":
                run("constant_fold_unary_op", k1["constant_fold_unary_op"], real_cf.constant_fold_unary_op, op, k, "-")
    rep.add_ctx("K4 constant folding value", tot, folded_paths=folded)
    rep.twin("K4: some path folds to a value", folded > 0)
    for key, (fname, realfn, op, lk, rk, model) in found.items():
        rep.sample({"kernel": fname, "op": op, "kinds": [lk, rk], "model": model})

        def replay(d: str, realfn: Any = realfn, op: str = op, lk: str = lk, rk: str = rk, model: dict = model) -> tuple[bool, str]:
            l = fh.concrete(lk, "l", model)
            expr = f"{op} {fh.render(lk, 'l', model)}" if rk == "-" else f"{fh.render(lk, 'l', model)} {op} {fh.render(rk, 'r', model)}"
            got = realfn(op, l, fh.concrete(rk, "r", model)) if rk != "-" else realfn(op, l)
            try:
                want: Any = eval(expr)
            except Exception as e:
                want = "raises " + type(e).__name__
            with open(os.path.join(d, "replay.py"), "w") as f:
                f.write(f"# folded value must equal the runtime value\nimport {realfn.__module__} as m\nprint('folded :', m.{realfn.__name__}({op!r}, {fh.render(lk, 'l', model)}" + (f", {fh.render(rk, 'r', model)}" if rk != "-" else "") + f"))\nprint('runtime:', {expr})\n")
            same = type(got) is type(want) and (got == want or (got != got and want != want))
            return (got is not None and not same), f"{expr}: folded={got!r} runtime={want!r}"

        rep.candidate(key, f"fold of {lk} {op} {rk} differs for {model}", model, replay)


def main(args: Any) -> int:
    rep = Report(PID, args.tier, "symbolic execution (symx/z3) of the real decision functions; shapes enumerated, all scalar parameters symbolic; counterexamples replayed with the real mypy command / CPython")
    only = set(args.only.split(",")) if args.only else None
    import mypy.build  # noqa: F401  (import order: avoids the types/expandtype cycle)

    K = Kernel("mypy.reachability", ["consider_sys_version_info", "consider_sys_platform", "infer_condition_value", "fixed_comparison", "contains_int_or_tuple_of_ints", "contains_sys_version_info"])
    rep.kernels_from(K)
    rep.bounds += [
        "K3: expression shapes enumerated (version_info whole/[i]/[b:e:s] with each bound absent or symbolic, vs int or tuple of 0..3 ints, 8 operators, both operand orders; platform ==/!=/startswith; not/and/or to depth 2 (quick) or 3 leaves (thorough)); all ints unbounded, target = (3, minor >= supported minimum), micro/serial >= 0, strings <= 8 chars",
        "K4: one folding step per operator x operand kind, operands unbounded ints / all Float64 / symbolic-length strings",
    ]
    rep.assumptions += [
        "runtime sys.version_info = (major, minor, micro, 'final', serial) with arbitrary micro/serial >= 0",
        "bitwise operators and float // % ** are uninterpreted (same symbol on both sides): the check covers operator dispatch and guards, not their arithmetic",
    ]
    rep.outside += ["reachability conditions other than version/platform comparisons (TYPE_CHECKING, always-true names) - their runtime value is configuration, not a CPython rule"]
    if only is None or "K3" in only:
        k3_version(rep, K, args.tier)
        k3_platform(rep, K)
        k3_combinators(rep, K, args.tier)
    if only is None or "K4" in only:
        k4_fold(rep)
    if only is None or "K1" in only:
        try:
            from vf import c12_arity
        except ImportError:
            c12_arity = None  # type: ignore[assignment]
        if c12_arity is not None:
            c12_arity.run(rep, args.tier)
    if only is None or "K2" in only:
        try:
            from vf import c12_mro
        except ImportError:
            c12_mro = None  # type: ignore[assignment]
        if c12_mro is not None:
            c12_mro.run(rep, args.tier)
    return rep.finish()


if __name__ == "__main__":
    run_main(PID, main)
