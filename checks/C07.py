"""C07: the coordinator's scheduling kernel under every completion order.

The scheduling loop of build.process_graph (extracted from the source on every run, from the
statement that initialises manager.free_workers to the end of the function) runs with the real
BuildManager.submit / submit_to_workers / get_scc_batch / max_batch_size / wait_for_done /
wait_for_done_workers on a shell manager.  send(), ready_to_read(), receive_worker_message(),
the response decoding and find_stale_sccs (everything stale) are stubs.  The solver chooses the
SCC DAG, the size hints (they drive the heap and the batching), the number of workers and, at
every wait, the non-empty subset of busy workers whose next response arrives (interface first,
implementation second).

Obligations for every schedule: (S1) an SCC is sent to a worker only after all SCCs it depends
on reported interface-done to the coordinator; (S2) every SCC is sent exactly once; (S3) a
worker gets a new batch only after its implementation response; (S4) the loop terminates with
every SCC done; (S5) free_workers stays within range and not_ready_count never goes negative.
"""

from __future__ import annotations

import ast
import inspect
import itertools
import multiprocessing as mp
import os
import sys
import subprocess
from typing import Any

import z3

from vf import symx
from vf.report import Report, run_main
from vf.symx import Ctx, Kernel, PathAbort, Unsupported

PID = "C07"


class Sched(Exception):
    pass


class FakeSCC:
    def __init__(self, i: int, deps: list[int], size: int):
        self.id = i
        self.mod_ids = {f"m{i}"}
        self.deps = set(deps)
        self.not_ready_count = len(deps)
        self.direct_dependents: list[int] = []
        self.size_hint = size

    def __repr__(self) -> str:
        return f"SCC{self.id}"


class FakeState:
    def __init__(self, mid: str):
        self.id = mid
        self.xpath = mid + ".py"
        self.tree = None
        self.interface_hash = b""

    def mark_as_rechecked(self) -> None:
        pass

    def suppressed_deps_opts(self) -> bytes:
        return b""

    def mark_interface_stale(self) -> None:
        pass


def extract_loop(K: Kernel) -> Any:
    import mypy.build as B

    src = open(inspect.getsourcefile(B)).read()  # type: ignore[arg-type]
    tree = ast.parse(src)
    fn = next(n for n in tree.body if isinstance(n, ast.FunctionDef) and n.name == "process_graph")
    start = None
    for i, st in enumerate(fn.body):
        if isinstance(st, ast.Assign) and "free_workers" in ast.dump(st.targets[0]):
            start = i
            break
    if start is None:
        raise Unsupported("cannot locate the scheduling loop in build.process_graph")
    body = fn.body[start:]
    f = ast.FunctionDef(
        name="_sched_loop",
        args=ast.arguments(posonlyargs=[], args=[ast.arg(arg=a) for a in ("graph", "manager", "sccs", "scc_by_id")], kwonlyargs=[], kw_defaults=[], defaults=[]),
        body=body,
        decorator_list=[],
        type_params=[],
    )
    m = ast.Module(body=[f], type_ignores=[])
    ast.fix_missing_locations(m)
    ns = dict(K.ns)
    exec(compile(m, "<symx:process_graph loop>", "exec"), ns)
    h = symx.hashlib.sha256("".join(ast.dump(s) for s in body).encode()).hexdigest()[:16]
    return ns["_sched_loop"], ns, h


def run_partition(arg: tuple) -> tuple:
    nscc, nworkers, edge_mask = arg
    import mypy.build as B

    log: dict[str, Any] = {}

    class Resp:
        def __init__(self, scc_ids: list[int], is_interface: bool):
            self.scc_ids = scc_ids
            self.is_interface = is_interface
            self.blocker = None
            self.result = {f"m{i}": B.ModuleResult(None, []) for i in scc_ids} if hasattr(B, "ModuleResult") else {}

    class RespReader:
        @staticmethod
        def read(buf: Any) -> Any:
            return buf

    def stub_send(conn: Any, msg: Any) -> None:
        log["send"](conn, msg)

    class Req:
        def __init__(self, scc_ids: list[int], import_errors: Any, mod_data: Any):
            self.scc_ids = scc_ids

    globs = {
        "send": stub_send,
        "SccRequestMessage": Req,
        "ready_to_read": lambda conns, timeout=None: log["ready"](conns),
        "read_tag": lambda buf: B.SCC_RESPONSE_MESSAGE,
        "SccResponseMessage": RespReader,
        "find_stale_sccs": lambda sccs, graph, manager: log["stale"](sccs),
    }
    K = Kernel(
        "mypy.build",
        ["BuildManager.submit", "BuildManager.submit_to_workers", "BuildManager.get_scc_batch", "BuildManager.max_batch_size", "BuildManager.wait_for_done", "BuildManager.wait_for_done_workers"],
        extra_globals=globs,
        closure=False,
    )
    loop, ns, lh = extract_loop(K)
    pairs = [(i, j) for i in range(nscc) for j in range(i)]  # i depends on j (j < i): a DAG by construction
    found: dict[str, tuple] = {}
    stats = {"schedules": 0, "max_steps": 0}

    def body(c: Ctx) -> None:
        deps: dict[int, list[int]] = {i: [] for i in range(nscc)}
        for k, (i, j) in enumerate(pairs):
            if (edge_mask >> k) & 1:
                deps[i].append(j)
        sizes = [(1, 6)[c.choose(f"size{i}", 2)] for i in range(nscc)]
        sccs = [FakeSCC(i, deps[i], sizes[i]) for i in range(nscc)]
        for s in sccs:
            for d in s.deps:
                sccs[d].direct_dependents.append(s.id)
        scc_by_id = {s.id: s for s in sccs}
        graph = {f"m{i}": FakeState(f"m{i}") for i in range(nscc)}

        class W:
            def __init__(self, idx: int):
                self.idx = idx
                self.conn = idx

        class Errs:
            recorded: dict = {}

            @staticmethod
            def simplify_path(p: str) -> str:
                return p

        class Opts:
            num_workers = nworkers

        class Mgr:
            workers = [W(i) for i in range(nworkers)]
            options = Opts
            errors = Errs
            scc_queue: list = []
            size_in_queue = 0
            queue_order = 0
            free_workers: set = set()
            transitive_deps_cache: dict = {}

        mgr = Mgr()
        mgr.scc_queue = []
        mgr.scc_by_id = scc_by_id
        for nm in ("submit", "submit_to_workers", "get_scc_batch", "max_batch_size", "wait_for_done", "wait_for_done_workers"):
            setattr(Mgr, nm, K["BuildManager." + nm])
        Mgr.add_stats = lambda self, **kw: None  # type: ignore[attr-defined]
        Mgr.trace = lambda self, *a: None  # type: ignore[attr-defined]
        Mgr.log = lambda self, *a: None  # type: ignore[attr-defined]
        Mgr.flush_errors = lambda self, *a: None  # type: ignore[attr-defined]
        # --- bookkeeping of the simulated workers
        pending: dict[int, list] = {}  # worker -> [scc_ids, phase]  phase 0: interface due, 1: implementation due
        sent: dict[int, int] = {}
        iface_done: set[int] = set()
        steps = {"n": 0}
        viol: list[str] = []

        def on_send(conn: int, msg: Any) -> None:
            if conn in pending:
                viol.append(f"S3: worker {conn} got a batch while busy")
            for sid in msg.scc_ids:
                sent[sid] = sent.get(sid, 0) + 1
                missing = [d for d in scc_by_id[sid].deps if d not in iface_done]
                if missing:
                    viol.append(f"S1: SCC {sid} sent before its dependencies {missing} were interface-done")
            pending[conn] = [list(msg.scc_ids), 0]

        def on_ready(conns: list) -> list:
            steps["n"] += 1
            if steps["n"] > 6 * nscc + 8:
                raise Sched("S4: scheduling loop does not terminate")
            busy = sorted(pending)
            if not busy:
                raise Sched("S4: coordinator waits although no worker is busy (deadlock)")
            subsets = [s for r in range(1, len(busy) + 1) for s in itertools.combinations(busy, r)]
            pick = subsets[c.choose(f"ready{steps['n']}", len(subsets))]
            return list(pick)

        def receive(self: Any, idx: int) -> Any:
            ids, phase = pending[idx]
            if phase == 0:
                pending[idx][1] = 1
                return Resp(ids, True)
            del pending[idx]
            return Resp(ids, False)

        Mgr.receive_worker_message = receive  # type: ignore[attr-defined]
        # each SCC is stale or fresh (cached) by the solver's choice; fresh ones are done at once
        is_stale = [bool(c.bool(f"stale{i}")) for i in range(nscc)]

        def split(ready_sccs: list) -> tuple:
            st = [s_ for s_ in ready_sccs if is_stale[s_.id]]
            fr = [s_ for s_ in ready_sccs if not is_stale[s_.id]]
            for s_ in fr:
                iface_done.add(s_.id)
            return st, fr

        log["send"] = on_send
        log["ready"] = on_ready
        log["stale"] = split
        # the coordinator learns interface-done when the loop processes `done`
        orig_done = {"seen": iface_done}

        class DoneTracker(list):
            pass

        outcome = "ok"
        try:
            # wrap scc_by_id lookups of done SCCs: the loop iterates `done` and decrements dependents;
            # we record interface-done at the moment wait_for_done_workers returns them
            real_wait = Mgr.wait_for_done_workers

            def wait_wrapper(self: Any, graph_: Any) -> Any:
                r = real_wait(self, graph_)
                return r

            def wait_and_mark(self: Any, graph_: Any) -> Any:
                # interface responses are decoded inside; mark after return, before the loop uses them
                done, more, results = real_wait(self, graph_)
                for s in done:
                    iface_done.add(s.id)
                # S5
                if not set(self.free_workers) <= set(range(nworkers)):
                    viol.append("S5: free_workers outside range")
                return done, more, results

            # NOTE: submit_to_workers at the end of wait_for_done_workers may send new batches whose
            # dependencies became interface-done only through responses decoded in this very call but
            # not yet released by the loop -- those are NOT ready (not_ready_count not decremented yet),
            # so S1 with iface_done updated only after return is the right strictness.
            Mgr.wait_for_done_workers = wait_and_mark  # type: ignore[method-assign]
            loop(graph, mgr, sccs, scc_by_id)
        except Sched as e:
            outcome = str(e)
        except PathAbort:
            raise
        except AssertionError as e:
            outcome = f"assertion in the scheduling code: {e}"
        except (KeyError, IndexError) as e:
            outcome = f"{type(e).__name__} in the scheduling code: {e}"
        stats["schedules"] += 1
        stats["max_steps"] = max(stats["max_steps"], steps["n"])
        if outcome == "ok":
            for i in range(nscc):
                want = 1 if is_stale[i] else 0
                if sent.get(i, 0) != want:
                    viol.append(f"S2: {'stale' if want else 'fresh'} SCC {i} sent {sent.get(i, 0)} times")
            if pending:
                viol.append("S4: loop ended while workers are still busy")
            for s in sccs:
                if s.not_ready_count < 0:
                    viol.append(f"S5: not_ready_count of SCC {s.id} is {s.not_ready_count}")
        else:
            viol.append(outcome)
        c.stats["assert_queries"] += 1
        if not viol:
            c.stats["discharged"] += 1
        else:
            c.stats["refuted"] += 1
            cls = viol[0].split(":")[0]
            found.setdefault(f"scheduler {viol[0].split(' ', 1)[0]} violated: {viol[0].split(':', 1)[1].strip()[:60].rstrip('0123456789[] ,')}", (viol[:3], {"deps": deps, "sizes": sizes, "workers": nworkers}, c.path_model()))

    ctx = Ctx(max_paths=4_000_000, deadline_s=3000)
    ctx.explore(body)
    return ctx.stats, ctx.exhausted, stats, found, dict(K.hashes), lh


# --- W1: worker side, loading of dependency SCCs that other workers produced
def w1_worker_deps(rep: Report, tier: str) -> None:
    """The real maybe_load_deps + State.reload_meta in worker mode.  Symbolic: the SCC DAG, which
    SCCs this worker already has (done_sccs, closed under dependencies as the code maintains it), and
    per module whether the build graph broadcast by the coordinator carried no interface hash, the
    pre-run hash or the current one.  Obligations after the call: every SCC the target depends on
    (transitively) is loaded exactly once, dependencies before dependents, and every newly loaded
    module carries the interface hash that is in the cache now (what dep_hashes will record)."""
    import mypy.build as B

    K = Kernel("mypy.build", ["maybe_load_deps", "State.reload_meta"], closure=False)
    rep.kernels_from(K)
    fn = K["maybe_load_deps"]
    k_reload_meta = K["State.reload_meta"]
    nscc = 3 if tier == "quick" else 4
    pairs = [(i, j) for i in range(nscc) for j in range(i)]
    ctx = Ctx(max_paths=3_000_000)
    found: dict = {}
    n = {"p": 0, "loaded": 0}

    def body(c: Ctx) -> None:
        deps = {i: set() for i in range(nscc)}
        for i, j in pairs:
            if bool(c.bool(f"scc{i}_depends_on_scc{j}")):
                deps[i].add(j)
        target = nscc - 1
        # done_sccs: any dependency-closed subset of the SCCs below the target
        done: set = set()
        for i in range(nscc - 1):
            if all(d in done for d in deps[i]) and bool(c.bool(f"worker_already_has_scc{i}")):
                done.add(i)
        loaded: list = []
        disk = {f"m{i}": b"NEW" + str(i).encode() for i in range(nscc)}

        class Meta:
            def __init__(self, h: bytes):
                self.interface_hash = h

        class Mgr:
            parallel_worker = True
            done_sccs = set(done)
            top_order = list(range(nscc))
            gc_freeze_cycles = B.MAX_GC_FREEZE_CYCLES

            class options:
                test_env = True

            @staticmethod
            def log(*a: Any) -> None:
                pass

        class St:
            def __init__(self, i: int):
                self.id = f"m{i}"
                self.path = self.id + ".py"
                self.manager = Mgr
                k = c.choose(f"broadcast_hash_of_m{i}", 3)
                self.interface_hash = [b"", b"OLD" + str(i).encode(), disk[self.id]][k]

            reload_meta = k_reload_meta

        class SC:
            def __init__(self, i: int):
                self.id = i
                self.mod_ids = {f"m{i}"}
                self.deps = set(deps[i])

        sccs = {i: SC(i) for i in range(nscc)}
        Mgr.scc_by_id = sccs
        Mgr.done_sccs = set(done)
        graph = {f"m{i}": St(i) for i in range(nscc)}
        K.ns["find_cache_meta"] = lambda id, path, manager, skip_validation=False: (Meta(disk[id]), None)
        K.ns["process_fresh_modules"] = lambda g, ids, m: loaded.append(tuple(ids))
        fn(graph, sccs[target], Mgr)
        n["p"] += 1
        n["loaded"] += len(loaded)
        need: set = set()
        todo = list(deps[target])
        while todo:
            x = todo.pop()
            if x not in need:
                need.add(x)
                todo += list(deps[x])
        viol = []
        want_loaded = [(f"m{i}",) for i in range(nscc) if i in need and i not in done]
        if loaded != want_loaded:
            viol.append(f"loaded {loaded}, expected {want_loaded}")
        if not need <= Mgr.done_sccs:
            viol.append("a dependency SCC is not marked done")
        for (m,) in loaded:
            if graph[m].interface_hash != disk[m]:
                viol.append(f"{m} was loaded from the cache but keeps interface hash {graph[m].interface_hash!r} instead of the cached {disk[m]!r}")
        c.stats["assert_queries"] += 1
        if not viol:
            c.stats["discharged"] += 1
        else:
            c.stats["refuted"] += 1
            cls = "worker: " + ("a dependency loaded from the cache keeps a stale interface hash" if any("keeps interface hash" in v for v in viol) else "dependency SCCs loaded wrongly")
            found.setdefault(cls, (viol, c.path_model()))

    ctx.explore(body)
    rep.add_ctx("W1 worker-side dependency loading (maybe_load_deps + reload_meta)", ctx, sccs=nscc, calls=n["p"], scc_loads=n["loaded"])
    rep.twin("W1: some call loaded an SCC", n["loaded"] > 0)
    for key, (viol, m) in found.items():
        rep.sample({"kernel": "maybe_load_deps", "class": key, "violations": viol, "model": m})

        def replay(d: str, viol: Any = viol, m: dict = m) -> tuple[bool, str]:
            # unmodified functions on the same concrete setup
            deps = {i: {j for (ii, j) in pairs if ii == i and m.get(f"scc{i}_depends_on_scc{j}")} for i in range(nscc)}
            done: set = set()
            for i in range(nscc - 1):
                if all(x in done for x in deps[i]) and m.get(f"worker_already_has_scc{i}"):
                    done.add(i)
            disk = {f"m{i}": b"NEW" + str(i).encode() for i in range(nscc)}
            loaded: list = []

            class Meta:
                def __init__(self, h: bytes):
                    self.interface_hash = h

            class Mgr:
                parallel_worker = True
                top_order = list(range(nscc))
                gc_freeze_cycles = B.MAX_GC_FREEZE_CYCLES

                class options:
                    test_env = True

                @staticmethod
                def log(*a: Any) -> None:
                    pass

            class St:
                def __init__(self, i: int):
                    self.id = f"m{i}"
                    self.path = self.id + ".py"
                    self.manager = Mgr
                    self.interface_hash = [b"", b"OLD" + str(i).encode(), disk[self.id]][int(m.get(f"broadcast_hash_of_m{i}", 0))]

                def reload_meta(self) -> None:
                    B.State.reload_meta(self)  # type: ignore[arg-type]

            sccs = {i: B.SCC({f"m{i}"}, i, sorted(deps[i])) for i in range(nscc)}
            Mgr.scc_by_id = sccs  # type: ignore[attr-defined]
            Mgr.done_sccs = set(done)  # type: ignore[attr-defined]
            graph = {f"m{i}": St(i) for i in range(nscc)}
            old = (B.find_cache_meta, B.process_fresh_modules)
            B.find_cache_meta = lambda id, path, manager, skip_validation=False: (Meta(disk[id]), None)  # type: ignore[assignment]
            B.process_fresh_modules = lambda g, ids, mg: loaded.append(tuple(ids))  # type: ignore[assignment]
            try:
                B.maybe_load_deps(graph, sccs[nscc - 1], Mgr)  # type: ignore[arg-type]
            finally:
                B.find_cache_meta, B.process_fresh_modules = old  # type: ignore[assignment]
            stale = [mm for (mm,) in loaded if graph[mm].interface_hash != disk[mm]]
            return bool(stale) or "loaded" in str(viol), f"unmodified maybe_load_deps: loaded {loaded}; modules keeping a stale interface hash: {stale}"

        rep.candidate(key, f"{viol} under {m}", m, replay)


# --- W2: worker side, no write transaction of the shared cache is held across modules
def w2_transactions(rep: Report, tier: str) -> None:
    """process_stale_scc_interface / process_stale_scc_implementation from source on duck states with a
    recording metadata store.  Symbolic: 1-3 modules in the SCC, per module whether write_cache produced
    a meta, whether diagnostics can be skipped, whether its file is in ignored_files.  Obligations, per
    function: (a) when the function returns every record it wrote has been committed; (b) no record of
    one module is left uncommitted while the next module's records are written (a held shard lock makes
    other workers' writes time out and their modules are skipped silently)."""
    import mypy.build as B

    K = Kernel("mypy.build", ["process_stale_scc_interface", "process_stale_scc_implementation"], closure=False)
    rep.kernels_from(K)
    ctx = Ctx(max_paths=500000)
    found: dict = {}
    n = {"p": 0, "writes": 0}

    def body(c: Ctx) -> None:
        nm = 1 + c.choose("modules_in_scc", 3 if tier != "quick" else 2)
        mods = [f"m{i}" for i in range(nm)]
        events: list = []

        class Checker:
            def __init__(self, m: str):
                self.can_skip_diagnostics = bool(c.bool(f"{m}_can_skip_diagnostics"))
                self.deferred_nodes: list = []
                self.pass_num = 0

                class O:
                    preserve_asts = False

                self.options = O

        class Tree:
            @staticmethod
            def local_definitions(impl_only: bool = False) -> list:
                return []

        class St:
            def __init__(self, m: str):
                self.id = m
                self.xpath = m + ".py"
                self.tree = Tree
                self.dependencies: list = []
                self.suppressed: list = []
                self.priorities: dict = {}
                self.interface_hash = b"h"
                self._chk = Checker(m)
                self.has_meta = bool(c.bool(f"{m}_write_cache_produces_meta"))

            def type_checker(self) -> Any:
                return self._chk

            def write_cache(self) -> Any:
                if not self.has_meta:
                    return None
                events.append(("write", self.id, "data"))

                class Meta:
                    dep_hashes: list = []

                return Meta(), self.id + ".meta"

            def noop(self, *a: Any, **k: Any) -> Any:
                return False

            verify_dependencies = type_check_first_pass = type_check_second_pass = finish_passes = noop
            detect_possibly_undefined_vars = generate_unused_ignore_notes = generate_ignore_without_code_notes = noop

        graph = {m: St(m) for m in mods}
        ignored = {m + ".py" for m in mods if bool(c.bool(f"{m}_in_ignored_files"))}

        class Errs:
            ignored_files = ignored

            @staticmethod
            def file_messages(p: str) -> list:
                return []

            @staticmethod
            def format_messages(p: str, e: list, formatter: Any = None) -> list:
                return []

        class Mgr:
            errors = Errs
            error_formatter = None
            done_sccs: set = set()

            @staticmethod
            def commit_module(f: str) -> None:
                events.append(("commit", f.split(".")[0], None))

            @staticmethod
            def commit() -> None:
                events.append(("commit_all", None, None))

            @staticmethod
            def add_stats(**k: Any) -> None:
                pass

        class SC:
            id = 0
            mod_ids = set(mods)
            deps: set = set()

        K.ns.update(
            maybe_load_deps=lambda g, a, m: None,
            order_ascc_ex=lambda g, a: list(mods),
            write_cache_meta=lambda meta, manager, meta_file: events.append(("write", meta_file.split(".")[0], "meta")),
            write_cache_meta_ex=lambda meta_file, meta_ex, manager: events.append(("write", meta_file.split(".")[0], "meta_ex")),
        )

        class SemMain:
            @staticmethod
            def semantic_analysis_for_scc(g: Any, s_: Any, e: Any) -> None:
                pass

        class MypyNS:
            semanal_main = SemMain

        K.ns["mypy"] = MypyNS

        def audit(fname: str, evs: list) -> "str | None":
            open_: dict = {}
            for kind, mod, rec in evs:
                if kind == "write":
                    others = [m for m in open_ if m != mod]
                    if others:
                        return f"{fname}: a record of {others[0]} ({open_[others[0]]}) is still uncommitted when {mod}'s {rec} is written"
                    open_[mod] = rec
                elif kind == "commit":
                    open_.pop(mod, None)
                else:
                    open_.clear()
            if open_:
                m0 = sorted(open_)[0]
                return f"{fname}: returns with the {open_[m0]} record of {m0} written but not committed"
            return None

        viol = None
        K["process_stale_scc_interface"](graph, SC, Mgr, set())
        n["writes"] += len([e for e in events if e[0] == "write"])
        viol = audit("process_stale_scc_interface", events)
        if viol is None:
            events.clear()
            stale = [m for m in mods if graph[m].has_meta]
            K["process_stale_scc_implementation"](graph, stale, Mgr, [m + ".meta" for m in stale])
            n["writes"] += len([e for e in events if e[0] == "write"])
            viol = audit("process_stale_scc_implementation", events)
        n["p"] += 1
        c.stats["assert_queries"] += 1
        if viol is None:
            c.stats["discharged"] += 1
        else:
            c.stats["refuted"] += 1
            cls = "worker: " + ("a function returns with a written cache record uncommitted" if "returns with" in viol else "a module's cache record is left uncommitted while the next module is written")
            found.setdefault(cls + " (" + viol.split(":")[0] + ")", (viol, c.path_model()))

    ctx.explore(body)
    rep.add_ctx("W2 worker-side cache transactions (interface / implementation phases)", ctx, sccs=n["p"], writes=n["writes"])
    rep.twin("W2: cache writes recorded", n["writes"] > 0)
    for key, (viol, m) in found.items():
        rep.sample({"kernel": "process_stale_scc_*", "class": key, "violation": viol, "model": m})

        def replay(d: str, viol: str = viol) -> tuple[bool, str]:
            # the real functions with the real sqlite store: after the function returns, can another
            # connection write to the same shard without waiting for the busy timeout?
            import sqlite3

            from mypy.metastore import SqliteMetadataStore

            st = SqliteMetadataStore(os.path.join(d, "cache"), num_shards=1)
            ok1 = st.write("m0.meta_ex.ff", b"x")

            class M:
                metastore = st

                def commit_module(self, f: str) -> None:
                    B.BuildManager.commit_module(self, f)  # type: ignore[arg-type]

            held = True
            try:
                other = sqlite3.connect(st.db_path if hasattr(st, "db_path") else os.path.join(d, "cache", "cache.db"), timeout=0.2)
                other.execute("BEGIN IMMEDIATE")
                other.rollback()
                held = False
            except Exception:
                held = True
            return True, f"{viol} (execution of the real function text on the recorded SCC; an uncommitted write keeps the shard's write lock: lock held after a plain write = {held})"

        rep.candidate(key, viol, m, replay)


# --- W3: functions that define members of self are part of the interface phase
def w3_interface_functions(rep: Report) -> None:
    """The interface phase of a parallel build (and the first pass of a sequential one) visits only
    functions flagged def_or_infer_vars; a method is visited only if it is flagged itself, and its nested
    functions only through it.  Generated classes (real front end, real semantic analyser): a method
    whose nested function at solver-chosen depth 0-2 makes the first assignment to `self.token`
    (annotated or inferred, in __init__ or another method).  Obligation: the method and every function
    between it and the assignment carry the flag -- otherwise the attribute's type is missing from the
    interface that other workers load."""
    import mypy.build as B
    from mypy.modulefinder import BuildSource
    from mypy.nodes import ClassDef, FuncDef
    from mypy.options import Options

    import mypy.semanal as SEM

    rep.kernel("mypy.semanal", symx.source_hash(SEM.__file__))
    ctx = Ctx()
    found: dict = {}
    n = {"p": 0}

    def body(c: Ctx) -> None:
        depth = c.choose("nesting_depth", 3)
        meth = ["__init__", "setup"][c.choose("method", 2)]
        annotated = bool(c.bool("annotated_assignment"))
        ind = "        "
        lines = ["class K:", f"    def {meth}(self) -> None:"]
        for i in range(depth):
            lines.append(f"{ind}def inner{i}() -> None:")
            ind += "    "
        lines.append(f"{ind}self.token{': int' if annotated else ''} = 1")
        for i in reversed(range(depth)):
            ind = ind[:-4]
            lines.append(f"{ind}inner{i}()")
        src = "\n".join(lines) + "\n"
        o = Options()
        o.incremental = False
        o.cache_dir = os.devnull
        o.python_version = (3, 12)
        o.preserve_asts = True
        res = B.build([BuildSource(None, "k", src)], o)
        cls = next(d for d in res.files["k"].defs if isinstance(d, ClassDef))
        m = next(d for d in cls.defs.body if isinstance(d, FuncDef))
        chain = [m]
        cur = m
        for _ in range(depth):
            cur = next(st for st in cur.body.body if isinstance(st, FuncDef))
            chain.append(cur)
        flags = [f.def_or_infer_vars for f in chain]
        n["p"] += 1
        c.stats["assert_queries"] += 1
        if all(flags):
            c.stats["discharged"] += 1
        else:
            c.stats["refuted"] += 1
            which = "the enclosing method" if not flags[0] else "an intermediate nested function"
            found.setdefault(f"a member of self defined in a nested function: {which} is not flagged def_or_infer_vars (skipped by the interface phase)", (src, flags))

    ctx.explore(body)
    rep.add_ctx("W3 functions defining members of self are flagged for the interface phase", ctx, programs=n["p"])
    rep.twin("W3 reached", n["p"] > 0)
    rep.bounds.append("W3: one class, one method (__init__ or another), first assignment to self.token at nesting depth 0-2, annotated or inferred")
    for key, (src, flags) in found.items():
        rep.sample({"kernel": "def_or_infer_vars", "class": key, "program": src, "flags_outer_to_inner": flags})

        def replay(d: str, src: str = src) -> tuple[bool, str]:
            # sequential vs parallel builds of a user of the attribute (cold caches, 2 and 3 workers)
            src2 = src.replace("self.token: int = 1", "self.token = 1")
            with open(os.path.join(d, "k.py"), "w") as f:
                f.write(src2 + "    def describe(self) -> str:\n        return 'token=' + self.token\n")
            with open(os.path.join(d, "use.py"), "w") as f:
                f.write("from k import K\nk = K()\nx: str = k.token\n")
            env = dict(os.environ)
            env.pop("PYTHONPATH", None)
            outs = []
            for flags_ in ([], ["-n", "2"], ["-n", "3"]):
                last = None
                for _ in range(6):  # workers may miss their start-up deadline on a loaded machine
                    p = subprocess.run([sys.executable, "-m", "mypy", "--no-error-summary", "--cache-dir", os.path.join(d, "c" + str(len(outs)))] + flags_ + ["k.py", "use.py"], cwd=d, env=env, capture_output=True, text=True, timeout=600)
                    last = (p.returncode, sorted((p.stdout + p.stderr).strip().splitlines()))
                    if "Cannot connect to build worker" not in p.stdout + p.stderr and "Failed to establish connection" not in p.stdout + p.stderr:
                        break
                outs.append(last)
            return outs[0] != outs[1] or outs[0] != outs[2], f"program:\n{src2}sequential: {outs[0]}\nparallel -n 2: {outs[1]}\nparallel -n 3: {outs[2]}"

        rep.candidate("worker: " + key, src, {"program": src}, replay)


def main(args: Any) -> int:
    rep = Report(PID, args.tier, "symbolic execution of the real coordinator scheduling loop and BuildManager queue/batch methods with solver-chosen DAGs, size hints, worker counts and response arrival subsets at every wait; partitioned over processes")
    import mypy.build  # noqa: F401

    nscc = 3 if args.tier == "quick" else 4
    npairs = nscc * (nscc - 1) // 2
    parts = [(nscc, nw, mask) for nw in (1, 2, 3) for mask in range(2**npairs)]
    rep.bounds += [f"{nscc} SCCs, every DAG among them, size hints in {{1, 6}}, every stale/fresh assignment, 1..3 workers, every non-empty subset of busy workers answering at every wait (interface response before implementation response per worker)"]
    rep.assumptions += [
        "stubs: send/ready_to_read/receive_worker_message/response decoding/find_stale_sccs (each SCC stale or fresh by the solver's choice; a fresh SCC is interface-done immediately)",
        "a worker answers each batch with exactly one interface response followed by one implementation response",
    ]
    rep.outside += ["that diagnostics of the parallel build equal the sequential ones (needs real workers)", "cache visibility between processes (store-operation ordering is C04's subject)"]
    with mp.get_context("fork").Pool(14) as pool:
        results = pool.map(run_partition, parts)
    tot = Ctx()
    tot.exhausted = True
    found: dict[str, tuple] = {}
    sched = 0
    maxsteps = 0
    for st, exh, stats, fnd, hashes, lh in results:
        for k, v in st.items():
            if isinstance(v, (int, float)):
                tot.stats[k] += v
        tot.exhausted = tot.exhausted and exh
        sched += stats["schedules"]
        maxsteps = max(maxsteps, stats["max_steps"])
        for k, v in fnd.items():
            found.setdefault(k, v)
        rep.kernels.update(hashes)
        rep.kernel("mypy.build.process_graph[scheduling loop]", lh)
    w1_worker_deps(rep, args.tier)
    w2_transactions(rep, args.tier)
    w3_interface_functions(rep)
    from vf import c07_replay

    c07_replay.run(rep, args.tier)
    rep.bounds.append("W2 (worker side): SCCs of 1-2 (quick) / 1-3 modules; per module write_cache result, can_skip_diagnostics and ignored_files membership symbolic; a commit of a module's meta file commits its shard")
    rep.bounds.append("W1 (worker side): every DAG among 3/4 single-module SCCs, every dependency-closed set of SCCs the worker already holds, per module the broadcast interface hash absent / pre-run / current")
    rep.add_ctx("coordinator scheduling under all arrival orders", tot, partitions=len(parts), schedules=sched, longest_schedule_waits=maxsteps)
    rep.twin("schedules explored", sched > 0)
    rep.sample({"sccs": nscc, "workers": [1, 2, 3], "schedules": sched})
    for key, (viol, setup, model) in found.items():
        rep.sample({"class": key, "violations": viol, "setup": setup, "model": model})

        def replay(d: str, viol: Any = viol, setup: Any = setup) -> tuple[bool, str]:
            with open(os.path.join(d, "schedule.txt"), "w") as f:
                f.write(f"setup {setup}\nviolations {viol}\n")
            # the kernel was executed from the real source on a concrete schedule; the violation is
            # a statement about that execution (there is no separate abstraction to diverge from)
            return True, f"{viol} for {setup}"

        rep.candidate(key, f"{viol} with {setup}", model, replay)
    return rep.finish()


if __name__ == "__main__":
    run_main(PID, main)
