"""C03 (narrow): the daemon's change detection and snapshot differ.

K1 FileSystemWatcher._find_changed / _update on a stub file system: old FileData, new stat
   (real-valued mtime, size), new hash, existence all symbolic; two-step history.
K2 astdiff.compare_symbol_table_snapshots on symbolic snapshots (presence, kinds, opaque
   payload tokens, one nested class table).

Outside the claim: dependency generation, AST merge/strip, propagation (whole-program).
"""

from __future__ import annotations

import os
import shutil
import subprocess
import sys
from typing import Any

import z3

from vf import symx
from vf.report import Report, run_main, scratch
from vf.symx import Ctx, Kernel, PathAbort, SymBool, SymInt, Unsupported

PID = "C03"


class _St:
    def __init__(self, mtime: Any, size: Any):
        self.st_mtime = mtime
        self.st_size = size


def k1_fswatcher(rep: Report) -> None:
    import mypy.fswatcher as FW

    K = Kernel("mypy.fswatcher", ["FileSystemWatcher._find_changed", "FileSystemWatcher._update"], closure=False)
    rep.kernels_from(K)
    find_changed = K["FileSystemWatcher._find_changed"]
    update = K["FileSystemWatcher._update"]
    ctx = Ctx()
    classes: dict[str, tuple] = {}
    reached = {"n": 0}

    def body(c: Ctx) -> None:
        old_exists = bool(c.bool("old_exists"))
        new_exists = bool(c.bool("new_exists"))
        old_mtime = c.real("old_mtime")
        new_mtime = c.real("new_mtime")
        c.solver.add(old_mtime.t >= 0, new_mtime.t >= 0)
        old_size = c.int("old_size", 0)
        new_size = c.int("new_size", 0)
        old_hash = c.tok("old_hash", "Hash")
        new_hash = c.tok("new_hash", "Hash")

        class FS:
            @staticmethod
            def stat_or_none(path: str) -> Any:
                return _St(new_mtime, new_size) if new_exists else None

            @staticmethod
            def hash_digest(path: str) -> Any:
                return new_hash

        class W:
            fs = FS
            _paths = {"a.py"}
            _file_data: dict = {}

            def _update(self, path: str, st: Any) -> None:
                update(self, path, st)

        w = W()
        w._file_data = {"a.py": FW.FileData(old_mtime, old_size, old_hash) if old_exists else None}
        # truth
        if old_exists and new_exists:
            changed = symx.Not(old_hash == new_hash)
            # contract: equal content => equal size; changed content => size or real mtime changed
            c.solver.add(z3.Implies(z3.Not(changed.t), old_size.t == new_size.t))
            c.solver.add(z3.Implies(changed.t, z3.Or(old_size.t != new_size.t, old_mtime.t != new_mtime.t)))
            if c._check() == "unsat":
                raise PathAbort()
        else:
            changed = SymBool(z3.BoolVal(old_exists != new_exists))
        res = find_changed(w, ["a.py"])
        reported = "a.py" in res
        reached["n"] += 1
        # A1: a changed file is reported
        c.stats["assert_queries"] += 1
        hit, model = c.feasible(z3.And(changed.t, z3.BoolVal(not reported)))
        if hit:
            c.stats["refuted"] += 1
            same_sec = model is not None
            key = f"fswatcher misses a changed file: old_exists={old_exists} new_exists={new_exists} (same size and same whole-second mtime)" if (old_exists and new_exists) else f"fswatcher misses appearance/disappearance old_exists={old_exists} new_exists={new_exists}"
            if old_exists and new_exists:
                # refine the class: is a miss possible with different size or different int(mtime)?
                for what, cond in (("size differs", old_size.t != new_size.t), ("whole-second mtime differs", (symx.s_int(old_mtime) == symx.s_int(new_mtime)).t == False)):  # noqa: E712
                    h2, m2 = c.feasible(z3.And(changed.t, z3.BoolVal(not reported), cond))
                    if h2:
                        classes.setdefault(f"fswatcher misses a changed file although {what}", (m2, old_exists, new_exists))
            classes.setdefault(key, (model, old_exists, new_exists))
        else:
            c.stats["discharged"] += 1
        # A2: bookkeeping after the step describes the file as it is now, whenever it was reported
        data = w._file_data["a.py"]
        if not new_exists:
            c.check(data is None, "bookkeeping: deleted file recorded as absent")
        elif reported or not old_exists:
            ok = data is not None
            if ok:
                c.check(symx.And(data.hash == new_hash, data.st_size == new_size, data.st_mtime == new_mtime), "bookkeeping: reported file recorded with its current (mtime, size, hash)")
            else:
                c.check(False, "bookkeeping: existing file recorded as absent")

    ctx.explore(body)
    rep.add_ctx("K1 fswatcher._find_changed", ctx, result_paths=reached["n"])
    rep.twin("K1: _find_changed returned on some path", reached["n"] > 0)
    for cx in ctx.cex:
        classes.setdefault("fswatcher " + cx.label, (cx.model, None, None))
    for key, (model, oe, ne) in classes.items():
        rep.sample({"kernel": "fswatcher._find_changed", "class": key, "model": model})
        rep.candidate(key, f"change not detected / bookkeeping wrong for {model}", model, replay_daemon(model, key))


DAEMON_REPLAY = r'''
import os, subprocess, sys
w = sys.argv[1]
os.makedirs(w, exist_ok=True)
os.chdir(w)
T0 = 1_700_000_000
def put(src, frac):
    open("a.py", "w").write(src)
    t = int((T0 + frac) * 1e9)
    os.utime("a.py", ns=(t, t))
from mypy.dmypy_server import Server
from mypy.options import Options
from mypy.modulefinder import BuildSource
o = Options()
o.incremental = False
o.cache_dir = os.devnull
o.fine_grained_incremental = True
o.use_fine_grained_cache = False
o.error_summary = False
srv = Server(o, "status.json")
src = [BuildSource("a.py", "a", None)]
put({src1!r}, {f1})
r1 = srv.check(src, False, False, 80)
put({src2!r}, {f2})
r2 = srv.check(src, False, False, 80)
env = dict(os.environ); env.pop("PYTHONPATH", None)
p = subprocess.run([sys.executable, "-m", "mypy", "--no-incremental", "--cache-dir=" + os.devnull, "--no-error-summary", "a.py"], capture_output=True, text=True, env=env)
print("daemon 1:", r1["status"], r1["out"].strip())
print("daemon 2:", r2["status"], r2["out"].strip())
print("fresh   :", p.returncode, p.stdout.strip())
print("DIFFERENT" if (r2["status"], r2["out"].strip()) != (p.returncode, p.stdout.strip()) else "SAME")
'''


def replay_daemon(model: dict[str, Any], key: str):
    def replay(d: str) -> tuple[bool, str]:
        if "same size and same whole-second" not in key:
            return False, "no end-to-end replay for this class"

        def frac(x: Any) -> float:
            x = float(x)
            return round(x - int(x), 3)

        f1, f2 = frac(model.get("old_mtime", 0.1)), frac(model.get("new_mtime", 0.6))
        if f1 == f2:
            f2 = f1 + 0.001
        script = DAEMON_REPLAY.format(src1="x: int = 1\n", src2="x: str = 1\n", f1=f1, f2=f2)
        with open(os.path.join(d, "replay.py"), "w") as f:
            f.write(script)
        work = scratch("c03-")
        try:
            env = dict(os.environ)
            env.pop("PYTHONPATH", None)
            p = subprocess.run([sys.executable, os.path.join(d, "replay.py"), work], capture_output=True, text=True, timeout=300, env=env)
        finally:
            shutil.rmtree(work, ignore_errors=True)
        last = p.stdout.strip().splitlines()[-1] if p.stdout.strip() else ""
        return last == "DIFFERENT", (p.stdout[-700:] if p.stdout else "driver failed: " + p.stderr[-500:])

    return replay


def k2_astdiff(rep: Report, tier: str) -> None:
    K = Kernel("mypy.server.astdiff", ["compare_symbol_table_snapshots"], closure=False)
    rep.kernels_from(K)
    fn = K["compare_symbol_table_snapshots"]
    names = ["a", "b"] if tier == "quick" else ["a", "b", "c"]
    kinds = ["Var", "Func", "TypeInfo"]
    ctx = Ctx(max_paths=2_000_000)
    found: dict[str, Any] = {}
    done = {"n": 0}

    def mk_side(c: Ctx, side: int, prefix: str, names_: list[str], depth: int) -> tuple[dict, dict]:
        """returns (snapshot, description)"""
        snap: dict = {}
        desc: dict = {}
        for nm in names_:
            tag = f"{prefix}{nm}_{side}"
            if not bool(c.bool("has_" + tag)):
                continue
            k = kinds[c.choose("kind_" + tag, 3 if depth == 0 else 2)]
            pay = c.tok("pay_" + tag, "Item")
            if k == "TypeInfo":
                sub, subd = mk_side(c, side, prefix + nm + ".", ["m"], depth + 1)
                snap[nm] = ("TypeInfo", pay, sub)
                desc[nm] = ("TypeInfo", pay, subd)
            else:
                snap[nm] = (k, pay)
                desc[nm] = (k, pay)
        return snap, desc

    def spec(prefix: str, d1: dict, d2: dict) -> set[str]:
        out: set[str] = set()
        for nm in set(d1) | set(d2):
            full = f"{prefix}.{nm}"
            if (nm in d1) != (nm in d2):
                out.add(full)
                continue
            i1, i2 = d1[nm], d2[nm]
            if i1[0] != i2[0]:
                out.add(full)
            elif i1[0] == "TypeInfo":
                if not (i1[1] == i2[1]):
                    out.add(full)
                out |= spec(full, i1[2], i2[2])
            else:
                if not (i1[1] == i2[1]):
                    out.add(full)
        return out

    def body(c: Ctx) -> None:
        s1, d1 = mk_side(c, 1, "", names, 0)
        s2, d2 = mk_side(c, 2, "", names, 0)
        got = fn("mod", s1, s2)
        want = spec("mod", d1, d2)
        done["n"] += 1
        c.stats["assert_queries"] += 1
        if got == want:
            c.stats["discharged"] += 1
        else:
            c.stats["refuted"] += 1
            found.setdefault("compare_symbol_table_snapshots differs from the specification", (c.path_model(), sorted(got), sorted(want)))

    ctx.explore(body)
    rep.add_ctx("K2 astdiff.compare_symbol_table_snapshots", ctx, names=names)
    rep.twin("K2: compare returned on some path", done["n"] > 0)
    for key, (model, got, want) in found.items():
        rep.sample({"kernel": "compare_symbol_table_snapshots", "model": model, "got": got, "want": want})

        def replay(d: str, model: Any = model, got: Any = got, want: Any = want) -> tuple[bool, str]:
            # rebuild concrete snapshots from the model and call the unmodified function
            import mypy.server.astdiff as AD

            def side(sidx: int, prefix: str, names_: list[str], depth: int) -> dict:
                snap: dict = {}
                for nm in names_:
                    tag = f"{prefix}{nm}_{sidx}"
                    if not model.get("has_" + tag):
                        continue
                    k = kinds[model.get("kind_" + tag, 0)]
                    pay = str(model.get("pay_" + tag))
                    if k == "TypeInfo":
                        snap[nm] = ("TypeInfo", pay, side(sidx, prefix + nm + ".", ["m"], depth + 1))
                    else:
                        snap[nm] = (k, pay)
                return snap

            s1, s2 = side(1, "", names, 0), side(2, "", names, 0)
            real = AD.compare_symbol_table_snapshots("mod", s1, s2)
            with open(os.path.join(d, "replay.py"), "w") as f:
                f.write(f"import mypy.server.astdiff as AD\nprint(sorted(AD.compare_symbol_table_snapshots('mod', {s1!r}, {s2!r})))\n# expected: {want}\n")
            return sorted(real) != want, f"snapshots {s1} vs {s2}: got {sorted(real)}, expected {want}"

        rep.candidate(key, f"triggered names {got} != expected {want}", model, replay)


# --- K3: snapshot_symbol_table / snapshot_definition are sensitive to the externally visible attributes
VISIBLE = {
    # node kind -> attributes of the node whose change alters how *other* modules are checked
    "Var": ["is_final"],
    "Func": ["is_property", "is_final", "is_class", "is_static"],
    "TypeInfo": ["is_abstract", "is_enum", "is_protocol", "fallback_to_any", "is_named_tuple", "is_newtype"],
    "Moduleref": [],
    "CrossRef": [],
}


def _mk_symbol(kind: str, vals: dict) -> Any:
    """A real SymbolTableNode around a real node of the requested kind; `vals` maps attribute -> value
    (symbolic in the kernel, concrete in the replay)."""
    from mypy import nodes as N
    from mypy.types import AnyType, TypeOfAny

    if kind == "Var":
        node: Any = N.Var("x", AnyType(TypeOfAny.special_form))
        node._fullname = "m.x"
    elif kind == "Func":
        node = N.FuncDef("x", [], N.Block([]))
        node._fullname = "m.x"
    elif kind == "TypeInfo":
        node = N.TypeInfo(N.SymbolTable(), N.ClassDef("x", N.Block([])), "m")
        node._fullname = "m.x"
        node.mro = [node]
    elif kind == "Moduleref":
        node = N.MypyFile([], [])
        node._fullname = "other"
    else:  # CrossRef: a definition that lives in another module
        node = N.Var("x", AnyType(TypeOfAny.special_form))
        node._fullname = "other.x"
    for a in VISIBLE[kind]:
        setattr(node, a, vals[a])
    sym = N.SymbolTableNode(vals["kind"], node)
    sym.module_public = vals["module_public"]
    sym.module_hidden = vals["module_hidden"]
    return sym


def k3_snapshot(rep: Report) -> None:
    from mypy import nodes as N

    K = Kernel("mypy.server.astdiff", ["snapshot_symbol_table", "snapshot_definition"], closure=False)
    rep.kernels_from(K)
    fn = K["snapshot_symbol_table"]
    K.ns["snapshot_definition"] = K["snapshot_definition"]
    K.ns["snapshot_symbol_table"] = fn
    found: dict[str, Any] = {}
    n = {"p": 0, "same": 0}

    def struct_eq(x: Any, y: Any) -> Any:
        if symx.is_sym(x) or symx.is_sym(y):
            if isinstance(x, (SymBool, bool)) and isinstance(y, (SymBool, bool)):
                return symx.to_z3bool(x) == symx.to_z3bool(y)
            return symx.to_z3int(x) == symx.to_z3int(y)
        if isinstance(x, (tuple, list)) and isinstance(y, (tuple, list)):
            if len(x) != len(y) or type(x) is not type(y):
                return z3.BoolVal(False)
            return z3.And(*[struct_eq(a, b) for a, b in zip(x, y)]) if len(x) else z3.BoolVal(True)
        if isinstance(x, dict) and isinstance(y, dict):
            if set(x) != set(y):
                return z3.BoolVal(False)
            return z3.And(*[struct_eq(x[k], y[k]) for k in x]) if x else z3.BoolVal(True)
        return z3.BoolVal(x == y)

    for kind in VISIBLE:
        ctx = Ctx()

        def body(c: Ctx, kind: str = kind) -> None:
            tables = []
            pairs = []
            for side in ("old", "new"):
                vals: dict = {a: c.bool(f"{side}.{a}") for a in VISIBLE[kind]}
                vals["module_public"] = c.bool(f"{side}.module_public")
                vals["module_hidden"] = c.bool(f"{side}.module_hidden")
                vals["kind"] = c.int(f"{side}.kind", N.LDEF, N.MDEF)  # LDEF / GDEF / MDEF
                tables.append({"x": _mk_symbol(kind, vals)})
                pairs.append(vals)
            s_old = fn("m", tables[0])
            s_new = fn("m", tables[1])
            n["p"] += 1
            same = struct_eq(s_old, s_new)
            if c.feasible(same):
                n["same"] += 1
            for a in VISIBLE[kind] + ["module_public", "kind"]:
                va, vb = pairs[0][a], pairs[1][a]
                eqv = (va.t == vb.t)
                ok = c.check(z3.Implies(same, eqv), f"{kind}: equal snapshots => equal {a}")
                if not ok and c.cex:
                    found.setdefault(f"snapshot_symbol_table does not record the externally visible attribute {a} of a {kind} symbol", (kind, a, c.cex[-1].model))

        ctx.explore(body)
        rep.add_ctx(f"K3 snapshot sensitivity: {kind}", ctx, visible=VISIBLE[kind] + ["module_public", "kind"])
    rep.twin("K3: snapshots computed and equal snapshots feasible", n["p"] > 0 and n["same"] > 0)
    for key, (kind, attr, m) in found.items():
        rep.sample({"kernel": "snapshot_symbol_table", "class": key, "model": m})

        def replay(d: str, kind: str = kind, attr: str = attr, m: dict = m) -> tuple[bool, str]:
            import mypy.server.astdiff as AD

            def side(tag: str) -> dict:
                vals: dict = {a: bool(m.get(f"{tag}.{a}", False)) for a in VISIBLE[kind]}
                vals["module_public"] = bool(m.get(f"{tag}.module_public", False))
                vals["module_hidden"] = bool(m.get(f"{tag}.module_hidden", False))
                vals["kind"] = int(m.get(f"{tag}.kind", N.GDEF))
                return vals

            va, vb = side("old"), side("new")
            sa = AD.snapshot_symbol_table("m", {"x": _mk_symbol(kind, va)})  # type: ignore[arg-type]
            sb = AD.snapshot_symbol_table("m", {"x": _mk_symbol(kind, vb)})  # type: ignore[arg-type]
            trig = AD.compare_symbol_table_snapshots("m", sa, sb)
            bad = va[attr] != vb[attr] and not trig
            return bad, f"{kind} symbol m.x with {attr} {va[attr]} -> {vb[attr]} (old {va}, new {vb}): triggers fired {sorted(trig)}; snapshots {'equal' if sa == sb else 'differ'}"

        rep.candidate(key, f"{kind}.{attr}: {m}", m, replay)


# --- K4: which triggers DependencyVisitor.add_dependency refuses to record
LIBRARY_MODULES = ["builtins", "typing", "mypy_extensions", "typing_extensions"]


def k4_add_dependency(rep: Report) -> None:
    from vf.bstr import bstr

    K = Kernel("mypy.server.deps", ["DependencyVisitor.add_dependency"], closure=False)
    rep.kernels_from(K)
    fn = K["DependencyVisitor.add_dependency"]
    ctx = Ctx()
    found: dict[str, Any] = {}
    n = {"kept": 0, "dropped": 0}

    def body(c: Ctx) -> None:
        trig = bstr(c, "trigger", 22, minlen=1)
        recorded: list = []

        class Map:
            def setdefault(self, k: Any, d: Any) -> Any:
                recorded.append(k)
                return d

        class Scope:
            @staticmethod
            def current_target() -> str:
                return "m.f"

        class Self:
            map = Map()
            scope = Scope

        fn(Self(), trig)
        kept = bool(recorded)
        n["kept" if kept else "dropped"] += 1
        # comment in the function: only dependencies *to the library modules* builtins, typing,
        # mypy_extensions, typing_extensions are not tracked; the trigger of a name defined in
        # module M is "<M.name...>"
        is_library = z3.Or(*[trig.startswith("<" + m + ".").t for m in LIBRARY_MODULES])
        if kept:
            ok = c.check(z3.Not(is_library), "recorded => not a library-module trigger")
        else:
            ok = c.check(is_library, "dropped => the trigger names something inside one of the four library modules")
        if not ok and c.cex:
            m = c.cex[-1].model
            found.setdefault("add_dependency drops a trigger that does not belong to builtins/typing/mypy_extensions/typing_extensions" if not kept else "add_dependency records a library-module trigger", (None, m, kept))

    ctx.explore(body)
    rep.add_ctx("K4 deps.DependencyVisitor.add_dependency", ctx, outcomes=dict(n))
    rep.twin("K4: kept and dropped both reached", n["kept"] > 0 and n["dropped"] > 0)
    for key, (tv, m, kept) in found.items():
        rep.sample({"kernel": "add_dependency", "class": key, "model": m})

        def replay(d: str, m: dict = m, kept: bool = kept) -> tuple[bool, str]:
            import mypy.server.deps as D

            t = m.get("trigger")
            if not isinstance(t, str):
                return False, f"no concrete trigger in the model: {m}"

            class Scope:
                @staticmethod
                def current_target() -> str:
                    return "m.f"

            class Self:
                map: dict = {}
                scope = Scope

            o = Self()
            o.map = {}
            D.DependencyVisitor.add_dependency(o, t)  # type: ignore[arg-type]
            lib = any(t.startswith("<" + x + ".") for x in LIBRARY_MODULES)
            return (t in o.map) == lib, f"trigger {t!r}: {'recorded' if t in o.map else 'dropped'}; belongs to a library module: {lib}"

        rep.candidate(key, f"trigger {m.get('trigger')!r}", m, replay)


# --- K5: subtype caches do not survive a change of a class's bases
def k5_mro_cache(rep: Report) -> None:
    """mro.calculate_mro (run from source) with the real TypeState: before the edit a subtype question
    `C <: S` was answered and cached (positively or negatively, solver-chosen) for some class S; the edit
    changes C's bases (solver-chosen old and new base lists over classes B1, B2, object); after
    calculate_mro no cached answer about C against any class of its new MRO may remain, in either cache."""
    from mypy.nodes import Block, ClassDef, SymbolTable, TypeInfo
    from mypy.types import Instance
    from mypy.typestate import type_state

    K = Kernel("mypy.mro", ["calculate_mro", "linearize_hierarchy", "merge"], closure=False)
    K.ns["linearize_hierarchy"] = K["linearize_hierarchy"]
    K.ns["merge"] = K["merge"]
    rep.kernels_from(K)
    import mypy.typestate as TSM

    rep.kernel("mypy.typestate", symx.source_hash(TSM.__file__))
    ctx = Ctx()
    found: dict = {}
    n = {"p": 0, "stale_possible": 0}
    BASES = [(), ("B1",), ("B2",), ("B1", "B2"), ("B2", "B1")]

    def mk(name: str, bases: list, obj: Any) -> Any:
        info = TypeInfo(SymbolTable(), ClassDef(name, Block([])), "m")
        info._fullname = "m." + name
        info.bases = bases or [Instance(obj, [])]
        return info

    def body(c: Ctx) -> None:
        obj = TypeInfo(SymbolTable(), ClassDef("object", Block([])), "builtins")
        obj._fullname = "builtins.object"
        obj.mro = [obj]
        obj.bases = []
        infos = {"B1": mk("B1", [], obj), "B2": mk("B2", [], obj)}
        for b in infos.values():
            K["calculate_mro"](b, lambda: Instance(obj, []))
        old = BASES[c.choose("old_bases", len(BASES))]
        new = BASES[c.choose("new_bases", len(BASES))]
        C = mk("C", [Instance(infos[b], []) for b in old], obj)
        K["calculate_mro"](C, lambda: Instance(obj, []))
        infos["C"] = C
        type_state.reset_all_subtype_caches()
        # answers cached before the edit
        sup = ["B1", "B2"][c.choose("cached_question_about", 2)]
        negative = bool(c.bool("cached_answer_negative"))
        kind = (False,)  # a SubtypeKind: (is_proper_subtype, ...) -- an opaque hashable key
        left, right = Instance(C, []), Instance(infos[sup], [])
        if negative:
            type_state.record_negative_subtype_cache_entry(kind, left, right)
        else:
            type_state.record_subtype_cache_entry(kind, left, right)
        # the edit: C gets new bases, its MRO is recomputed
        C.bases = [Instance(infos[b], []) for b in new] or [Instance(obj, [])]
        C.mro = []
        K["calculate_mro"](C, lambda: Instance(obj, []))
        n["p"] += 1
        in_new_mro = infos[sup] in C.mro
        n["stale_possible"] += 1 if in_new_mro else 0
        stale = type_state.is_cached_negative_subtype_check(kind, left, right) or type_state.is_cached_subtype_check(kind, left, right)
        type_state.reset_all_subtype_caches()
        c.stats["assert_queries"] += 1
        if in_new_mro and stale:
            c.stats["refuted"] += 1
            found.setdefault(f"a cached {'negative' if negative else 'positive'} subtype answer about a class survives the recomputation of its MRO", (old, new, sup, negative))
        else:
            c.stats["discharged"] += 1

    ctx.explore(body)
    rep.add_ctx("K5 subtype caches after calculate_mro", ctx, edits=n["p"], edits_where_the_cached_supertype_is_in_the_new_mro=n["stale_possible"])
    rep.twin("K5: edits that put the cached supertype into the new MRO reached", n["stale_possible"] > 0)
    for key, (old, new, sup, negative) in found.items():
        rep.sample({"kernel": "calculate_mro", "class": key, "old_bases": old, "new_bases": new, "cached_supertype": sup})

        def replay(d: str, old: Any = old, new: Any = new, sup: str = sup, negative: bool = negative) -> tuple[bool, str]:
            # the daemon, as the property states it: check, edit the bases of C, check again, compare with a fresh run
            defs = "class B1: ...\nclass B2: ...\n"
            with open(os.path.join(d, "lib.py"), "w") as f:
                f.write(defs)

            def cdef(bases: Any) -> str:
                return "import lib\nclass C(" + ", ".join("lib." + b for b in bases) + "): ...\n" if bases else "import lib\nclass C: ...\n"

            with open(os.path.join(d, "c.py"), "w") as f:
                f.write(cdef(old))
            with open(os.path.join(d, "main.py"), "w") as f:
                f.write(f"import lib\nfrom c import C\ndef f(x: lib.{sup}) -> None: ...\nf(C())\n")
            env = dict(os.environ)
            env.pop("PYTHONPATH", None)
            drv = (
                "import os, sys\nfrom mypy.dmypy_server import Server\nfrom mypy.options import Options\nfrom mypy.modulefinder import BuildSource\nfrom mypy import api\n"
                "o = Options(); o.incremental = True; o.fine_grained_incremental = True; o.use_fine_grained_cache = False; o.cache_dir = os.devnull; o.show_traceback = True; o.local_partial_types = True\n"
                "srv = Server(o, 'st.json')\n"
                "srcs = [BuildSource('main.py', 'main'), BuildSource('c.py', 'c'), BuildSource('lib.py', 'lib')]\n"
                "r1 = srv.check(srcs, False, False, 80)\n"
                f"open('c.py', 'w').write({cdef(new)!r}); os.utime('c.py', (2_000_000_000, 2_000_000_000))\n"
                "r2 = srv.check(srcs, False, False, 80)\n"
                "out, err, st = api.run(['--no-incremental', '--no-error-summary', 'main.py', 'c.py', 'lib.py'])\n"
                "print('DAEMON', r2.get('status'), repr(r2.get('out', '').strip()))\nprint('FRESH', st, repr(out.strip()))\n"
                "d = [l for l in r2.get('out', '').splitlines() if 'error' in l]; fr = [l for l in out.splitlines() if 'error' in l]\n"
                "sys.exit(1 if d != fr else 0)\n"
            )
            with open(os.path.join(d, "driver.py"), "w") as f:
                f.write(drv)
            p = subprocess.run([sys.executable, "driver.py"], cwd=d, env=env, capture_output=True, text=True, timeout=600)
            return p.returncode == 1, (p.stdout + p.stderr)[-700:]

        rep.candidate(key, f"C({', '.join(old)}) -> C({', '.join(new)}), cached question C <: {sup}", {"old": list(old), "new": list(new)}, replay)


def main(args: Any) -> int:
    rep = Report(PID, args.tier, "symbolic execution (symx/z3) of the real change-detection and snapshot-diff functions; stat values, clocks, hashes, snapshot contents symbolic; replay through an in-process dmypy Server vs a fresh mypy run")
    only = set(args.only.split(",")) if args.only else None
    import mypy.build  # noqa: F401

    rep.bounds += [
        "K1: one watched path, one _find_changed step from an arbitrary recorded FileData (mtimes real-valued, sizes >= 0, hashes opaque), file present/absent before and after",
        "K2: two snapshots over names {a,b} (thorough {a,b,c}), kinds {Var, Func, TypeInfo}, opaque payload tokens, one level of nested class table with one member",
    ]
    rep.bounds.append("K3: one symbol m.x per table, node kinds Var / FuncDef / TypeInfo / module reference / cross-module reference; symbol kind, module_public, module_hidden and the boolean externally visible attributes of the node symbolic on both sides; types and signatures fixed")
    rep.bounds.append("K4: any trigger string of 1..22 printable ASCII characters")
    rep.assumptions += [
        "environment contract: a content change changes the file size or its real-valued mtime (documented in FileSystemWatcher's docstring); equal content has equal size",
        "hash equality = content equality",
    ]
    rep.outside += ["dependency generation (server/deps.py), AST merge/strip beyond the type-reference replacement of K6, trigger propagation over real symbol tables: pointer-rich whole-program code, not encodable"]
    if only is None or "K1" in only:
        k1_fswatcher(rep)
    if only is None or "K2" in only:
        k2_astdiff(rep, args.tier)
    if only is None or "K3" in only:
        k3_snapshot(rep)
    if only is None or "K4" in only:
        k4_add_dependency(rep)
    if only is None or "K5" in only:
        k5_mro_cache(rep)
        rep.bounds.append("K5: class C with old and new base lists over {B1, B2} (5 shapes each), one cached subtype answer (positive or negative) about C against B1 or B2")
    if only is None or "K6" in only:
        from vf import c03_merge

        c03_merge.run(rep, args.tier)
    return rep.finish()


if __name__ == "__main__":
    run_main(PID, main)
