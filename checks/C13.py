"""C13: error suppression is exact and the exit status tells the truth.

K1 ignore semantics  (vf/c13_ignore.py)
K2 exit status: Errors.format_messages_default -> util.count_stats -> the status
   expressions of main.main and dmypy_server (extracted from source on every run).
"""

from __future__ import annotations

import ast
import inspect
import os
import shutil
import subprocess
import sys
from typing import Any

import z3

from vf import bstr, symx
from vf.report import Report, run_main, scratch
from vf.symx import Ctx, Kernel, PathAbort, SymBool, SymInt, SymZStr, Unsupported

PID = "C13"


def extract_status_functions() -> dict[str, Any]:
    """Build callables status(messages, blockers) from the statements that compute the exit
    status in main.main and the daemon, re-read from the source on every run."""
    import mypy.dmypy_server as ds
    import mypy.main as mm
    import mypy.util as mu

    out: dict[str, Any] = {}
    hashes: dict[str, str] = {}
    Kutil = Kernel("mypy.util", ["count_stats"])
    hashes.update(Kutil.hashes)

    # --- main.main: statements from `code = 0` up to (excluding) `if options.error_summary`
    src = open(inspect.getsourcefile(mm)).read()  # type: ignore[arg-type]
    tree = ast.parse(src)
    fn = next(n for n in tree.body if isinstance(n, ast.FunctionDef) and n.name == "main")
    start = end = None
    for i, st in enumerate(fn.body):
        d = ast.dump(st)
        if start is None and "count_stats" in d:
            start = i
            prev = fn.body[i - 1] if i else None
            if isinstance(prev, ast.Assign) and isinstance(prev.targets[0], ast.Name) and prev.targets[0].id == "code":
                start = i - 1
        if start is not None and isinstance(st, ast.If) and "error_summary" in ast.dump(st.test):
            end = i
            break
    if start is None or end is None:
        raise Unsupported("cannot locate the exit-status statements in mypy.main.main")
    body = fn.body[start:end]
    out["main.main"] = _compile_status(body, "code", Kutil, mm, ["messages", "blockers"])
    hashes["mypy.main.main[status]"] = symx.hashlib.sha256("".join(ast.dump(s) for s in body).encode()).hexdigest()[:16]

    # --- daemon: `__, n_notes, __ = count_stats(messages)` + `status = ...`
    src = open(inspect.getsourcefile(ds)).read()  # type: ignore[arg-type]
    tree = ast.parse(src)
    n_found = 0
    for node in ast.walk(tree):
        if isinstance(node, ast.FunctionDef):
            for i, st in enumerate(node.body):
                if (
                    isinstance(st, ast.Assign)
                    and isinstance(st.targets[0], ast.Name)
                    and st.targets[0].id == "status"
                    and "n_notes" in ast.dump(st.value)
                    and i > 0
                ):
                    body = node.body[i - 1 : i + 1]
                    out[f"dmypy_server.{node.name}"] = _compile_status(body, "status", Kutil, ds, ["messages"])
                    hashes[f"mypy.dmypy_server.{node.name}[status]"] = symx.hashlib.sha256("".join(ast.dump(s) for s in body).encode()).hexdigest()[:16]
                    n_found += 1
    if not n_found:
        raise Unsupported("cannot locate the status statements in mypy.dmypy_server")
    out["__hashes__"] = hashes
    return out


def _compile_status(body: list[ast.stmt], result: str, Kutil: Kernel, mod: Any, params: list[str]) -> Any:
    rw = symx._Rewriter(set(symx.SHIMS))
    body = [rw.visit(s) for s in body]
    f = ast.FunctionDef(
        name="_status",
        args=ast.arguments(posonlyargs=[], args=[ast.arg(arg=p) for p in params], kwonlyargs=[], kw_defaults=[], defaults=[]),
        body=body + [ast.Return(value=ast.Name(id=result, ctx=ast.Load()))],
        decorator_list=[],
        type_params=[],
    )
    m = ast.Module(body=[f], type_ignores=[])
    ast.fix_missing_locations(m)
    ns = dict(mod.__dict__)
    for k, v in symx.SHIMS.items():
        ns["__symx_" + k] = v
    ns["__symx_fstr"] = symx.s_fstr
    ns["count_stats"] = Kutil["count_stats"]

    class _U:
        count_stats = staticmethod(Kutil["count_stats"])

    ns["util"] = _U
    exec(compile(m, "<symx:status>", "exec"), ns)
    return ns["_status"]


PRINTABLE = z3.Star(z3.Range(" ", "~"))


class _FmtOpts:
    def __init__(self, c: Ctx, full: bool):
        self.show_column_numbers = bool(c.bool("show_column_numbers")) if full else False
        self.show_error_end = bool(c.bool("show_error_end")) if full else False
        self.pretty = False


class _FmtSelf:
    def __init__(self, c: Ctx, full: bool):
        self.options = _FmtOpts(c, full)
        self.hide_error_codes = True


def k2_exit_status(rep: Report, tier: str) -> None:
    import mypy.build  # noqa: F401

    fns = extract_status_functions()
    for k, v in fns.pop("__hashes__").items():
        rep.kernel(k, v)
    KE = Kernel("mypy.errors", ["Errors.format_messages_default"])
    rep.kernels_from(KE)
    fmt = KE["Errors.format_messages_default"]
    maxn = 2 if tier == "quick" else 3
    msglen = 10 if tier == "quick" else 16
    found: dict[str, tuple] = {}
    for name, status_fn in fns.items():
        tot = Ctx()
        tot.exhausted = True
        reached = {"zero_no_error": 0, "nonzero_error": 0}
        for n in range(0, maxn + 1):
            ctx = Ctx(timeout_ms=60000)

            def body(c: Ctx) -> None:
                tuples = []
                any_err = False
                for i in range(n):
                    has_file = True
                    file: Any = None
                    if has_file:
                        file = "f.py"
                    is_err = bool(c.bool(f"is_err{i}"))
                    any_err = any_err or is_err
                    msg = bstr.bstr(c, f"msg{i}", msglen, minlen=1)
                    line, col = 7, 3
                    tuples.append((file, line, col, line, col, "error" if is_err else "note", msg, None))
                json_mode = bool(c.bool("output_json"))
                if json_mode:
                    # --output json: the real create_errors + JSONFormatter on concrete texts
                    from mypy.error_formatter import JSONFormatter
                    from mypy.errors import create_errors

                    conc = [(f, l, cl, el, ec, sev, "msg", code) for (f, l, cl, el, ec, sev, m_, code) in tuples]
                    lines = [JSONFormatter().report_error(e) for e in create_errors(conc)]
                else:
                    lines = fmt(_FmtSelf(c, n <= 1), tuples, None)
                blockers = bool(c.bool("blockers")) if "blockers" in inspect.signature(status_fn).parameters else False
                if blockers and not any_err:
                    raise PathAbort()  # a blocking error is an error-severity message
                st = status_fn(lines, blockers) if "blockers" in inspect.signature(status_fn).parameters else status_fn(lines)
                if symx.is_sym(st):
                    raise Unsupported("symbolic status")
                c.stats["assert_queries"] += 1
                ok = (st == 0) == (not any_err)
                if ok and any_err and "blockers" in inspect.signature(status_fn).parameters:
                    ok = st == (2 if blockers else 1)
                if ok:
                    c.stats["discharged"] += 1
                    reached["nonzero_error" if any_err else "zero_no_error"] += 1
                    return
                c.stats["refuted"] += 1
                key = f"{name}{' (--output json)' if json_mode else ''}: status {st} with {'an' if any_err else 'no'} error-severity message ({n} messages)"
                if key not in found:
                    found[key] = (name, n, c.path_model(), st, any_err)

            ctx.explore(body)
            for k, val in ctx.stats.items():
                if isinstance(val, (int, float)):
                    tot.stats[k] += val
            tot.exhausted = tot.exhausted and ctx.exhausted
        rep.add_ctx(f"K2 exit status via {name}", tot, max_messages=maxn, reached=reached)
        rep.twin(f"K2 {name}: both status outcomes reached", reached["zero_no_error"] > 0 and reached["nonzero_error"] > 0)
    for key, (name, n, m, st, any_err) in found.items():
        rep.sample({"kernel": name, "messages": n, "model": m, "status": st, "any_error": any_err})
        # normalise the key so that it does not depend on the solver's choice of n
        nkey = key.rsplit(" (", 1)[0]
        rep.candidate(nkey, f"exit status {st} although {'an' if any_err else 'no'} error-severity message is reported; model {m}", m, replay_status(name, n, m, st, any_err))


def replay_status(name: str, n: int, m: dict[str, Any], st: int, any_err: bool):
    def replay(d: str) -> tuple[bool, str]:
        # Build a program whose diagnostics carry the model's message texts: an argument of the
        # wrong type for a Literal[...] parameter quotes the literal text in an error; reveal_type
        # quotes it in a note.
        lines = ["from typing import Literal"]
        for i in range(n):
            txt = m.get(f"msg{i}", "x")
            lit = repr(txt)
            if m.get(f"is_err{i}"):
                lines.append(f"def f{i}(a: Literal[{lit}]) -> None: ...")
                lines.append(f"f{i}(1)")
            else:
                lines.append(f"v{i}: Literal[{lit}] = {lit}")
                lines.append(f"reveal_type(v{i})")
        src = "\n".join(lines) + "\n"
        with open(os.path.join(d, "prog.py"), "w") as f:
            f.write(src)
        with open(os.path.join(d, "replay.sh"), "w") as f:
            f.write('#!/bin/bash\n# exit status must be non-zero iff an error line is printed\ncd "$(dirname "$0")"\n/verif/.venv/bin/python -m mypy --no-incremental --cache-dir=/dev/null ' + ("--output json " if m.get("output_json") else "") + 'prog.py; echo "exit status: $?"\n')
        work = scratch("c13-")
        try:
            shutil.copy(os.path.join(d, "prog.py"), work)
            env = dict(os.environ)
            env.pop("PYTHONPATH", None)
            jflag = ["--output", "json"] if m.get("output_json") else []
            p = subprocess.run([sys.executable, "-m", "mypy", "--no-incremental", "--cache-dir=/dev/null"] + jflag + ["prog.py"], cwd=work, capture_output=True, text=True, timeout=120, env=env)
            out, rc = p.stdout, p.returncode
            if name.startswith("dmypy_server"):
                # same program through the daemon's check path (in-process Server.check)
                drv = (
                    "import sys, os\nfrom mypy.dmypy_server import Server\nfrom mypy.options import Options\nfrom mypy.modulefinder import BuildSource\n"
                    "o = Options(); o.incremental = False; o.cache_dir = os.devnull; o.fine_grained_incremental = True; o.use_fine_grained_cache = False\n"
                    + ("o.output = 'json'\n" if m.get("output_json") else "")
                    +
                    "s = Server(o, 'st.json')\nr = s.check([BuildSource('prog.py', 'prog', None)], False, False, 80)\n"
                    "print(r['out']); print('STATUS', r['status'])\n"
                )
                with open(os.path.join(work, "drv.py"), "w") as f:
                    f.write(drv)
                shutil.copy(os.path.join(work, "drv.py"), d)
                p = subprocess.run([sys.executable, "drv.py"], cwd=work, capture_output=True, text=True, timeout=120, env=env)
                out = p.stdout
                rc = -1
                for ln in out.splitlines():
                    if ln.startswith("STATUS"):
                        rc = int(ln.split()[1])
                if rc == -1:
                    return False, "daemon driver failed: " + p.stderr[-400:]
        finally:
            shutil.rmtree(work, ignore_errors=True)
        import re

        has_err = any(re.match(r"^prog\.py:\d+: error:", ln) or (ln.startswith("{") and '"severity": "error"' in ln) for ln in out.splitlines())
        bad = (rc == 0) == has_err
        return bad, f"exit status {rc}, error line printed: {has_err}; output: {out[-300:]}"

    return replay


def main(args: Any) -> int:
    rep = Report(PID, args.tier, "symbolic execution (symx/z3 strings) of the real formatter + classifier + status expressions; ignore semantics by symbolic report streams")
    only = set(args.only.split(",")) if args.only else None
    rep.bounds += [
        "K2: text and --output json rendering; 0..2 (quick) / 0..3 (thorough) diagnostics, message text any printable-ASCII string of <= 10/14 chars, file names over [a-z./] <= 6 chars or absent, line/column in -1..99, show_column_numbers/show_error_end symbolic, pretty off",
    ]
    rep.assumptions += [
        "file names contain no ':' (a path containing ': note:' or ': error:' defeats any text-based classifier; stated, not checked)",
        "--pretty source/marker lines are outside K2 (marker lines contain neither ': error:' nor ': note:')",
    ]
    if only is None or "K2" in only:
        k2_exit_status(rep, args.tier)
    if only is None or "K1" in only:
        try:
            from vf import c13_ignore
        except ImportError:
            c13_ignore = None  # type: ignore[assignment]
        if c13_ignore is not None:
            c13_ignore.run(rep, args.tier)
    if only is None or "K3" in only:
        from vf import c13_post

        c13_post.run(rep, args.tier)
    return rep.finish()


if __name__ == "__main__":
    run_main(PID, main)
