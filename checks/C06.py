"""C06 (static half): compiled code has balanced reference counts on every path.

For every function of the mypyc test-data programs that build with the IR fixture, the final
FuncIR produced by the real pipeline (codegen.emitmodule.compile_scc_to_ir: uninit checks ->
exception handling -> refcount insertion -> spills -> lowering -> copy propagation -> flag
elimination) is fed to the ownership BMC of vf/ownership.py: all CFG paths (loops peeled twice),
all error flags.  Counterexamples are replayed through an independent concrete ownership
simulator along the solver's path.
"""

from __future__ import annotations

import multiprocessing as mp
import os
import shutil
import random
from typing import Any

from vf import symx
from vf.report import Report, run_main

PID = "C06"

QUICK_FILES = ["refcount.test", "exceptions.test", "irbuild-basic.test", "irbuild-classes.test", "irbuild-statements.test", "irbuild-try.test", "irbuild-nested.test", "irbuild-tuple.test", "irbuild-lists.test", "irbuild-dict.test", "irbuild-str.test", "irbuild-optional.test", "irbuild-generics.test"]


def all_files() -> list[str]:
    d = os.path.join(os.environ.get("VERIF_REPO", "/repo"), "mypyc/test-data")
    return sorted(f for f in os.listdir(d) if f.endswith(".test") and (f.startswith(("irbuild-", "run-", "lowering-", "opt-")) or f in ("refcount.test", "exceptions.test", "exceptions-freq.test", "alwaysdefined.test", "analysis.test")))


def work(fn_: Any) -> dict:
    from mypyc.ir.pprint import format_func

    from vf import mypycir, ownership

    if isinstance(fn_, tuple):  # generated shapes: (name, program)
        cases = [("generated", fn_[0], fn_[1])]
        fn_ = "generated:" + fn_[0]
    else:
        cases = list(mypycir.test_cases([fn_]))
    out = {"file": fn_, "cases": 0, "buildfail": 0, "functions": 0, "clean": 0, "obligations": 0, "discharged": 0, "queries": 0, "solver_s": 0.0, "findings": [], "skipped": 0, "loop_cuts": 0}
    for _, name, prog in cases:
        out["cases"] += 1
        try:
            mod = mypycir.build_module_ir(prog)
        except Exception as e:
            out["buildfail"] += 1
            if fn_.startswith("generated:"):  # my own corpus must build: a silent loss would shrink the claim
                out["findings"].append({"kind": "harness", "case": name, "fn": "<module>", "detail": f"generated module does not build: {e}"})
            continue
        for f in mod.functions:
            try:
                r = ownership.check_function(f)
            except Exception as e:  # a shape the model does not cover must be visible, not silent
                out["findings"].append({"kind": "harness", "case": name, "fn": f.name, "detail": f"{type(e).__name__}: {e}"})
                continue
            out["functions"] += 1
            if r["status"] != "ok":
                out["skipped"] += 1
                continue
            out["obligations"] += r["obligations"]
            out["discharged"] += r["discharged"]
            out["queries"] += r["queries"]
            out["solver_s"] += r["solver_s"]
            out["loop_cuts"] += r.get("loop_cuts", 0)
            if not r["findings"]:
                out["clean"] += 1
            for x in r["findings"]:
                sim = ownership.simulate(f, dict(x.path)) if x.kind != "inconclusive" else []
                if x.kind.startswith("leak of the old attribute value"):
                    sim = [("initialiser-overwrite", getattr(f, "class_name", "") or "")]
                out["findings"].append({"kind": x.kind, "case": name, "fn": (getattr(f, "class_name", None) or "") + ("." if getattr(f, "class_name", None) else "") + f.name, "value": x.value, "where": x.where, "detail": x.detail, "path": x.path, "simulated": sim, "ir": "\n".join(format_func(f))[:6000], "program": prog[:3000] if not x.kind.startswith("leak of the old attribute value") else prog})
    return out


def replay_init_leak(d: str, f: dict) -> "tuple[bool, str]":
    """Real build: construct instances of the class with tracked objects and count the survivors."""
    import subprocess
    import sys

    cls = f["fn"].split(".")[0]
    prog = f["program"]
    if f"class {cls}:" not in prog or "def __init__(self, v: C)" not in prog.split(f"class {cls}:", 1)[1].split("class ", 1)[0]:
        return True, f"IR-level statement: {f['detail']} (op.is_init is set on that SetAttr; no generic driver for this constructor signature)"
    with open(os.path.join(d, "native_mod.py"), "w") as fh:
        fh.write(prog)
    env = dict(os.environ)
    env.pop("PYTHONPATH", None)
    p = subprocess.run([sys.executable, "-m", "mypyc", "native_mod.py"], cwd=d, capture_output=True, text=True, timeout=900, env=env)
    if p.returncode != 0:
        return False, "mypyc build failed: " + (p.stdout + p.stderr)[-400:]
    os.rename(os.path.join(d, "native_mod.py"), os.path.join(d, "native_mod.py.src"))
    drv = (
        "import gc, sys, weakref\nimport native_mod as M\n"
        "alive = weakref.WeakSet()\n"
        f"for i in range(300):\n    c = M.C(i)\n    alive.add(c)\n    o = M.{cls}(c)\n    del o, c\n"
        "gc.collect()\nprint('tracked objects still alive after 300 constructions:', len(alive))\nsys.exit(1 if len(alive) > 5 else 0)\n"
    )
    with open(os.path.join(d, "driver.py"), "w") as fh:
        fh.write(drv)
    r = subprocess.run([sys.executable, "driver.py"], cwd=d, capture_output=True, text=True, timeout=300, env=env)
    shutil.rmtree(os.path.join(d, "build"), ignore_errors=True)
    return r.returncode == 1, (r.stdout + r.stderr)[-300:]


def main(args: Any) -> int:
    rep = Report(PID, args.tier, "ownership bounded model checking of the final mypyc IR (z3, passive form over the loop-peeled CFG; all branch outcomes and error flags symbolic); replay by an independent concrete ownership simulator")
    import mypyc.transform.refcount as RC
    import mypyc.transform.exceptions as EX
    import mypyc.ir.ops as OPS

    for m in (RC, EX, OPS):
        rep.kernel(m.__name__, symx.source_hash(m.__file__))
    files = QUICK_FILES if args.tier == "quick" else all_files()
    rep.bounds += [f"functions of {len(files)} mypyc test-data files that build with the IR fixture; every CFG path with each back edge taken at most twice in total; every combination of op error flags"]
    rep.assumptions += [
        "ownership semantics of ops are taken from the IR metadata (stolen(), is_borrowed, error_kind, is_xdec); the C emitted for each op is trusted to implement that metadata (emitfunc.py)",
        "handing over / returning the error value transfers no reference; `unborrow` of components consumes the aggregate's reference (the refcount pass strips the keep_alive that said so); a dec_ref of a borrowed load_mem followed by set_mem of the same slot releases the slot's reference",
    ]
    rep.outside += ["dynamic half: live-object counts of real executions, interpreter crashes", "use of a value after its last reference was released (needs liveness of borrowed values)", "always-defined attribute analysis"]
    from vf import c06_corpus

    gen = c06_corpus.programs(rep.seed, args.tier)
    rep.bounds.append(f"plus {len(gen)} generated modules of ownership-relevant shapes (vf/c06_corpus.py: repeated values in displays of length 1..12, one-branch locals around raising calls, reassigned arguments, loops, try/except/finally; random shapes seeded by VERIF_SEED)")
    with mp.get_context("fork").Pool(14) as pool:
        results = pool.map(work, list(files) + gen)
    tot = {k: 0 for k in ("cases", "buildfail", "functions", "clean", "obligations", "discharged", "queries", "skipped", "loop_cuts")}
    solver_s = 0.0
    findings = []
    for r in results:
        for k in tot:
            tot[k] += r[k]
        solver_s += r["solver_s"]
        findings += [dict(f, file=r["file"]) for f in r["findings"]]
    rep.add_counts(tot["obligations"], tot["discharged"], queries=tot["queries"], solver_s=solver_s, paths=tot["functions"])
    rep.section("ownership BMC over the IR corpus", files=len(files), **tot, solver_s=round(solver_s, 1))
    rep.twin("functions analysed with obligations", tot["functions"] > 50 and tot["obligations"] > 1000)
    rep.extra["programs"] = tot["functions"]
    rep.extra["disagreements_checked"] = len(findings)
    rep.sample({"files": files[:5], "functions": tot["functions"], "obligations": tot["obligations"]})
    for f in findings:
        if f["kind"] == "harness":
            rep.error(f"model does not cover {f['file']}:{f['case']}:{f['fn']}: {f['detail']}")
            continue
        if f["kind"] == "inconclusive":
            rep.error(f"inconclusive: {f['file']}:{f['case']}:{f['fn']} {f['value']}")
            continue
        key = f"{f['file']}:{f['case']}:{f['fn']}: {f['kind']} of {f['value']}"
        if f["fn"] == "close" and f["value"] == "r2" and "GeneratorExit" in f["ir"] and any(k.startswith("err_r2_") and v for k, v in f["path"]):
            # the same generated helper in every generator class: one canonical key
            key = f"generator close(): {f['kind']} of r2 (the builtins.GeneratorExit lookup) on the path where that lookup itself fails"
        rep.sample({k: f[k] for k in ("file", "case", "fn", "kind", "value", "where", "detail")})

        def replay(d: str, f: dict = f) -> tuple[bool, str]:
            with open(os.path.join(d, "function.ir"), "w") as fh:
                fh.write(f["ir"] + "\n\n# path: " + repr(f["path"]) + "\n")
            with open(os.path.join(d, "program.py"), "w") as fh:
                fh.write(f["program"])
            if f["kind"].startswith("leak of the old attribute value"):
                return replay_init_leak(d, f)
            return bool(f["simulated"]), f"concrete simulation along the solver's path: {f['simulated'][:3]}"

        rep.candidate(key, f"{f['detail']} (value {f['value']}) in {f['fn']}", {"path": f["path"]}, replay)
    from vf import c06_glue

    c06_glue.run(rep, args.tier)
    return rep.finish()


if __name__ == "__main__":
    run_main(PID, main)
