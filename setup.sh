#!/bin/bash
# Offline setup: overlay venv on top of /venv with crosshair-tool + z3-solver + cvc5 from the wheelhouse.
set -e
cd "$(dirname "$0")"
V="$(pwd)/.venv"
if [ -x "$V/bin/python" ] && "$V/bin/python" -c "import z3, crosshair, mypy" 2>/dev/null; then
  echo "overlay venv ok"; exit 0
fi
rm -rf "$V"
/venv/bin/python -m venv "$V"
SP=$("$V/bin/python" -c "import sysconfig; print(sysconfig.get_paths()['purelib'])")
cat > "$SP/verif_overlay.pth" <<P
import site; site.addsitedir('/venv/lib/python3.12/site-packages')
/repo
P
PIP_NO_INDEX=1 "$V/bin/pip" install -q --no-index --find-links /opt/veriftools/wheels crosshair-tool z3-solver cvc5 jsonschema >/dev/null
"$V/bin/python" -c "import z3, crosshair, mypy, cvc5; print('overlay venv built', z3.get_version_string())"
