r"""symx -- a decision-replay symbolic executor on z3 (engine E1 of DESIGN.md).

The real Python function is run natively on proxy values.  Whenever the code
needs the truth value of a symbolic condition, z3 is asked which outcomes are
feasible under the current path condition; one is followed and the other is
queued.  The function is re-executed once per path (DFS over the decision
log).  At path end the harness discharges its assertion with one more query
(path /\ not(assertion) must be unsat).

Nothing is ever concretised silently: an operation the proxies cannot answer
raises Unsupported, which the drivers turn into exit code 2 (fail closed).
"""

from __future__ import annotations

import ast
import hashlib
import importlib
import inspect
import os
import textwrap
import time
from typing import Any, Callable, Iterable

import z3

# --------------------------------------------------------------------------------------
# errors


class Unsupported(Exception):
    """The kernel applied something to a symbolic value that symx cannot model."""


class PathAbort(BaseException):
    """Stop the current path (assumption violated / path pruned by the harness)."""


class BudgetExceeded(Exception):
    pass


# --------------------------------------------------------------------------------------
# context

_CUR: "Ctx | None" = None


def cur() -> "Ctx":
    if _CUR is None:
        raise Unsupported("symbolic value used outside of an exploration")
    return _CUR


class Counterexample:
    def __init__(self, label: str, model: dict[str, Any], trace: list[bool], info: Any = None):
        self.label = label
        self.model = model
        self.trace = trace
        self.info = info

    def __repr__(self) -> str:
        return f"Counterexample({self.label!r}, {self.model!r})"


class Ctx:
    def __init__(self, timeout_ms: int = 20000, max_paths: int = 200000, deadline_s: float = 1e9):
        self.solver = z3.Solver()
        self.solver.set("timeout", timeout_ms)
        self.max_paths = max_paths
        self.deadline = time.time() + deadline_s
        self.prefix: list[bool] = []
        self.trace: list[bool] = []
        self.vars: dict[str, z3.ExprRef] = {}
        self.stats = {
            "paths": 0,
            "branch_queries": 0,
            "assert_queries": 0,
            "discharged": 0,
            "refuted": 0,
            "inconclusive": 0,
            "unknown_branches": 0,
            "solver_s": 0.0,
            "nonvacuous": {},
            "aborted_paths": 0,
        }
        self.cex: list[Counterexample] = []
        self.notes: list[str] = []
        self.exhausted = False

    # -- variables
    def _reg(self, name: str, v: z3.ExprRef) -> z3.ExprRef:
        self.vars[name] = v
        return v

    def int(self, name: str, lo: int | None = None, hi: int | None = None) -> "SymInt":
        v = self._reg(name, z3.Int(name))
        if lo is not None:
            self.solver.add(v >= lo)
        if hi is not None:
            self.solver.add(v <= hi)
        return SymInt(v)

    def bool(self, name: str) -> "SymBool":
        return SymBool(self._reg(name, z3.Bool(name)))

    def real(self, name: str) -> "SymReal":
        return SymReal(self._reg(name, z3.Real(name)))

    def float(self, name: str) -> "SymFloat":
        return SymFloat(self._reg(name, z3.FP(name, z3.Float64())))

    def tok(self, name: str, sort: str = "Tok") -> "SymTok":
        s = z3.DeclareSort(sort)
        return SymTok(self._reg(name, z3.Const(name, s)))

    # -- solver
    def _check(self, *assumptions: z3.BoolRef) -> str:
        t = time.time()
        r = self.solver.check(*assumptions)
        self.stats["solver_s"] += time.time() - t
        return str(r)

    def assume(self, cond: "SymBool | bool | z3.BoolRef") -> None:
        c = to_z3bool(cond)
        c = z3.simplify(c)
        if z3.is_true(c):
            return
        if z3.is_false(c):
            raise PathAbort()
        self.solver.add(c)
        if self._check() == "unsat":
            raise PathAbort()

    def branch(self, cond: z3.BoolRef) -> bool:
        cond = z3.simplify(cond)
        if z3.is_true(cond):
            return True
        if z3.is_false(cond):
            return False
        i = len(self.trace)
        if i < len(self.prefix):
            d = self.prefix[i]
        else:
            self.stats["branch_queries"] += 2
            rt = self._check(cond)
            rf = self._check(z3.Not(cond))
            if rt == "unknown" or rf == "unknown":
                self.stats["unknown_branches"] += 1
            ft = rt != "unsat"
            ff = rf != "unsat"
            if ft and ff:
                d = True
                self._work.append(self.trace + [False])
            elif ft:
                d = True
            elif ff:
                d = False
            else:
                raise PathAbort()
        self.trace.append(d)
        self.solver.add(cond if d else z3.Not(cond))
        return d

    def choose(self, name: str, n: int) -> int:
        """Nondeterministic concrete choice in range(n) (forks n ways)."""
        v = self.int(name, 0, n - 1)
        for k in range(n - 1):
            if self.branch(v.t == k):
                return k
        return n - 1

    # -- assertions
    def model(self) -> dict[str, Any]:
        m = self.solver.model()
        out = {}
        for k, v in self.vars.items():
            val = m.eval(v, model_completion=True)
            out[k] = z3_to_py(val)
        for k, b in getattr(self, "bstrs", {}).items():
            out[k] = b.value(m)
        return out

    def check(self, cond: "SymBool | bool | z3.BoolRef", label: str, info: Any = None) -> bool:
        """Discharge an assertion on the current path.  Returns True if it holds for
        every input on this path."""
        c = z3.simplify(to_z3bool(cond))
        self.stats["assert_queries"] += 1
        nv = self.stats["nonvacuous"]
        nv[label] = nv.get(label, 0) + 1
        if z3.is_true(c):
            self.stats["discharged"] += 1
            return True
        r = self._check(z3.Not(c))
        if r == "unsat":
            self.stats["discharged"] += 1
            return True
        if r == "unknown":
            self.stats["inconclusive"] += 1
            self.notes.append(f"inconclusive: {label}")
            return False
        self.stats["refuted"] += 1
        self.cex.append(Counterexample(label, self.model(), list(self.trace), info))
        return False

    def feasible(self, cond: "SymBool | bool | z3.BoolRef") -> "tuple[bool, dict[str, Any] | None]":
        c = z3.simplify(to_z3bool(cond))
        if z3.is_false(c):
            return False, None
        r = self._check(c)
        if r == "sat":
            return True, self.model()
        if r == "unknown":
            self.stats["inconclusive"] += 1
            return False, None
        return False, None

    def path_model(self) -> dict[str, Any]:
        r = self._check()
        if r != "sat":
            raise Unsupported("path condition not sat at path end: " + r)
        return self.model()

    # -- exploration
    def explore(self, fn: Callable[["Ctx"], None], prefixes: "list[list[bool]] | None" = None) -> None:
        global _CUR
        self._work: list[list[bool]] = list(prefixes) if prefixes is not None else [[]]
        prev = _CUR
        _CUR = self
        try:
            while self._work:
                if self.stats["paths"] >= self.max_paths or time.time() > self.deadline:
                    raise BudgetExceeded(
                        f"exploration budget exceeded after {self.stats['paths']} paths"
                    )
                self.prefix = self._work.pop()
                self.trace = []
                self.solver.push()
                try:
                    fn(self)
                except PathAbort:
                    self.stats["aborted_paths"] += 1
                finally:
                    self.solver.pop()
                self.stats["paths"] += 1
            self.exhausted = True
        finally:
            _CUR = prev

    def frontier(self, fn: Callable[["Ctx"], None], depth: int) -> "list[list[bool]]":
        """Enumerate decision prefixes of length <= depth (for partitioning across
        processes).  Paths shorter than depth are returned complete."""
        global _CUR
        out: list[list[bool]] = []
        work: list[list[bool]] = [[]]
        prev = _CUR
        _CUR = self

        class _Stop(BaseException):
            pass

        real_branch = self.branch

        def limited(cond: z3.BoolRef) -> bool:
            c = z3.simplify(cond)
            if not (z3.is_true(c) or z3.is_false(c)) and len(self.trace) >= depth:
                raise _Stop()
            return real_branch(cond)

        self.branch = limited  # type: ignore[method-assign]
        try:
            while work:
                self.prefix = work.pop()
                self.trace = []
                self._work = []
                self.solver.push()
                try:
                    fn(self)
                except _Stop:
                    pass
                except PathAbort:
                    pass
                finally:
                    self.solver.pop()
                out.append(list(self.trace))
                work.extend(self._work)
        finally:
            self.branch = real_branch  # type: ignore[method-assign]
            _CUR = prev
        return out


def z3_to_py(val: z3.ExprRef) -> Any:
    if z3.is_int_value(val):
        return val.as_long()
    if z3.is_true(val):
        return True
    if z3.is_false(val):
        return False
    if z3.is_rational_value(val):
        n, d = val.numerator_as_long(), val.denominator_as_long()
        return n if d == 1 else n / d
    if z3.is_algebraic_value(val):
        return float(val.approx(20).as_decimal(20).rstrip("?"))
    if z3.is_fp(val):
        try:
            if z3.is_fprm_value(val):
                return str(val)
            s = str(val)
            if s == "+oo":
                return float("inf")
            if s == "-oo":
                return float("-inf")
            if s == "NaN":
                return float("nan")
            if s == "+0.0":
                return 0.0
            if s == "-0.0":
                return -0.0
            return float(eval(s.replace("*(2**", "*(2.0**")))
        except Exception:
            return str(val)
    if z3.is_string_value(val):
        return val.as_string()
    return str(val)


# --------------------------------------------------------------------------------------
# proxies


def to_z3bool(x: Any) -> z3.BoolRef:
    if isinstance(x, SymBool):
        return x.t
    if isinstance(x, bool):
        return z3.BoolVal(x)
    if isinstance(x, z3.BoolRef):
        return x
    if isinstance(x, SymInt):
        return x.t != 0
    raise Unsupported(f"to_z3bool({type(x).__name__})")


def to_z3int(x: Any) -> z3.ArithRef:
    if isinstance(x, SymBool):
        return z3.If(x.t, z3.IntVal(1), z3.IntVal(0))
    if isinstance(x, SymInt):
        return x.t
    if isinstance(x, bool):
        return z3.IntVal(int(x))
    if isinstance(x, int):
        return z3.IntVal(x)
    raise Unsupported(f"to_z3int({type(x).__name__})")


EXTRA_SYM_TYPES: list = []
FSTR_HOOKS: list = []


def is_sym(x: Any) -> bool:
    return isinstance(x, (SymBool, SymInt, SymReal, SymFloat, SymTok, SymStr, SymZStr)) or isinstance(x, tuple(EXTRA_SYM_TYPES))


class SymBool:
    __slots__ = ("t",)

    def __init__(self, t: z3.BoolRef):
        self.t = t

    def __bool__(self) -> bool:
        return cur().branch(self.t)

    def __eq__(self, o: Any) -> Any:  # type: ignore[override]
        if isinstance(o, (SymBool, bool)):
            return SymBool(self.t == to_z3bool(o))
        if isinstance(o, (SymInt, int)):
            return SymBool(to_z3int(self) == to_z3int(o))
        return False

    def __ne__(self, o: Any) -> Any:  # type: ignore[override]
        r = self.__eq__(o)
        return SymBool(z3.Not(r.t)) if isinstance(r, SymBool) else (not r)

    def __hash__(self) -> int:
        # used as a dict key (rmap[left == right]): case split, which is exhaustive
        return hash(bool(self))

    def __and__(self, o: Any) -> Any:
        if not isinstance(o, (SymBool, bool)):
            return self._i() & o
        return SymBool(z3.And(self.t, to_z3bool(o)))

    __rand__ = __and__

    def __or__(self, o: Any) -> Any:
        if not isinstance(o, (SymBool, bool)):
            return self._i() | o
        return SymBool(z3.Or(self.t, to_z3bool(o)))

    __ror__ = __or__

    def __invert__(self) -> "SymInt":
        return ~SymInt(to_z3int(self))

    def __xor__(self, o: Any) -> Any:
        if not isinstance(o, (SymBool, bool)):
            return self._i() ^ o
        return SymBool(z3.Xor(self.t, to_z3bool(o)))

    __rxor__ = __xor__

    def __index__(self) -> int:
        raise Unsupported("index of symbolic bool")

    def __repr__(self) -> str:
        return f"SymBool({self.t})"

    # bool is an int in Python
    def _i(self) -> "SymInt":
        return SymInt(to_z3int(self))

    def __add__(self, o: Any) -> Any:
        return self._i() + o

    def __radd__(self, o: Any) -> Any:
        return o + self._i()

    def __sub__(self, o: Any) -> Any:
        return self._i() - o

    def __rsub__(self, o: Any) -> Any:
        return o - self._i()

    def __mul__(self, o: Any) -> Any:
        return self._i() * o

    def __rmul__(self, o: Any) -> Any:
        return o * self._i()

    def __lt__(self, o: Any) -> Any:
        return self._i() < o

    def __le__(self, o: Any) -> Any:
        return self._i() <= o

    def __gt__(self, o: Any) -> Any:
        return self._i() > o

    def __ge__(self, o: Any) -> Any:
        return self._i() >= o

    def __neg__(self) -> Any:
        return -self._i()

    def __pos__(self) -> Any:
        return self._i()

    def bit_length(self) -> Any:
        return self._i().bit_length()

    def __floordiv__(self, o: Any) -> Any:
        return self._i() // o

    def __rfloordiv__(self, o: Any) -> Any:
        return o // self._i()

    def __mod__(self, o: Any) -> Any:
        return self._i() % o

    def __rmod__(self, o: Any) -> Any:
        return o % self._i()

    def __truediv__(self, o: Any) -> Any:
        return self._i() / o

    def __rtruediv__(self, o: Any) -> Any:
        return o / self._i()

    def __lshift__(self, o: Any) -> Any:
        return self._i() << o

    def __rlshift__(self, o: Any) -> Any:
        return o << self._i()

    def __rshift__(self, o: Any) -> Any:
        return self._i() >> o

    def __rrshift__(self, o: Any) -> Any:
        return o >> self._i()

    def __pow__(self, o: Any) -> Any:
        return self._i() ** o

    def __rpow__(self, o: Any) -> Any:
        return o ** self._i()


def Not(x: Any) -> Any:
    if isinstance(x, SymBool):
        return SymBool(z3.Not(x.t))
    return not x


def And(*xs: Any) -> SymBool:
    return SymBool(z3.And(*[to_z3bool(x) for x in xs]))


def Or(*xs: Any) -> SymBool:
    return SymBool(z3.Or(*[to_z3bool(x) for x in xs]))


def Implies(a: Any, b: Any) -> SymBool:
    return SymBool(z3.Implies(to_z3bool(a), to_z3bool(b)))


def Ite(c: Any, a: Any, b: Any) -> Any:
    cz = to_z3bool(c)
    if isinstance(a, (SymInt, int)) and isinstance(b, (SymInt, int)) and not isinstance(a, bool):
        return SymInt(z3.If(cz, to_z3int(a), to_z3int(b)))
    if isinstance(a, (SymBool, bool)) and isinstance(b, (SymBool, bool)):
        return SymBool(z3.If(cz, to_z3bool(a), to_z3bool(b)))
    raise Unsupported("Ite on " + type(a).__name__)


# Python integer semantics ("pysem") --------------------------------------------------

FLOAT_MAX_INT_EXCL = 2**1024 - 2**970  # ints with |i| >= this do not convert to float

_BL = z3.Function("bit_length", z3.IntSort(), z3.IntSort())


def py_floordiv(a: z3.ArithRef, b: z3.ArithRef) -> z3.ArithRef:
    # z3's Int division is floor for positive divisors
    return z3.If(b > 0, a / b, (-a) / (-b))


def py_mod(a: z3.ArithRef, b: z3.ArithRef) -> z3.ArithRef:
    return a - b * py_floordiv(a, b)


class CostEvent:
    """A potentially expensive big-int operation seen on a path (C20)."""

    def __init__(self, op: str, cost: z3.ArithRef, operands: tuple):
        self.op = op
        self.cost = cost
        self.operands = operands


class SymInt:
    __slots__ = ("t",)

    def __init__(self, t: z3.ArithRef):
        self.t = t

    def __bool__(self) -> bool:
        return cur().branch(self.t != 0)

    def __hash__(self) -> int:
        raise Unsupported("hash of symbolic int")

    def __index__(self) -> int:
        raise Unsupported("index of symbolic int (would concretise)")

    def __repr__(self) -> str:
        return f"SymInt({self.t})"

    def _coerce(self, o: Any) -> Any:
        if isinstance(o, (SymInt, SymBool, int)):
            return to_z3int(o)
        return None

    def _bin(self, o: Any, f: Callable[[Any, Any], Any], swap: bool = False) -> Any:
        if isinstance(o, (SymFloat, float)):
            me = int_to_symfloat(self)
            return f(o, me) if swap else f(me, o)
        if isinstance(o, (complex, SymComplex)):
            int_to_symfloat(self)  # raises OverflowError like CPython's int -> complex coercion
            return SymComplex()
        oz = self._coerce(o)
        if oz is None:
            return NotImplemented
        a, b = (oz, self.t) if swap else (self.t, oz)
        return SymInt(f(a, b))

    def __add__(self, o: Any) -> Any:
        return self._bin(o, lambda a, b: a + b)

    def __radd__(self, o: Any) -> Any:
        return self._bin(o, lambda a, b: a + b, True)

    def __sub__(self, o: Any) -> Any:
        return self._bin(o, lambda a, b: a - b)

    def __rsub__(self, o: Any) -> Any:
        return self._bin(o, lambda a, b: a - b, True)

    def _mulcost(self, o: Any) -> None:
        if isinstance(o, SymInt) and getattr(cur(), "cost_events", None) is not None:
            a, b = self.bit_length().t, o.bit_length().t
            record_cost("int*", z3.If(a <= b, a, b), (self.t, o.t))

    def __mul__(self, o: Any) -> Any:
        if isinstance(o, (str, bytes, list, tuple)):
            return seq_repeat(o, self)
        if hasattr(o, "__symrepeat__"):
            return o.__symrepeat__(self)
        self._mulcost(o)
        return self._bin(o, lambda a, b: a * b)

    def __rmul__(self, o: Any) -> Any:
        if isinstance(o, (str, bytes, list, tuple)):
            return seq_repeat(o, self)
        if hasattr(o, "__symrepeat__"):
            return o.__symrepeat__(self)
        self._mulcost(o)
        return self._bin(o, lambda a, b: a * b, True)

    def __neg__(self) -> "SymInt":
        return SymInt(-self.t)

    def __pos__(self) -> "SymInt":
        return self

    def __abs__(self) -> "SymInt":
        return SymInt(z3.If(self.t >= 0, self.t, -self.t))

    def __invert__(self) -> "SymInt":
        return SymInt(-self.t - 1)

    def _divlike(self, o: Any, swap: bool, kind: str) -> Any:
        if isinstance(o, (SymFloat, float)):
            me = int_to_symfloat(self)
            a, b = (o, me) if swap else (me, o)
            if kind == "floordiv":
                return a // b
            if kind == "mod":
                return a % b
            return a / b
        oz = self._coerce(o)
        if oz is None:
            return NotImplemented
        a, b = (oz, self.t) if swap else (self.t, oz)
        if cur().branch(b == 0):
            raise ZeroDivisionError("division by zero")
        if kind == "floordiv":
            return SymInt(py_floordiv(a, b))
        if kind == "mod":
            return SymInt(py_mod(a, b))
        # true division of ints: OverflowError when the quotient is not representable
        absa = z3.If(a >= 0, a, -a)
        absb = z3.If(b >= 0, b, -b)
        if cur().branch(absa >= FLOAT_MAX_INT_EXCL * absb):
            raise OverflowError("integer division result too large for a float")
        q = _IDIV(a, b)
        cur().solver.add(z3.Not(z3.fpIsNaN(q)), z3.Not(z3.fpIsInf(q)))
        return SymFloat(q)

    def __floordiv__(self, o: Any) -> Any:
        return self._divlike(o, False, "floordiv")

    def __rfloordiv__(self, o: Any) -> Any:
        return self._divlike(o, True, "floordiv")

    def __mod__(self, o: Any) -> Any:
        return self._divlike(o, False, "mod")

    def __rmod__(self, o: Any) -> Any:
        return self._divlike(o, True, "mod")

    def __truediv__(self, o: Any) -> Any:
        return self._divlike(o, False, "truediv")

    def __rtruediv__(self, o: Any) -> Any:
        return self._divlike(o, True, "truediv")

    def bit_length(self) -> "SymInt":
        c = cur()
        b = _BL(self.t)
        absx = z3.If(self.t >= 0, self.t, -self.t)
        # axioms sufficient for cost reasoning: bl >= 0, bl = 0 <=> x = 0, x < 2^k ==> bl <= k for a few k
        c.solver.add(b >= 0, (b == 0) == (self.t == 0), b <= absx)
        for k in (1, 2, 8, 16, 32, 64, 128):
            c.solver.add(z3.Implies(absx < 2**k, b <= k), z3.Implies(absx >= 2 ** (k - 1), b >= k))
        return SymInt(b)

    def _shift(self, o: Any, swap: bool, left: bool) -> Any:
        oz = self._coerce(o)
        if oz is None:
            return NotImplemented
        a, n = (oz, self.t) if swap else (self.t, oz)
        c = cur()
        if c.branch(n < 0):
            raise ValueError("negative shift count")
        if left:
            record_cost("<<", z3.If(a == 0, z3.IntVal(0), n), (a, n))
            return SymInt(a * pow2(n))
        return SymInt(py_floordiv(a, pow2(n)))

    def __lshift__(self, o: Any) -> Any:
        return self._shift(o, False, True)

    def __rlshift__(self, o: Any) -> Any:
        return self._shift(o, True, True)

    def __rshift__(self, o: Any) -> Any:
        return self._shift(o, False, False)

    def __rrshift__(self, o: Any) -> Any:
        return self._shift(o, True, False)

    def _bitop(self, o: Any, name: str) -> Any:
        oz = self._coerce(o)
        if oz is None:
            return NotImplemented
        return SymInt(bitfun(name, self.t, oz))

    def __and__(self, o: Any) -> Any:
        return self._bitop(o, "and")

    __rand__ = __and__

    def __or__(self, o: Any) -> Any:
        return self._bitop(o, "or")

    __ror__ = __or__

    def __xor__(self, o: Any) -> Any:
        return self._bitop(o, "xor")

    __rxor__ = __xor__

    def __pow__(self, o: Any, mod: Any = None) -> Any:
        if mod is not None:
            raise Unsupported("3-arg pow")
        if isinstance(o, (SymFloat, float)):
            return int_to_symfloat(self) ** o
        oz = self._coerce(o)
        if oz is None:
            return NotImplemented
        return int_pow(self.t, oz)

    def __rpow__(self, o: Any) -> Any:
        if isinstance(o, (SymFloat, float)):
            return o ** int_to_symfloat(self)
        oz = self._coerce(o)
        if oz is None:
            return NotImplemented
        return int_pow(oz, self.t)

    def _cmp(self, o: Any, f: Callable[[Any, Any], Any]) -> Any:
        if isinstance(o, (SymFloat, float)):
            return f(int_to_symfloat_cmp(self), o)
        if isinstance(o, SymReal):
            return SymBool(f(z3.ToReal(self.t), o.t))
        oz = self._coerce(o)
        if oz is None:
            return NotImplemented
        return SymBool(f(self.t, oz))

    def __lt__(self, o: Any) -> Any:
        return self._cmp(o, lambda a, b: a < b)

    def __le__(self, o: Any) -> Any:
        return self._cmp(o, lambda a, b: a <= b)

    def __gt__(self, o: Any) -> Any:
        return self._cmp(o, lambda a, b: a > b)

    def __ge__(self, o: Any) -> Any:
        return self._cmp(o, lambda a, b: a >= b)

    def __eq__(self, o: Any) -> Any:  # type: ignore[override]
        if isinstance(o, (SymFloat, float, SymReal)):
            return self._cmp(o, lambda a, b: a == b)
        oz = self._coerce(o)
        if oz is None:
            return False
        return SymBool(self.t == oz)

    def __ne__(self, o: Any) -> Any:  # type: ignore[override]
        r = self.__eq__(o)
        return Not(r)


_POW2 = z3.Function("pow2", z3.IntSort(), z3.IntSort())
_IPOW = z3.Function("ipow", z3.IntSort(), z3.IntSort(), z3.IntSort())
_BITFUN = {
    "and": z3.Function("bitand", z3.IntSort(), z3.IntSort(), z3.IntSort()),
    "or": z3.Function("bitor", z3.IntSort(), z3.IntSort(), z3.IntSort()),
    "xor": z3.Function("bitxor", z3.IntSort(), z3.IntSort(), z3.IntSort()),
}


def bitfun(name: str, a: Any, b: Any) -> Any:
    """Uninterpreted and/or/xor on mathematical integers, with a commutativity instance asserted
    for every application."""
    if not isinstance(a, z3.ExprRef):
        a = z3.IntVal(a)
    if not isinstance(b, z3.ExprRef):
        b = z3.IntVal(b)
    a, b = z3.simplify(a), z3.simplify(b)
    if z3.is_int_value(a) and z3.is_int_value(b):
        # two concrete operands: the value itself (the other side of a comparison may have folded it)
        x, y = a.as_long(), b.as_long()
        return z3.IntVal({"and": x & y, "or": x | y, "xor": x ^ y}[name])
    f = _BITFUN[name]
    t = f(a, b)
    if _CUR is not None:
        _CUR.solver.add(t == f(b, a))  # commutativity instance
        # identities that hold for every integer: they connect an application whose operand is only
        # semantically 0 / -1 / equal to the other operand with the folded form on the other side
        if name == "and":
            _CUR.solver.add(z3.Implies(a == 0, t == 0), z3.Implies(b == 0, t == 0), z3.Implies(a == -1, t == b), z3.Implies(b == -1, t == a), z3.Implies(a == b, t == a))
        elif name == "or":
            _CUR.solver.add(z3.Implies(a == 0, t == b), z3.Implies(b == 0, t == a), z3.Implies(a == -1, t == -1), z3.Implies(b == -1, t == -1), z3.Implies(a == b, t == a))
        else:
            _CUR.solver.add(z3.Implies(a == 0, t == b), z3.Implies(b == 0, t == a), z3.Implies(a == -1, t == -b - 1), z3.Implies(b == -1, t == -a - 1), z3.Implies(a == b, t == 0))
        # one concrete operand c: an application with symbolic operands that happen to equal small
        # constants must agree with the concrete value
        for x_, y_ in ((a, b), (b, a)):
            if z3.is_int_value(x_) and -16 <= x_.as_long() <= 16:
                c_ = x_.as_long()
                for k_ in range(-2, 17):
                    v_ = {"and": c_ & k_, "or": c_ | k_, "xor": c_ ^ k_}[name]
                    _CUR.solver.add(z3.Implies(y_ == k_, t == v_))
    return t


def pow2(n: z3.ArithRef) -> z3.ArithRef:
    """2**n for n >= 0 as an uninterpreted function with the axioms cost/guard
    reasoning needs (positivity, small values)."""
    c = cur()
    n = z3.simplify(n)
    if z3.is_int_value(n) and 0 <= n.as_long() <= 4096:
        return z3.IntVal(2 ** n.as_long())
    p = _POW2(n)
    c.solver.add(z3.Implies(n >= 0, p >= 1), z3.Implies(n == 0, p == 1), z3.Implies(n >= 1, p >= 2 * n))
    return p


def int_pow(a: z3.ArithRef, n: z3.ArithRef) -> Any:
    c = cur()
    if c.branch(n < 0):
        # int ** negative int is a float (or ZeroDivisionError for 0)
        if c.branch(a == 0):
            raise ZeroDivisionError("0.0 cannot be raised to a negative power")
        return SymFloat(_IPOWNEG(a, n))
    absa = z3.If(a >= 0, a, -a)
    bl = SymInt(a).bit_length().t
    # cost of the result in bits is ~ bit_length(a) * n unless |a| <= 1
    record_cost("**", z3.If(z3.Or(absa <= 1, n <= 1), z3.IntVal(0), bl * (n - 1)), (a, n))
    ns = z3.simplify(n)
    if z3.is_int_value(ns) and ns.as_long() <= 8:
        r: Any = z3.IntVal(1)
        for _ in range(ns.as_long()):
            r = r * a
        return SymInt(r)
    r = _IPOW(a, n)
    c.solver.add(z3.Implies(n == 0, r == 1), z3.Implies(n == 1, r == a), z3.Implies(n == 2, r == a * a))
    return SymInt(r)


def record_cost(op: str, cost: z3.ArithRef, operands: tuple) -> None:
    """cost = size of the result in excess of the size of the operands (bits / items)."""
    c = cur()
    evs = getattr(c, "cost_events", None)
    if evs is not None:
        evs.append(CostEvent(op, cost, operands))


def seq_repeat(s: Any, n: SymInt) -> Any:
    record_cost("seq*", len(s) * (n.t - 1), (len(s), n.t))
    return SymSeqRepeat(s, n)


class SymStr:
    """A str/bytes value of symbolic length (contents are irrelevant to the kernels
    that use it; only kind and length are tracked)."""

    def __init__(self, kind: type, n: "SymInt", ident: Any = None):
        self.kind = kind
        self.n = n
        self.ident = ident  # structural identity for same_value

    def __symlen__(self) -> "SymInt":
        return self.n

    def __symisinstance__(self, types: tuple) -> bool:
        return self.kind in types or object in types

    def __hash__(self) -> int:
        raise Unsupported("hash of symbolic string")

    def __add__(self, o: Any) -> Any:
        if not isinstance(o, SymStr) or o.kind is not self.kind:
            raise TypeError("can only concatenate same kind")
        a, b = self.n.t, o.n.t
        record_cost("str+", z3.If(a <= b, a, b), (a, b))
        return SymStr(self.kind, SymInt(a + b), ("+", self.ident, o.ident))

    def __symrepeat__(self, k: Any) -> Any:
        kz = to_z3int(k)
        record_cost("seq*", self.n.t * (kz - 1), (self.n.t, kz))
        return SymStr(self.kind, SymInt(z3.If(kz > 0, self.n.t * kz, z3.IntVal(0))), ("*", self.ident, kz))

    def __mul__(self, k: Any) -> Any:
        if isinstance(k, (SymInt, SymBool, int)):
            return self.__symrepeat__(k)
        return NotImplemented

    __rmul__ = __mul__


class SymSeqRepeat:
    """Result of  concrete_sequence * symbolic_int  (only its shape is tracked)."""

    def __init__(self, seq: Any, n: SymInt):
        self.seq = seq
        self.n = n

    def __eq__(self, o: Any) -> Any:  # type: ignore[override]
        if isinstance(o, SymSeqRepeat) and o.seq == self.seq:
            return SymBool(o.n.t == self.n.t)
        return False

    def __hash__(self) -> int:
        raise Unsupported("hash of symbolic sequence")


class SymReal:
    """A real-valued quantity (clock readings).  int() truncates toward zero."""

    __slots__ = ("t",)

    def __init__(self, t: z3.ArithRef):
        self.t = t

    def __hash__(self) -> int:
        raise Unsupported("hash of symbolic real")

    def _c(self, o: Any) -> Any:
        if isinstance(o, SymReal):
            return o.t
        if isinstance(o, (SymInt, SymBool)):
            return z3.ToReal(to_z3int(o))
        if isinstance(o, (int, float)):
            return z3.RealVal(o)
        return None

    def _cmp(self, o: Any, f: Callable[[Any, Any], Any]) -> Any:
        oz = self._c(o)
        if oz is None:
            return NotImplemented
        return SymBool(f(self.t, oz))

    def __lt__(self, o: Any) -> Any:
        return self._cmp(o, lambda a, b: a < b)

    def __le__(self, o: Any) -> Any:
        return self._cmp(o, lambda a, b: a <= b)

    def __gt__(self, o: Any) -> Any:
        return self._cmp(o, lambda a, b: a > b)

    def __ge__(self, o: Any) -> Any:
        return self._cmp(o, lambda a, b: a >= b)

    def __eq__(self, o: Any) -> Any:  # type: ignore[override]
        oz = self._c(o)
        if oz is None:
            return False
        return SymBool(self.t == oz)

    def __ne__(self, o: Any) -> Any:  # type: ignore[override]
        return Not(self.__eq__(o))

    def __add__(self, o: Any) -> Any:
        return SymReal(self.t + self._c(o))

    __radd__ = __add__

    def __sub__(self, o: Any) -> Any:
        return SymReal(self.t - self._c(o))

    def __rsub__(self, o: Any) -> Any:
        return SymReal(self._c(o) - self.t)

    def __bool__(self) -> bool:
        return cur().branch(self.t != 0)

    def __repr__(self) -> str:
        return f"SymReal({self.t})"

    def trunc(self) -> SymInt:
        return SymInt(z3.If(self.t >= 0, z3.ToInt(self.t), -z3.ToInt(-self.t)))


class SymTok:
    """Opaque value with symbolic equality (hashes, names, payloads)."""

    __slots__ = ("t",)

    def __init__(self, t: z3.ExprRef):
        self.t = t

    def __eq__(self, o: Any) -> Any:  # type: ignore[override]
        if isinstance(o, SymTok) and o.t.sort() == self.t.sort():
            return SymBool(self.t == o.t)
        return False

    def __ne__(self, o: Any) -> Any:  # type: ignore[override]
        return Not(self.__eq__(o))

    def __hash__(self) -> int:
        raise Unsupported("hash of symbolic token")

    def __bool__(self) -> bool:
        return True

    def __repr__(self) -> str:
        return f"SymTok({self.t})"


# Float64 -------------------------------------------------------------------------------

F64 = z3.Float64()
RNE = z3.RNE()


def int_to_symfloat(i: SymInt) -> "SymFloat":
    """float(i) with CPython's OverflowError condition."""
    c = cur()
    absx = z3.If(i.t >= 0, i.t, -i.t)
    if c.branch(absx >= FLOAT_MAX_INT_EXCL):
        raise OverflowError("int too large to convert to float")
    return SymFloat(_i2f(i.t))


def _i2f(t: z3.ArithRef) -> z3.FPRef:
    """float(int) for in-range ints: uninterpreted, with the sign/finiteness contract
    (keeps Int and FP theories apart; mixing them makes z3 give up)."""
    ts = z3.simplify(t)
    if z3.is_int_value(ts) and abs(ts.as_long()) < 2**53:
        return z3.FPVal(float(ts.as_long()), F64)
    f = _I2F(t)
    zero = z3.FPVal(0.0, F64)
    cur().solver.add(
        z3.Not(z3.fpIsNaN(f)),
        z3.Not(z3.fpIsInf(f)),
        z3.fpLT(f, zero) == (t < 0),
        z3.fpGT(f, zero) == (t > 0),
        z3.fpIsZero(f) == (t == 0),
        z3.Implies(t == 0, z3.Not(z3.fpIsNegative(f))),
    )
    return f


def int_to_symfloat_cmp(i: SymInt) -> "SymFloat":
    # comparisons int<->float never raise in CPython (exact comparison); we approximate the
    # value by the rounded float when in range and by +-inf otherwise
    absx = z3.If(i.t >= 0, i.t, -i.t)
    inf = z3.If(i.t >= 0, z3.fpPlusInfinity(F64), z3.fpMinusInfinity(F64))
    return SymFloat(z3.If(absx >= FLOAT_MAX_INT_EXCL, inf, _i2f(i.t)))


def _tofp(o: Any) -> Any:
    if isinstance(o, SymFloat):
        return o.t
    if isinstance(o, float):
        return z3.FPVal(o, F64)
    if isinstance(o, bool):
        return z3.FPVal(float(o), F64)
    if isinstance(o, int):
        if abs(o) >= FLOAT_MAX_INT_EXCL:
            raise OverflowError("int too large to convert to float")
        return z3.FPVal(float(o), F64)
    if isinstance(o, (SymInt, SymBool)):
        return int_to_symfloat(SymInt(to_z3int(o))).t
    return None


class SymFloat:
    __slots__ = ("t",)

    def __init__(self, t: z3.FPRef):
        self.t = t

    def __hash__(self) -> int:
        raise Unsupported("hash of symbolic float")

    def __repr__(self) -> str:
        return f"SymFloat({self.t})"

    def __bool__(self) -> bool:
        return cur().branch(z3.Not(z3.fpIsZero(self.t)))

    def _bin(self, o: Any, f: Callable[[Any, Any], Any], swap: bool = False) -> Any:
        if isinstance(o, (complex, SymComplex)):
            return SymComplex()
        oz = _tofp(o)
        if oz is None:
            return NotImplemented
        a, b = (oz, self.t) if swap else (self.t, oz)
        return SymFloat(f(a, b))

    def __add__(self, o: Any) -> Any:
        return self._bin(o, lambda a, b: z3.fpAdd(RNE, a, b))

    def __radd__(self, o: Any) -> Any:
        return self._bin(o, lambda a, b: z3.fpAdd(RNE, a, b), True)

    def __sub__(self, o: Any) -> Any:
        return self._bin(o, lambda a, b: z3.fpSub(RNE, a, b))

    def __rsub__(self, o: Any) -> Any:
        return self._bin(o, lambda a, b: z3.fpSub(RNE, a, b), True)

    def __mul__(self, o: Any) -> Any:
        return self._bin(o, lambda a, b: z3.fpMul(RNE, a, b))

    def __rmul__(self, o: Any) -> Any:
        return self._bin(o, lambda a, b: z3.fpMul(RNE, a, b), True)

    def __neg__(self) -> "SymFloat":
        return SymFloat(z3.fpNeg(self.t))

    def __pos__(self) -> "SymFloat":
        return self

    def __abs__(self) -> "SymFloat":
        return SymFloat(z3.fpAbs(self.t))

    def _div(self, o: Any, swap: bool, kind: str) -> Any:
        oz = _tofp(o)
        if oz is None:
            return NotImplemented
        a, b = (oz, self.t) if swap else (self.t, oz)
        if cur().branch(z3.fpIsZero(b)):
            raise ZeroDivisionError("float division by zero")
        if kind == "truediv":
            return SymFloat(z3.fpDiv(RNE, a, b))
        # floor division / modulo: value left opaque (libm), only raise-conditions modelled
        fn = _FPFUN[kind]
        return SymFloat(fn(a, b))

    def __truediv__(self, o: Any) -> Any:
        return self._div(o, False, "truediv")

    def __rtruediv__(self, o: Any) -> Any:
        return self._div(o, True, "truediv")

    def __floordiv__(self, o: Any) -> Any:
        return self._div(o, False, "floordiv")

    def __rfloordiv__(self, o: Any) -> Any:
        return self._div(o, True, "floordiv")

    def __mod__(self, o: Any) -> Any:
        return self._div(o, False, "mod")

    def __rmod__(self, o: Any) -> Any:
        return self._div(o, True, "mod")

    def _pow(self, a: Any, b: Any, b_is_int: bool) -> Any:
        c = cur()
        # CPython float_pow: 0.0 ** negative -> ZeroDivisionError; negative ** non-integer -> complex;
        # finite operands with infinite result -> OverflowError
        if c.branch(z3.And(z3.fpIsZero(a), z3.fpLT(b, z3.FPVal(0.0, F64)))):
            raise ZeroDivisionError("0.0 cannot be raised to a negative power")
        if not b_is_int:
            if c.branch(z3.And(z3.fpLT(a, z3.FPVal(0.0, F64)), z3.Not(z3.fpIsInf(a)), z3.Not(z3.fpIsInf(b)), z3.Not(_FPISINT(b)))):
                return SymComplex()
        r = _FPFUN["pow"](a, b)
        ovf = _FPOVF(a, b)
        if c.branch(z3.And(ovf, z3.Not(z3.fpIsInf(a)), z3.Not(z3.fpIsInf(b)), z3.Not(z3.fpIsNaN(a)), z3.Not(z3.fpIsNaN(b)))):
            raise OverflowError("(34, 'Numerical result out of range')")
        return SymFloat(r)

    def __pow__(self, o: Any, mod: Any = None) -> Any:
        oz = _tofp(o)
        if oz is None:
            return NotImplemented
        return self._pow(self.t, oz, isinstance(o, (int, SymInt, SymBool)))

    def __rpow__(self, o: Any) -> Any:
        oz = _tofp(o)
        if oz is None:
            return NotImplemented
        return self._pow(oz, self.t, False)

    def _cmp(self, o: Any, f: Callable[[Any, Any], Any]) -> Any:
        if isinstance(o, (SymInt, SymBool)):
            oz = int_to_symfloat_cmp(SymInt(to_z3int(o))).t
        elif isinstance(o, int) and not isinstance(o, bool) and abs(o) >= FLOAT_MAX_INT_EXCL:
            oz = z3.fpPlusInfinity(F64) if o > 0 else z3.fpMinusInfinity(F64)
        else:
            oz = _tofp(o)
        if oz is None:
            return NotImplemented
        return SymBool(f(self.t, oz))

    def __lt__(self, o: Any) -> Any:
        return self._cmp(o, z3.fpLT)

    def __le__(self, o: Any) -> Any:
        return self._cmp(o, z3.fpLEQ)

    def __gt__(self, o: Any) -> Any:
        return self._cmp(o, z3.fpGT)

    def __ge__(self, o: Any) -> Any:
        return self._cmp(o, z3.fpGEQ)

    def __eq__(self, o: Any) -> Any:  # type: ignore[override]
        r = self._cmp(o, z3.fpEQ)
        return False if r is NotImplemented else r

    def __ne__(self, o: Any) -> Any:  # type: ignore[override]
        return Not(self.__eq__(o))


class SymComplex:
    """Marker: the operation produced a complex number (value not tracked)."""


_FPFUN = {
    "floordiv": z3.Function("fp_floordiv", F64, F64, F64),
    "mod": z3.Function("fp_mod", F64, F64, F64),
    "pow": z3.Function("fp_pow", F64, F64, F64),
}
_FPISINT = z3.Function("fp_is_integral", F64, z3.BoolSort())
_I2F = z3.Function("int_to_float", z3.IntSort(), F64)
_FPOVF = z3.Function("fp_pow_overflows", F64, F64, z3.BoolSort())
_IPOWNEG = z3.Function("int_pow_negative", z3.IntSort(), z3.IntSort(), F64)
_IDIV = z3.Function("int_truediv", z3.IntSort(), z3.IntSort(), F64)


def same_value(a: Any, b: Any) -> Any:
    """Identity of results for translation-validation style oracles (SMT equality:
    NaN equals NaN, -0.0 differs from +0.0)."""
    if isinstance(a, SymFloat) or isinstance(b, SymFloat):
        if isinstance(a, (SymInt, int)) or isinstance(b, (SymInt, int)):
            if not isinstance(a, (SymFloat, float)) or not isinstance(b, (SymFloat, float)):
                return False
        az, bz = _tofp(a), _tofp(b)
        if az is None or bz is None:
            return False
        return SymBool(az == bz)
    if isinstance(a, (SymInt, SymBool)) or isinstance(b, (SymInt, SymBool)):
        if isinstance(a, (SymBool, bool)) != isinstance(b, (SymBool, bool)):
            return False
        if not isinstance(a, (SymInt, SymBool, int)) or not isinstance(b, (SymInt, SymBool, int)):
            return False
        return SymBool(to_z3int(a) == to_z3int(b))
    if isinstance(a, SymStr) or isinstance(b, SymStr):
        if not (isinstance(a, SymStr) and isinstance(b, SymStr)) or a.kind is not b.kind:
            return False
        return _same_ident(a.ident, b.ident)
    if isinstance(a, SymSeqRepeat) or isinstance(b, SymSeqRepeat):
        return a == b
    if isinstance(a, SymComplex) and isinstance(b, SymComplex):
        return True
    if type(a) is not type(b):
        return False
    if isinstance(a, float) and a != a and b != b:
        return True
    return a == b


def _same_ident(a: Any, b: Any) -> Any:
    if isinstance(a, tuple) and isinstance(b, tuple):
        if len(a) != len(b):
            return False
        conds = []
        for x, y in zip(a, b):
            r = _same_ident(x, y)
            if r is False:
                return False
            if r is not True:
                conds.append(to_z3bool(r))
        return SymBool(z3.And(*conds)) if conds else True
    if isinstance(a, z3.ExprRef) or isinstance(b, z3.ExprRef):
        return SymBool(to_z3int(SymInt(a) if isinstance(a, z3.ExprRef) else a) == to_z3int(SymInt(b) if isinstance(b, z3.ExprRef) else b))
    return a == b


# --------------------------------------------------------------------------------------
# builtin shims used by rewritten kernels


def s_int(x: Any = 0, *a: Any) -> Any:
    if isinstance(x, SymInt):
        return x
    if isinstance(x, SymBool):
        return SymInt(to_z3int(x))
    if isinstance(x, SymReal):
        return x.trunc()
    if isinstance(x, SymFloat):
        raise Unsupported("int(SymFloat)")
    if is_sym(x):
        raise Unsupported(f"int({type(x).__name__})")
    return int(x, *a)


def s_bool(x: Any = False) -> Any:
    if isinstance(x, SymBool):
        return x
    if isinstance(x, SymInt):
        return SymBool(x.t != 0)
    if isinstance(x, SymFloat):
        return SymBool(z3.Not(z3.fpIsZero(x.t)))
    if isinstance(x, SymReal):
        return SymBool(x.t != 0)
    return bool(x)


def s_float(x: Any = 0.0) -> Any:
    if isinstance(x, SymFloat):
        return x
    if isinstance(x, (SymInt, SymBool)):
        return int_to_symfloat(SymInt(to_z3int(x)))
    if isinstance(x, SymReal):
        raise Unsupported("float(SymReal)")
    return float(x)


def s_len(x: Any) -> Any:
    if hasattr(x, "__symlen__"):
        return x.__symlen__()
    return len(x)


def s_abs(x: Any) -> Any:
    return abs(x)


def s_isinstance(x: Any, t: Any) -> bool:
    ts = t if isinstance(t, tuple) else (t,)
    flat: list[Any] = []
    for e in ts:
        if isinstance(e, tuple):
            flat.extend(e)
        else:
            flat.append(e)
    if isinstance(x, SymBool):
        return any(e in (bool, int, object) for e in flat)
    if isinstance(x, SymInt):
        return any(e in (int, object) for e in flat)
    if isinstance(x, (SymFloat, SymReal)):
        return any(e in (float, object) for e in flat)
    if isinstance(x, SymComplex):
        return any(e in (complex, object) for e in flat)
    if isinstance(x, SymSeqRepeat):
        return isinstance(x.seq, t)
    if hasattr(x, "__symisinstance__"):
        return x.__symisinstance__(tuple(flat))
    return isinstance(x, t)


def s_min(*args: Any, **kw: Any) -> Any:
    xs = list(args[0]) if len(args) == 1 else list(args)
    if not any(is_sym(x) for x in xs):
        return min(xs, **kw)
    if kw:
        raise Unsupported("min with key on symbolic values")
    r = xs[0]
    for x in xs[1:]:
        if x < r:
            r = x
    return r


def s_max(*args: Any, **kw: Any) -> Any:
    xs = list(args[0]) if len(args) == 1 else list(args)
    if not any(is_sym(x) for x in xs):
        return max(xs, **kw)
    if kw:
        raise Unsupported("max with key on symbolic values")
    r = xs[0]
    for x in xs[1:]:
        if x > r:
            r = x
    return r


def s_str(x: Any = "") -> Any:
    if is_sym(x):
        if hasattr(x, "__symstr__"):
            return x.__symstr__()
        raise Unsupported(f"str({type(x).__name__})")
    return str(x)


def s_hash(x: Any) -> Any:
    if is_sym(x):
        raise Unsupported("hash() of symbolic value")
    return hash(x)


def s_sorted(xs: Iterable[Any], **kw: Any) -> list[Any]:
    lst = list(xs)
    key = kw.get("key")
    rev = kw.get("reverse", False)
    keys = [key(x) if key else x for x in lst]

    def has_sym(k: Any) -> bool:
        if is_sym(k):
            return True
        if isinstance(k, tuple):
            return any(has_sym(e) for e in k)
        return False

    if not any(has_sym(k) for k in keys):
        return sorted(lst, **kw)
    # insertion sort driven by symbolic comparisons (stable)
    out: list[tuple[Any, Any]] = []
    for k, x in zip(keys, lst):
        pos = len(out)
        while pos > 0 and _lt(k, out[pos - 1][0]):
            pos -= 1
        out.insert(pos, (k, x))
    res = [x for _, x in out]
    if rev:
        raise Unsupported("sorted(reverse=True) on symbolic keys")
    return res


def _lt(a: Any, b: Any) -> bool:
    if isinstance(a, tuple) and isinstance(b, tuple):
        for x, y in zip(a, b):
            if x == y:
                continue
            return bool(x < y)
        return len(a) < len(b)
    return bool(a < b)


def s_fstr(parts: list) -> Any:
    for typ, hook in FSTR_HOOKS:
        if any(isinstance(p, typ) for p in parts):
            return hook(parts)
    if not any(is_sym(p) for p in parts):
        return "".join(format(p, "") if not isinstance(p, str) else p for p in parts)
    acc: Any = None
    for p in parts:
        if isinstance(p, SymZStr):
            t = p.t
        elif isinstance(p, (SymInt, SymBool)) and not isinstance(p, SymBool):
            # rendered ints are fresh strings over the decimal-numeral language (over-approximation:
            # the link to the int's value is dropped; str.from_int makes both solvers time out)
            c = cur()
            k = getattr(c, "_fresh_num", 0)
            c._fresh_num = k + 1  # type: ignore[attr-defined]
            t = z3.String(f"num!{k}")
            digits = z3.Union(z3.Re("0"), z3.Concat(z3.Range("1", "9"), z3.Star(z3.Range("0", "9"))))
            c.solver.add(z3.InRe(t, z3.Concat(z3.Option(z3.Re("-")), digits)), z3.Length(t) <= 4)
        elif is_sym(p):
            raise Unsupported(f"f-string of {type(p).__name__}")
        else:
            t = z3.StringVal(p if isinstance(p, str) else format(p, ""))
        acc = t if acc is None else z3.Concat(acc, t)
    return SymZStr(acc)


SHIMS: dict[str, Any] = {
    "int": s_int,
    "bool": s_bool,
    "float": s_float,
    "len": s_len,
    "abs": s_abs,
    "isinstance": s_isinstance,
    "min": s_min,
    "max": s_max,
    "str": s_str,
    "hash": s_hash,
    "sorted": s_sorted,
}


class _Rewriter(ast.NodeTransformer):
    def __init__(self, names: set[str], extra: "Callable[[ast.AST], ast.AST | None] | None" = None):
        self.names = names
        self.extra = extra

    def visit_Call(self, node: ast.Call) -> ast.AST:
        self.generic_visit(node)
        if isinstance(node.func, ast.Name) and node.func.id in self.names:
            node.func = ast.copy_location(ast.Name(id="__symx_" + node.func.id, ctx=ast.Load()), node.func)
        return node

    def visit_JoinedStr(self, node: ast.JoinedStr) -> ast.AST:
        self.generic_visit(node)
        parts: list[ast.expr] = []
        for v in node.values:
            if isinstance(v, ast.Constant):
                parts.append(v)
            elif isinstance(v, ast.FormattedValue) and v.format_spec is None and v.conversion == -1:
                parts.append(v.value)
            else:
                # formatted with a spec/conversion: keep as a nested plain f-string
                parts.append(ast.JoinedStr(values=[v]))
        call = ast.Call(func=ast.Name(id="__symx_fstr", ctx=ast.Load()), args=[ast.List(elts=parts, ctx=ast.Load())], keywords=[])
        return ast.copy_location(call, node)

    def visit(self, node: ast.AST) -> Any:
        if self.extra is not None:
            r = self.extra(node)
            if r is not None:
                return r
        return super().visit(node)


class Kernel:
    """Functions extracted from a /repo module, re-pointed at the shims and exec'd in
    a copy of the real module namespace.  Regenerated from the working tree on every
    run; source hashes are reported in evidence."""

    def __init__(
        self,
        module: str,
        names: list[str],
        shims: "dict[str, Any] | None" = None,
        extra_globals: "dict[str, Any] | None" = None,
        node_hook: "Callable[[ast.AST], ast.AST | None] | None" = None,
        closure: bool = True,
    ):
        self.module = module
        mod = importlib.import_module(module)
        path = inspect.getsourcefile(mod)
        assert path is not None
        self.path = path
        with open(path, encoding="utf-8") as f:
            src = f.read()
        tree = ast.parse(src)
        shims = dict(SHIMS if shims is None else shims)
        self.ns: dict[str, Any] = dict(mod.__dict__)
        for k, v in shims.items():
            self.ns["__symx_" + k] = v
        self.ns["__symx_fstr"] = s_fstr
        if extra_globals:
            self.ns.update(extra_globals)
        self.funcs: dict[str, Any] = {}
        self.hashes: dict[str, str] = {}
        rw = _Rewriter(set(shims), node_hook)
        # close the requested set under references to other module-level functions, so a
        # helper introduced by a refactoring is rewritten too instead of silently running
        # un-rewritten on proxies
        top = {st.name: st for st in tree.body if isinstance(st, (ast.FunctionDef, ast.AsyncFunctionDef))}
        names = list(names)
        seen = set(names)
        i = 0
        while i < len(names) and closure:
            node = self._find(tree, names[i])
            i += 1
            if node is None:
                continue
            for sub in ast.walk(node):
                if isinstance(sub, ast.Name) and sub.id in top and sub.id not in seen:
                    seen.add(sub.id)
                    names.append(sub.id)
        for name in names:
            node = self._find(tree, name)
            if node is None:
                raise Unsupported(f"{module}:{name} not found in source")
            seg = ast.get_source_segment(src, node) or ""
            self.hashes[f"{module}.{name}"] = hashlib.sha256(seg.encode()).hexdigest()[:16]
            fn_node = rw.visit(node)
            fn_node.decorator_list = []
            m = ast.Module(body=[fn_node], type_ignores=[])
            ast.fix_missing_locations(m)
            code = compile(m, f"<symx:{path}:{name}>", "exec")
            loc: dict[str, Any] = {}
            exec(code, self.ns, loc)
            fn = loc[node.name]
            self.funcs[name] = fn
            # make sibling kernels call each other (module-level functions only)
            if "." not in name:
                self.ns[node.name] = fn

    @staticmethod
    def _find(tree: ast.Module, name: str) -> "ast.FunctionDef | None":
        parts = name.split(".")
        body: list[ast.stmt] = tree.body
        node: Any = None
        for i, p in enumerate(parts):
            node = None
            for st in body:
                if isinstance(st, (ast.FunctionDef, ast.AsyncFunctionDef, ast.ClassDef)) and st.name == p:
                    node = st
                    break
                # also look inside top-level if/try blocks
            if node is None:
                return None
            if isinstance(node, ast.ClassDef):
                body = node.body
        return node if isinstance(node, (ast.FunctionDef, ast.AsyncFunctionDef)) else None

    def __getitem__(self, name: str) -> Any:
        return self.funcs[name]


def source_hash(path: str) -> str:
    with open(path, "rb") as f:
        return hashlib.sha256(f.read()).hexdigest()[:16]


# --------------------------------------------------------------------------------------
# z3 string theory proxy (used where contents matter: platform names, message texts)


class SymZStr:
    __slots__ = ("t",)

    def __init__(self, t: Any):
        self.t = t if not isinstance(t, str) else z3.StringVal(t)

    @staticmethod
    def _c(o: Any) -> Any:
        if isinstance(o, SymZStr):
            return o.t
        if isinstance(o, str):
            return z3.StringVal(o)
        return None

    def __eq__(self, o: Any) -> Any:  # type: ignore[override]
        oz = self._c(o)
        if oz is None:
            return False
        return SymBool(self.t == oz)

    def __ne__(self, o: Any) -> Any:  # type: ignore[override]
        return Not(self.__eq__(o))

    def __hash__(self) -> int:
        # constant hash: set/dict membership is then decided by the symbolic __eq__ (forks);
        # collisions are legal, so this is exact
        return 0

    def split(self, sep: Any = None, maxsplit: int = -1) -> "_SymSplit":
        if sep is None:
            raise Unsupported("str.split() without separator on symbolic string")
        return _SymSplit(self, self._c(sep))

    def find(self, sub: Any, start: Any = 0) -> SymInt:
        return SymInt(z3.IndexOf(self.t, self._c(sub), to_z3int(start)))

    def startswith(self, p: Any) -> SymBool:
        return SymBool(z3.PrefixOf(self._c(p), self.t))

    def endswith(self, p: Any) -> SymBool:
        return SymBool(z3.SuffixOf(self._c(p), self.t))

    def __contains__(self, p: Any) -> bool:
        return bool(SymBool(z3.Contains(self.t, self._c(p))))

    def __symlen__(self) -> SymInt:
        return SymInt(z3.Length(self.t))

    def __add__(self, o: Any) -> "SymZStr":
        return SymZStr(z3.Concat(self.t, self._c(o)))

    def __radd__(self, o: Any) -> "SymZStr":
        return SymZStr(z3.Concat(self._c(o), self.t))

    def __symisinstance__(self, types: tuple) -> bool:
        return str in types or object in types

    def __lt__(self, o: Any) -> SymBool:
        return SymBool(self.t < self._c(o))

    def __le__(self, o: Any) -> SymBool:
        return SymBool(self.t <= self._c(o))

    def __gt__(self, o: Any) -> SymBool:
        return SymBool(self._c(o) < self.t)

    def __ge__(self, o: Any) -> SymBool:
        return SymBool(self._c(o) <= self.t)

    def __repr__(self) -> str:
        return f"SymZStr({self.t})"


class _SymSplit:
    """Result of SymZStr.split(sep): only [0] (text before the first separator) is modelled."""

    def __init__(self, s: SymZStr, sep: Any):
        self.s = s
        self.sep = sep

    def __getitem__(self, i: Any) -> SymZStr:
        if i != 0:
            raise Unsupported("split()[i] for i != 0 on symbolic string")
        idx = z3.IndexOf(self.s.t, self.sep, 0)
        return SymZStr(z3.If(idx < 0, self.s.t, z3.SubString(self.s.t, 0, idx)))


def zstr(ctx: "Ctx", name: str, maxlen: "int | None" = None) -> SymZStr:
    v = z3.String(name)
    ctx.vars[name] = v
    if maxlen is not None:
        ctx.solver.add(z3.Length(v) <= maxlen)
    return SymZStr(v)


def sym_index(seq: Any, i: Any) -> Any:
    """seq[i] for a concrete-length sequence and a symbolic int index (forks)."""
    if not isinstance(i, SymInt):
        return seq[i]
    n = len(seq)
    for k in range(-n, n):
        if i == k:
            return seq[k]
    raise IndexError("tuple index out of range")


def sym_bound(b: Any, n: int, default: int) -> int:
    """Concretise one slice bound against length n exactly as CPython's slice.indices (step 1)."""
    if b is None:
        return default
    if not isinstance(b, SymInt):
        return slice(b, None).indices(n)[0] if True else 0
    if b < 0:
        b = b + n
        if b < 0:
            return 0
    for k in range(0, n):
        if b == k:
            return k
    return n


def sym_slice(seq: Any, lo: Any, hi: Any) -> Any:
    n = len(seq)
    a = sym_bound(lo, n, 0)
    b = sym_bound(hi, n, n)
    return seq[a:b]


class SymSeq:
    """Concrete-length tuple whose indexing accepts symbolic ints/slices."""

    def __init__(self, items: tuple):
        self.items = tuple(items)

    def __getitem__(self, i: Any) -> Any:
        if isinstance(i, slice):
            if i.step is not None and not (isinstance(i.step, int) and i.step == 1):
                raise Unsupported("slice step")
            return sym_slice(self.items, i.start, i.stop)
        return sym_index(self.items, i)

    def __len__(self) -> int:
        return len(self.items)

    def __iter__(self) -> Any:
        return iter(self.items)
