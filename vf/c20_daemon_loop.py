"""C20 K3: the daemon's import-following update terminates and processes every changed module once.

Server.fine_grained_increment_follow_imports / find_reachable_changed_modules / direct_imports run
from source on a duck module graph; the solver chooses the import edges among three modules
(cycles and self edges included), which modules are roots of the request and which files changed.
The fine-grained manager, the file-system watcher and the suppressed-module helpers are stubs.
Obligations: the request returns (a runaway work-list is cut off and reported), every changed module
that is reachable from the roots is handed to the fine-grained manager, and none of them twice.
"""

from __future__ import annotations

from typing import Any

from vf.symx import Ctx, Kernel

MODS = ["ma", "mb", "mc"]


class _Runaway(Exception):
    pass


def run(rep: Any, tier: str) -> None:
    from mypy.modulefinder import BuildSource

    K = Kernel("mypy.dmypy_server", ["Server.fine_grained_increment_follow_imports", "Server.find_reachable_changed_modules", "Server.direct_imports"], closure=False)
    rep.kernels_from(K)
    fn = K["Server.fine_grained_increment_follow_imports"]
    ctx = Ctx(max_paths=2_000_000)
    found: dict = {}
    n = {"p": 0, "cyclic": 0, "updates": 0}
    pairs = [(a, b) for a in MODS for b in MODS if tier != "quick" or a != b]

    def body(c: Ctx) -> None:
        deps = {m: [] for m in MODS}
        for a, b in pairs:
            if bool(c.bool(f"{a}_imports_{b}")):
                deps[a].append(b)
        roots = [m for m in MODS if bool(c.bool(f"{m}_is_root"))] or ["ma"]
        changed_paths = {m + ".py" for m in MODS if bool(c.bool(f"{m}_changed"))}
        updates: list = []

        class St:
            def __init__(self, m: str):
                self.id = m
                self.path = m + ".py"
                self.dependencies = list(deps[m])
                self.ancestors: list = []

        graph = {m: St(m) for m in MODS}

        class Mgr:
            options = None
            data_dir = ""
            search_paths = None

            @staticmethod
            def log(*a: Any) -> None:
                pass

            @staticmethod
            def add_stats(**k: Any) -> None:
                pass

        class FGM:
            manager = Mgr
            deps: dict = {}

            def __init__(self) -> None:
                self.graph = graph

            def update(self, changed: list, removed: list, followed: bool = False) -> list:
                if len(updates) > 40:
                    raise _Runaway()
                updates.append((list(changed), list(removed)))
                return []

        class Watch:
            @staticmethod
            def find_changed() -> set:
                return set(changed_paths)

        class Srv:
            fine_grained_manager = FGM()
            fswatcher = Watch
            fscache = None
            previous_sources: list = []
            find_reachable_changed_modules = K["Server.find_reachable_changed_modules"]
            direct_imports = K["Server.direct_imports"]

            def update_sources(self, s: Any) -> None:
                pass

            def add_explicitly_new(self, s: Any, ch: Any) -> None:
                pass

            def find_added_suppressed(self, g: Any, seen: Any, sp: Any) -> list:
                return []

        K.ns.update(compute_search_paths=lambda *a: None, refresh_suppressed_submodules=lambda *a: None, fix_module_deps=lambda g: None, find_all_sources_in_build=lambda g: [], add_all_sources_to_changed=lambda s, ch: None)
        viol = None
        try:
            fn(Srv(), [BuildSource(m + ".py", m) for m in roots])
        except _Runaway:
            viol = "the update does not terminate (work-list keeps growing)"
        n["p"] += 1
        n["cyclic"] += 1 if any(a in deps[b] and b in deps[a] for a in MODS for b in MODS) else 0
        n["updates"] += len(updates)
        if viol is None:
            processed = [m for ch, _ in updates for m, _p in ch]
            # reference: changed modules reachable from the roots, where the search does not look
            # through a changed module until it has been processed (its imports are followed after)
            reach: set = set()
            todo = list(roots)
            while todo:
                x = todo.pop()
                if x in reach:
                    continue
                reach.add(x)
                todo += deps[x]
            want = sorted(m for m in reach if m + ".py" in changed_paths)
            if sorted(set(processed)) != want:
                viol = f"changed modules reachable from the roots {want}, handed to the fine-grained manager {sorted(set(processed))}"
            elif len(processed) != len(set(processed)):
                viol = f"a changed module is processed more than once: {processed}"
        c.stats["assert_queries"] += 1
        if viol is None:
            c.stats["discharged"] += 1
        else:
            c.stats["refuted"] += 1
            cls = viol if "terminate" in viol else ("changed modules processed differ from the reachable changed set" if "handed" in viol else "a changed module is processed more than once")
            found.setdefault("daemon update: " + cls, (viol, {k: v for k, v in deps.items()}, roots, sorted(changed_paths)))

    ctx.explore(body)
    rep.add_ctx("K3 daemon import-following update terminates and covers the changed modules", ctx, requests=n["p"], with_import_cycle=n["cyclic"], manager_updates=n["updates"])
    rep.twin("K3: requests on cyclic graphs reached", n["cyclic"] > 0)
    rep.bounds.append("K3: three modules, every import relation among them (cycles included; self edges in the thorough tier), every non-empty root set, every set of changed files")
    rep.assumptions.append("K3: stubs for FineGrainedBuildManager.update (records its calls), FileSystemWatcher.find_changed, suppressed-module refresh, source bookkeeping; the graph does not change during the request")
    for key, (viol, deps, roots, changed) in found.items():
        rep.sample({"kernel": "fine_grained_increment_follow_imports", "class": key, "imports": deps, "roots": roots, "changed": changed, "violation": viol})

        def replay(d: str, deps: dict = deps, roots: list = roots, changed: list = changed, viol: str = viol) -> tuple[bool, str]:
            # a real daemon: check, edit the changed files, check again under a time limit, compare with a fresh run
            import os
            import subprocess
            import sys

            for m in MODS:
                with open(os.path.join(d, m + ".py"), "w") as f:
                    f.write("".join(f"import {x}\n" for x in deps[m] if x != m) + f"x_{m}: int = 1\n")
            env = dict(os.environ)
            env.pop("PYTHONPATH", None)
            dm = [sys.executable, "-m", "mypy.dmypy", "--status-file", "st.json"]
            files = [m + ".py" for m in roots]
            try:
                subprocess.run(dm + ["run", "--", "--no-error-summary"] + files, cwd=d, env=env, capture_output=True, text=True, timeout=300)
                for p in changed:
                    with open(os.path.join(d, p), "a") as f:
                        f.write("y: str = 1\n")
                    os.utime(os.path.join(d, p), (2_000_000_000, 2_000_000_000))
                try:
                    r = subprocess.run(dm + ["run", "--", "--no-error-summary"] + files, cwd=d, env=env, capture_output=True, text=True, timeout=90)
                    warm = (r.returncode, r.stdout.strip())
                except subprocess.TimeoutExpired:
                    warm = ("TIMEOUT", "the daemon did not answer within 90 s")
                fresh = subprocess.run([sys.executable, "-m", "mypy", "--no-incremental", "--no-error-summary"] + files, cwd=d, env=env, capture_output=True, text=True, timeout=300)
                cold = (fresh.returncode, fresh.stdout.strip())
            finally:
                subprocess.run(dm + ["kill"], cwd=d, env=env, capture_output=True, text=True, timeout=60)
            return warm != cold, f"{viol}\ndaemon after the edit: {warm}\nfresh run: {cold}"

        rep.candidate(key, f"{viol}; imports {deps}, roots {roots}, changed {changed}", {"imports": deps, "roots": roots, "changed": changed}, replay)
