"""A dispatching stand-in for librt.internal.

Real ReadBuffer/WriteBuffer objects are passed through to the compiled extension, so the
rest of mypy works unchanged.  TokWrite/TokRead are *typed token buffers*: every primitive
write records (kind, value) and every primitive read checks that the kind it expects is the
kind that was written.  The real binary format is not self-describing at this level (a str
read where an int was written yields garbage, not an error), so the token buffer is what
makes writer/reader pairing decidable; values may be symbolic terms.

install() must run before any mypy module is imported.
"""

from __future__ import annotations

import sys
import types
from typing import Any


class PairingError(Exception):
    pass


class TokWrite:
    def __init__(self) -> None:
        self.toks: list[tuple[str, Any]] = []


class TokRead:
    def __init__(self, toks: list[tuple[str, Any]]):
        self.toks = toks
        self.pos = 0

    def take(self, kind: str) -> Any:
        if self.pos >= len(self.toks):
            raise PairingError(f"reader wants {kind} at token {self.pos} but the writer wrote only {len(self.toks)} tokens")
        k, v = self.toks[self.pos]
        # a bool is written as the one-byte tag LITERAL_FALSE / LITERAL_TRUE: the two kinds coincide
        if kind == "tag" and k == "bool":
            self.pos += 1
            return v if not isinstance(v, bool) else int(v)
        if kind == "bool" and k == "tag" and v in (0, 1):
            self.pos += 1
            return bool(v)
        if k != kind:
            raise PairingError(f"reader wants {kind} at token {self.pos} but the writer wrote {k} ({v!r})")
        self.pos += 1
        return v


_real: Any = None


def install() -> None:
    global _real
    if "librt.internal" in sys.modules and getattr(sys.modules["librt.internal"], "__verif_stub__", False):
        return
    if any(m == "mypy" or m.startswith("mypy.") for m in sys.modules):
        raise RuntimeError("librt_stub.install() must run before mypy is imported")
    import librt
    import librt.internal as real

    _real = real
    mod = types.ModuleType("librt.internal")
    for n in dir(real):
        if not n.startswith("__"):
            setattr(mod, n, getattr(real, n))
    mod.__verif_stub__ = True  # type: ignore[attr-defined]

    def mk_write(kind: str, realfn: Any) -> Any:
        def w(data: Any, value: Any) -> None:
            if isinstance(data, TokWrite):
                data.toks.append((kind, value))
            else:
                realfn(data, value)

        return w

    def mk_read(kind: str, realfn: Any) -> Any:
        def r(data: Any) -> Any:
            if isinstance(data, TokRead):
                return data.take(kind)
            return realfn(data)

        return r

    for kind in ("bool", "bytes", "float", "int", "str", "tag"):
        setattr(mod, "write_" + kind, mk_write(kind, getattr(real, "write_" + kind)))
        setattr(mod, "read_" + kind, mk_read(kind, getattr(real, "read_" + kind)))
    sys.modules["librt.internal"] = mod
    librt.internal = mod  # type: ignore[attr-defined]


# ---------------------------------------------------------------------------------------
# extract_symbol over token buffers: a transcription of _skip_class/_skip_object of
# librt_internal.c (tag constants are re-read from the C source on every run)


class TokSlice:
    def __init__(self, toks: list):
        self.toks = toks


_TAGS: "dict[str, int] | None" = None


def c_tags() -> "dict[str, int]":
    global _TAGS
    if _TAGS is None:
        import os
        import re

        repo = os.environ.get("VERIF_REPO", "/repo")
        src = open(os.path.join(repo, "mypyc/lib-rt/internal/librt_internal.c")).read()
        _TAGS = {m.group(1): int(m.group(2)) for m in re.finditer(r"^#define\s+([A-Z_0-9]+)\s+(\d+)\s*$", src, re.M)}
    return _TAGS


def _skip_object(rd: TokRead, tag: int) -> None:
    T = c_tags()
    if tag in (T["LITERAL_STR"], T["LITERAL_BYTES"]):
        _skip_str_bytes(rd)
    elif tag in (T["LITERAL_NONE"], T["LITERAL_FALSE"], T["LITERAL_TRUE"]):
        pass
    elif tag in (T["LIST_GEN"], T["TUPLE_GEN"]):
        for _ in range(rd.take("int")):
            _skip_object(rd, rd.take("tag"))
    elif tag == T["LITERAL_INT"]:
        rd.take("int")
    elif tag == T["INSTANCE"]:
        second = rd.take("tag")
        if T["INSTANCE_STR"] <= second <= T["INSTANCE_OBJECT"]:
            pass
        elif second == T["INSTANCE_SIMPLE"]:
            _skip_str_bytes(rd)
        elif second == T["INSTANCE_GENERIC"]:
            skip_class(rd)
        else:
            raise PairingError(f"Unexpected instance tag: {second}")
    elif T["MYPY_FILE"] < tag < T["RESERVED"]:
        skip_class(rd)
    elif tag == T["LIST_INT"]:
        for _ in range(rd.take("int")):
            rd.take("int")
    elif tag in (T["LIST_STR"], T["LIST_BYTES"]):
        for _ in range(rd.take("int")):
            _skip_str_bytes(rd)
    elif tag == T["DICT_STR_GEN"]:
        for _ in range(rd.take("int")):
            _skip_str_bytes(rd)
            _skip_object(rd, rd.take("tag"))
    elif tag == T["LITERAL_FLOAT"]:
        rd.take("float")
    elif tag == T["LITERAL_COMPLEX"]:
        rd.take("float")
        rd.take("float")
    elif tag == T["LITERAL_SENTINEL"]:
        _skip_str_bytes(rd)
        _skip_str_bytes(rd)
    else:
        raise PairingError(f"Unsupported tag while skipping a symbol: {tag}")


def _skip_str_bytes(rd: TokRead) -> None:
    if rd.pos >= len(rd.toks) or rd.toks[rd.pos][0] not in ("str", "bytes"):
        raise PairingError(f"skipper wants str/bytes at token {rd.pos}, found {rd.toks[rd.pos] if rd.pos < len(rd.toks) else 'end'}")
    rd.pos += 1


def skip_class(rd: TokRead) -> None:
    end = c_tags()["END_TAG"]
    while True:
        tag = rd.take("tag")
        if tag == end:
            return
        _skip_object(rd, tag)


def _install_extract() -> None:
    mod = sys.modules["librt.internal"]
    real_extract = getattr(_real, "extract_symbol", None)
    real_rb = _real.ReadBuffer

    def extract_symbol(data: Any) -> Any:
        if isinstance(data, TokRead):
            start = data.pos
            skip_class(data)
            return TokSlice(data.toks[start : data.pos])
        return real_extract(data)

    class ReadBuffer:  # constructor dispatch; the real type stays available as ReadBuffer.real
        real = real_rb

        def __new__(cls, src: Any) -> Any:  # type: ignore[misc]
            if isinstance(src, TokSlice):
                return TokRead(src.toks)
            return real_rb(src)

    mod.extract_symbol = extract_symbol  # type: ignore[attr-defined]
    mod.ReadBuffer = ReadBuffer  # type: ignore[attr-defined]


_orig_install = install


def install() -> None:  # type: ignore[no-redef]
    _orig_install()
    if not getattr(sys.modules["librt.internal"], "__verif_extract__", False):
        _install_extract()
        sys.modules["librt.internal"].__verif_extract__ = True  # type: ignore[attr-defined]
