"""Replay helpers that build real compiled code with mypyc and compare it with the interpreter."""

from __future__ import annotations

import os
import shutil
import subprocess
import sys
from typing import Any

from vf.report import scratch

OPS = {"Add": "+", "Subtract": "-", "Multiply": "*", "FloorDivide": "//", "Remainder": "%", "And": "&", "Or": "|", "Xor": "^", "Lshift": "<<", "Rshift": ">>",
       "IsEq": "==", "IsNe": "!=", "IsLt": "<", "IsLe": "<=", "IsGt": ">", "IsGe": ">="}

DRIVER = r'''
import sys, importlib
sys.path.insert(0, ".")
import native_mod as C
src = open("native_mod.py").read()
ns = {}
exec(compile(src, "interp", "exec"), ns)
bad = 0
for fn, args in CASES:
    def run(f):
        import copy
        a2 = copy.deepcopy(args)  # mutable arguments: a private copy per call, compared afterwards
        try:
            return ("value", f(*a2)) + ((a2,) if any(isinstance(x, list) for x in a2) else ())
        except Exception as e:
            return ("raises", type(e).__name__) + ((a2,) if any(isinstance(x, list) for x in a2) else ())
    a, b = run(getattr(C, fn)), run(ns[fn])
    same = a == b and (a[0] == "raises" or type(a[1]) is type(b[1]))
    print(fn, args, "compiled", a, "interpreted", b, "OK" if same else "MISMATCH")
    bad += not same
sys.exit(1 if bad else 0)
'''


def build_and_compare(source: str, cases: list, d: str, opt: str = "0") -> tuple[bool, str]:
    """Compile `source` (module native_mod) with mypyc and call each (function, args) in both
    the compiled and the interpreted version.  Returns (mismatch found, log)."""
    work = scratch("mypyc-")
    try:
        with open(os.path.join(work, "native_mod.py"), "w") as f:
            f.write(source)
        with open(os.path.join(work, "driver.py"), "w") as f:
            f.write(f"CASES = {cases!r}\n" + DRIVER)
        for fn in ("native_mod.py", "driver.py"):
            shutil.copy(os.path.join(work, fn), os.path.join(d, fn))
        env = dict(os.environ)
        env.pop("PYTHONPATH", None)
        env["MYPYC_OPT_LEVEL"] = opt
        p = subprocess.run([sys.executable, "-m", "mypyc", "native_mod.py"], cwd=work, capture_output=True, text=True, timeout=600, env=env)
        if p.returncode != 0:
            return False, "mypyc build failed: " + (p.stdout + p.stderr)[-600:]
        # run the driver from a directory where native_mod.py is not importable ahead of the .so
        os.rename(os.path.join(work, "native_mod.py"), os.path.join(work, "native_mod.py.src"))
        with open(os.path.join(work, "driver.py")) as f:
            drv = f.read().replace('open("native_mod.py")', 'open("native_mod.py.src")')
        with open(os.path.join(work, "driver.py"), "w") as f:
            f.write(drv)
        p = subprocess.run([sys.executable, "driver.py"], cwd=work, capture_output=True, text=True, timeout=300, env=env)
        return p.returncode != 0, (p.stdout + p.stderr)[-800:]
    finally:
        shutil.rmtree(work, ignore_errors=True)


def words_to_values(model: dict[str, Any]) -> "list[int] | None":
    """Short tagged words -> Python ints (a boxed word cannot be produced from Python directly)."""
    if "a" in model:
        return [int(model[k]) for k in ("a", "b") if k in model]
    out = []
    for k in ("l", "r"):
        if k in model:
            w = int(model[k])
            if w >= 2**63:
                w -= 2**64
            if w % 2:
                return None
            out.append(w // 2)
    return out


def replay_primitive(kernel: str, model: dict[str, Any]):
    def replay(d: str) -> tuple[bool, str]:
        with open(os.path.join(d, "replay.sh"), "w") as f:
            f.write('#!/bin/bash\ncd "$(dirname "$0")" && MYPYC_OPT_LEVEL=0 /verif/.venv/bin/python -m mypyc native_mod.py && mv native_mod.py native_mod.py.src && sed -i "s/open(\\"native_mod.py\\")/open(\\"native_mod.py.src\\")/" driver.py && /verif/.venv/bin/python driver.py\n')
        name = kernel.replace("CPyInt64_", "i64:").replace("CPyInt32_", "i32:").replace("CPyInt16_", "i16:")
        if ":" in name:
            ty, what = name.split(":")
            op = "//" if what == "Divide" else "%"
            src = f"from mypy_extensions import {ty}\ndef f(a: {ty}, b: {ty}) -> {ty}:\n    return a {op} b\n"
            vals = [int(model.get("l", 0)), int(model.get("r", 1))]
            return build_and_compare(src, [("f", vals)], d)
        if kernel in OPS:
            vals = words_to_values(model)
            if vals is None:
                return False, "counterexample uses a boxed operand word; cannot be driven from Python values"
            op = OPS[kernel]
            rty = "bool" if kernel.startswith("Is") else "int"
            src = f"def f(a: int, b: int) -> {rty}:\n    return a {op} b\n"
            # neighbours of the model values as well: the compiled fast path is inlined differently per call site
            cases = [("f", vals)]
            return build_and_compare(src, cases, d)
        if kernel in ("Negate", "Invert"):
            vals = words_to_values(model)
            if vals is None:
                return False, "boxed operand"
            op = "-" if kernel == "Negate" else "~"
            return build_and_compare(f"def f(a: int) -> int:\n    return {op}a\n", [("f", vals[:1])], d)
        if kernel in ("TooBig", "TooBigInt64", "CPyTagged_FromSsize_t", "CPyTagged_FromInt64", "IsAddOverflow", "IsSubtractOverflow", "IsMultiplyOverflow", "IsShortLshiftOverflow"):
            # exercised through the operations that use them: i64 -> int conversion and arithmetic near the boundary
            v = int(model.get("l", 0))
            if v >= 2**63:
                v -= 2**64
            src = "from mypy_extensions import i64\ndef conv(a: i64) -> int:\n    return a\ndef eq1(a: i64, b: int) -> bool:\n    x: int = a\n    return b == x\ndef eq2(a: i64, b: int) -> bool:\n    x: int = a\n    return x == b\ndef add(a: int, b: int) -> int:\n    return a + b\ndef sub(a: int, b: int) -> int:\n    return a - b\ndef mul(a: int, b: int) -> int:\n    return a * b\ndef shl(a: int, b: int) -> int:\n    return a << b\n"
            r = int(model.get("r", 0))
            if r >= 2**63:
                r -= 2**64
            cases = [("conv", [v]), ("eq1", [v, v]), ("eq2", [v, v]), ("add", [v >> 1, r >> 1]), ("sub", [v >> 1, r >> 1]), ("mul", [v >> 1, r >> 1]), ("shl", [v >> 1, max(0, min(r, 200))])]
            return build_and_compare(src, cases, d)
        return False, "no replay for kernel " + kernel

    return replay
