"""Fault-injection shim for replays (active only with PYTHON_MYPY_VERIF=1 and a plan).

Put this directory on PYTHONPATH of a child `python -m mypy` process.  It wraps the metadata
store classes from the outside (no change to the repository): every write / remove / commit /
commit_path is numbered per process; the plan can make chosen writes fail (return False, as the
store does on OSError) and can kill the process (os._exit(137), no cleanup) right BEFORE the
operation with a given number.  All operations are logged as JSON lines.

VERIF_FAULT_PLAN = json {"crash_at": int|null, "fail": [int...], "log": path|null,
                         "role": "any"|"coordinator"|"worker", "only": substring|null}
Operation numbers count only operations whose record name contains `only` (when given), so a
plan can address the records of one module.
"""
import json
import os
import sys

if os.environ.get("PYTHON_MYPY_VERIF") == "1" and os.environ.get("VERIF_FAULT_PLAN"):
    _plan = json.loads(os.environ["VERIF_FAULT_PLAN"])
    _is_worker = any("build_worker" in a for a in sys.argv) or "mypy.build_worker" in " ".join(sys.argv)
    _role = _plan.get("role", "any")
    _active = _role == "any" or (_role == "worker") == _is_worker
    _n = {"i": 0}

    def _log(ev):
        p = _plan.get("log")
        if p:
            with open(p, "a") as f:
                f.write(json.dumps(ev) + "\n")

    def _wrap(cls):
        for opname in ("write", "remove", "commit", "commit_path"):
            orig = getattr(cls, opname, None)
            if orig is None or getattr(orig, "_verif", False):
                continue

            def make(orig=orig, opname=opname):
                def op(self, *a, **kw):
                    name = a[0] if a and isinstance(a[0], str) else ""
                    only = _plan.get("only")
                    counted = _active and (only is None or opname in ("commit",) or only in name)
                    idx = None
                    if counted:
                        idx = _n["i"]
                        _n["i"] += 1
                        if _plan.get("crash_at") is not None and idx == _plan["crash_at"]:
                            _log({"pid": os.getpid(), "worker": _is_worker, "op": opname, "name": name, "idx": idx, "event": "KILLED-BEFORE"})
                            os._exit(137)
                        if opname == "write" and idx in (_plan.get("fail") or []):
                            _log({"pid": os.getpid(), "worker": _is_worker, "op": opname, "name": name, "idx": idx, "event": "FAILED"})
                            return False
                    r = orig(self, *a, **kw)
                    _log({"pid": os.getpid(), "worker": _is_worker, "op": opname, "name": name, "idx": idx, "event": "ok", "result": r if isinstance(r, bool) else None})
                    return r

                op._verif = True
                return op

            setattr(cls, opname, make())

    try:
        import mypy.metastore as _ms

        for _c in (_ms.FilesystemMetadataStore, _ms.SqliteMetadataStore):
            _wrap(_c)
    except Exception as _e:  # pragma: no cover
        sys.stderr.write(f"verif shim: cannot wrap metastore: {_e}\n")
