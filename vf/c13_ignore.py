"""C13 K1: exactness of '# type: ignore' and of enabling / disabling error codes.

The real Errors.add_error_info / is_ignored_error / is_error_code_enabled /
generate_unused_ignore_errors and the gate State.generate_unused_ignore_notes (all re-read
from /repo on every run) are driven through the public Errors API on a real Errors object whose
methods are the kernel-extracted ones.  The solver chooses: which errors are reported (line, code,
blocker), the ignore comment of each line (none / bare / coded, incl. parent codes, several codes
and `unused-ignore`), the enabled/disabled state of every code involved and --warn-unused-ignores.

Oracle (the property's statement): an error is shown iff it is a blocker, or its code is enabled
and no ignore on its line matches it; an `unused-ignore` error appears on a line iff the check is
switched on (flag or enabled code, and the code not disabled) and the comment -- or one of its
listed codes -- suppressed nothing.
"""

from __future__ import annotations

import contextlib
import multiprocessing as mp
import os
import subprocess
import sys
from typing import Any

from vf.symx import Ctx, Kernel

CODE_NAMES = ["arg-type", "typeddict-unknown-key", "truthy-bool", "misc"]
IGNORES_L1 = [None, [], ["arg-type"], ["typeddict-item"], ["typeddict-unknown-key"], ["arg-type", "typeddict-item"], ["unused-ignore"], ["arg-type", "unused-ignore"]]
IGNORES_L2 = [None, []]
OPT_CODES_QUICK = ["arg-type", "typeddict-item", "unused-ignore"]
OPT_CODES_THOROUGH = ["arg-type", "typeddict-item", "typeddict-unknown-key", "truthy-bool", "unused-ignore"]


def load() -> tuple:
    KE = Kernel(
        "mypy.errors",
        ["Errors.add_error_info", "Errors.is_ignored_error", "Errors.is_error_code_enabled", "Errors.generate_unused_ignore_errors", "Errors.report_simple_error"],
        closure=False,
    )
    KB = Kernel("mypy.build", ["State.generate_unused_ignore_notes"], closure=False)
    return KE, KB


def make_errors_class(KE: Any) -> Any:
    import mypy.errors as E

    class KErrors(E.Errors):  # real object, kernel-extracted methods
        add_error_info = KE["Errors.add_error_info"]
        is_ignored_error = KE["Errors.is_ignored_error"]
        is_error_code_enabled = KE["Errors.is_error_code_enabled"]
        generate_unused_ignore_errors = KE["Errors.generate_unused_ignore_errors"]
        report_simple_error = KE["Errors.report_simple_error"]

    return KErrors


def run_real(ErrCls: Any, gate_fn: Any, errs: list, ignores: dict, states: dict, warn_unused: bool) -> set:
    """drive the Errors API; returns {(line, code)} of error-severity diagnostics"""
    from mypy import errorcodes as codes
    from mypy.options import Options

    options = Options()
    options.warn_unused_ignores = warn_unused
    options.enabled_error_codes = {codes.error_codes[c] for c, s in states.items() if s == "enabled"}
    options.disabled_error_codes = {codes.error_codes[c] for c, s in states.items() if s == "disabled"}
    errors = ErrCls(options)
    errors.set_file("m.py", "m", options)
    errors.set_file_ignored_lines("m.py", {l: list(c) for l, c in ignores.items() if c is not None}, False)
    errors.set_skipped_lines("m.py", set())
    for line, code, blocker in errs:
        errors.report(line, 0, f"problem {code} at {line}", code=codes.error_codes[code], blocker=blocker)

    class Mgr:
        pass

    class St:
        meta = None
        tree = None
        xpath = "m.py"

        @staticmethod
        def wrap_context() -> Any:
            return contextlib.nullcontext()

    st = St()
    st.options = options  # type: ignore[attr-defined]
    st.manager = Mgr()  # type: ignore[attr-defined]
    st.manager.errors = errors
    gate_fn(st)
    out = set()
    for info in errors.error_info_map.get("m.py", []):
        if info.severity == "error":
            out.add((info.line, info.code.code if info.code else "misc"))
    return out


def spec(errs: list, ignores: dict, states: dict, warn_unused: bool) -> set:
    from mypy import errorcodes as codes

    def enabled(c: str) -> bool:
        ec = codes.error_codes[c]
        s = states.get(c, "default")
        if s != "default":
            return s == "enabled"
        if ec.sub_code_of is not None and states.get(ec.sub_code_of.code, "default") == "disabled":
            return False  # disabling a code disables its sub-codes (errorcodes.py)
        return ec.default_enabled

    out: set = set()
    used: dict = {}
    for line, code, blocker in errs:
        if blocker:
            out.add((line, code))
            continue
        if not enabled(code):
            continue
        ig = ignores.get(line)
        parent = codes.error_codes[code].sub_code_of
        if ig is not None and (ig == [] or code in ig or (parent is not None and parent.code in ig)):
            used.setdefault(line, set()).add(code)
            continue
        out.add((line, code))
    ui = states.get("unused-ignore", "default")
    if (warn_unused or ui == "enabled") and ui != "disabled":
        for line, ig in ignores.items():
            if ig is None or "unused-ignore" in ig:
                continue
            u = used.get(line, set())
            if ig == []:
                if not u:
                    out.add((line, "unused-ignore"))
            elif any(c not in u for c in ig):
                # a listed code that matched nothing; documented special case: a parent code that only
                # matched sub-code errors is reported as unused with a "use narrower" hint
                out.add((line, "unused-ignore"))
    return out


def explore(arg: tuple) -> tuple:
    first_err, opt_codes = arg
    KE, KB = load()
    ErrCls = make_errors_class(KE)
    gate = KB["State.generate_unused_ignore_notes"]
    found: dict = {}
    n = {"p": 0, "shown": 0, "suppressed": 0, "unused": 0}
    ctx = Ctx(max_paths=5_000_000, deadline_s=6000)
    second = [None, (1, "arg-type", False), (1, "typeddict-unknown-key", False)]

    def body(c: Ctx) -> None:
        errs = [first_err] if first_err is not None else []
        e2 = second[c.choose("second_error", len(second))]
        if e2 is not None:
            errs.append(e2)
        ignores = {1: IGNORES_L1[c.choose("ignore_line1", len(IGNORES_L1))], 2: IGNORES_L2[c.choose("ignore_line2", len(IGNORES_L2))]}
        states = {code: ["default", "enabled", "disabled"][c.choose("state:" + code, 3)] for code in opt_codes}
        warn = bool(c.bool("warn_unused_ignores"))
        got = run_real(ErrCls, gate, errs, ignores, states, warn)
        want = spec(errs, ignores, states, warn)
        n["p"] += 1
        n["shown"] += len([x for x in got if x[1] != "unused-ignore"])
        n["suppressed"] += len(errs) - len([x for x in got if x[1] != "unused-ignore"])
        n["unused"] += len([x for x in got if x[1] == "unused-ignore"])
        c.stats["assert_queries"] += 1
        if got == want:
            c.stats["discharged"] += 1
            return
        c.stats["refuted"] += 1
        extra, missing = got - want, want - got
        if any(x[1] == "unused-ignore" for x in extra):
            cls = "an ignore comment that suppressed something (or whose check is switched off) is reported as unused"
        elif any(x[1] == "unused-ignore" for x in missing):
            cls = "an ignore comment that suppressed nothing is not reported as unused"
        elif extra:
            cls = "an error that a matching ignore / a disabled code should remove is shown"
        else:
            cls = "an error that no ignore matches and whose code is enabled is not shown"
        if any(x[1] == "unused-ignore" for x in extra | missing):
            cls += f" (warn_unused_ignores={warn}, unused-ignore code {states.get('unused-ignore', 'default')})"
        found.setdefault(cls, (errs, ignores, states, warn, sorted(got), sorted(want)))

    ctx.explore(body)
    return ctx.stats, ctx.exhausted, dict(n), found


def code_pair_matrix(rep: Any) -> None:
    """K1b: which coded ignore matches which error code, over the whole table of real error codes: an
    error with code E on a line with `# type: ignore[I]` is suppressed iff I is E or I is the code E is
    declared a sub-code of (errorcodes.py: ErrorCode(..., sub_code_of=...)).  The pair is a solver
    decision; both codes enabled."""
    from mypy import errorcodes as codes

    KE, KB = load()
    ErrCls = make_errors_class(KE)
    gate = KB["State.generate_unused_ignore_notes"]
    # one representative object per code string (errorcodes.py defines a few strings twice)
    table = sorted({c.code: c for c in vars(codes).values() if isinstance(c, codes.ErrorCode)}.items())
    objs = [c for c in vars(codes).values() if isinstance(c, codes.ErrorCode)]
    names = sorted({c.code for c in objs})
    ctx = Ctx(max_paths=2_000_000)
    found: dict = {}
    n = {"p": 0, "suppressed": 0, "shown": 0}

    def body(c: Ctx) -> None:
        e = objs[c.choose("error_code", len(objs))]
        ig = names[c.choose("ignore_code", len(names))]
        if e.code in ("unused-ignore", "ignore-without-code", "syntax"):
            return
        from mypy.options import Options

        o = Options()
        o.enabled_error_codes = {e}
        errors = ErrCls(o)
        errors.set_file("m.py", "m", o)
        errors.set_file_ignored_lines("m.py", {1: [ig]}, False)
        errors.set_skipped_lines("m.py", set())
        errors.report(1, 0, "problem", code=e)
        shown = any(i.severity == "error" and i.code is e for i in errors.error_info_map.get("m.py", []))
        want_suppressed = ig == e.code or (e.sub_code_of is not None and e.sub_code_of.code == ig)
        n["p"] += 1
        n["suppressed" if not shown else "shown"] += 1
        c.stats["assert_queries"] += 1
        if shown == (not want_suppressed):
            c.stats["discharged"] += 1
        else:
            c.stats["refuted"] += 1
            found.setdefault(("an ignore with another code suppresses an error" if not shown else "an ignore with the error's own (or parent) code does not suppress it"), (e.code, ig, e.sub_code_of.code if e.sub_code_of else None))

    ctx.explore(body)
    rep.add_ctx("K1b coded ignore vs error code over the whole code table", ctx, codes=len(names), outcomes=dict(n))
    rep.twin("K1b: suppressed and shown both reached", n["suppressed"] > 0 and n["shown"] > 0)
    rep.bounds.append(f"K1b: every (error code object, ignore code string) pair of the {len(names)} real error codes, one error on one line, code enabled")
    for key, (ecode, ig, parent) in found.items():
        rep.sample({"kernel": "ignore", "class": key, "error_code": ecode, "ignore_code": ig, "declared_parent": parent})

        def replay(d: str, ecode: str = ecode, ig: str = ig) -> tuple[bool, str]:
            import mypy.errors as E
            from mypy.options import Options

            e = next(c for c in vars(codes).values() if isinstance(c, codes.ErrorCode) and c.code == ecode)
            o = Options()
            o.enabled_error_codes = {e}
            errors = E.Errors(o)
            errors.set_file("m.py", "m", o)
            errors.set_file_ignored_lines("m.py", {1: [ig]}, False)
            errors.set_skipped_lines("m.py", set())
            errors.report(1, 0, "problem", code=e)
            shown = any(i.severity == "error" and i.code is e for i in errors.error_info_map.get("m.py", []))
            want = ig == e.code or (e.sub_code_of is not None and e.sub_code_of.code == ig)
            text = f"unmodified Errors: error [{ecode}] with '# type: ignore[{ig}]' is {'shown' if shown else 'suppressed'}"
            bad = shown == want
            if bad and ecode == "call-arg":
                prog = f"def f() -> None: ...\nf(1)  # type: ignore[{ig}]\n"
                with open(os.path.join(d, "prog.py"), "w") as f:
                    f.write(prog)
                env = dict(os.environ)
                env.pop("PYTHONPATH", None)
                p = subprocess.run([sys.executable, "-m", "mypy", "--no-incremental", "--no-error-summary", "prog.py"], cwd=d, capture_output=True, text=True, env=env, timeout=300)
                text += f"\nreal run of\n{prog}exit {p.returncode}: {p.stdout.strip()}"
                bad = ("[call-arg]" in p.stdout) == want
            return bad, text

        rep.candidate("ignore: " + key + f" (error [{ecode}], ignore [{ig}])", f"error code {ecode}, ignore code {ig}, declared parent {parent}", {"error": ecode, "ignore": ig}, replay)


def code_state_matrix(rep: Any) -> None:
    """K1d: enabling / disabling error codes over the whole real code table, through the real
    Options.process_error_codes (global flags), Options.apply_changes (per-module section) and the
    kernel-extracted Errors.is_error_code_enabled.  For every code -- and for every (sub-code, parent)
    pair -- the solver chooses, globally and in the module's section, one of none / enable / disable /
    both for the code and for its parent.  Oracle (documented rules): enabling overrides disabling at
    the same level; the module's section overrides the global flags code by code; an explicit state of
    the code wins; otherwise a disabled parent switches its sub-codes off; otherwise the default."""
    from mypy import errorcodes as codes
    from mypy.options import Options

    KE, _ = load()
    ErrCls = make_errors_class(KE)
    objs = sorted({c.code: c for c in vars(codes).values() if isinstance(c, codes.ErrorCode)}.values(), key=lambda c: c.code)
    objs = [codes.error_codes[c.code] for c in objs if c.code in codes.error_codes]
    FL = ["none", "enable", "disable", "both"]
    ctx = Ctx(max_paths=2_000_000)
    found: dict = {}
    n = {"runs": 0, "on": 0, "off": 0, "sub_on_parent_off": 0}

    def effective(g: str, m: str) -> str:
        for lvl in (m, g):
            if lvl in ("enable", "both"):
                return "E"
            if lvl == "disable":
                return "D"
        return "default"

    def body(c: Ctx) -> None:
        e = objs[c.choose("code", len(objs))]
        p = e.sub_code_of
        g_own, m_own = FL[c.choose("global_own", 4)], FL[c.choose("module_own", 4)]
        g_par = m_par = "none"
        if p is not None:
            g_par, m_par = FL[c.choose("global_parent", 4)], FL[c.choose("module_parent", 4)]

        def lists(own: str, par: str) -> tuple[list, list]:
            en, dis = [], []
            for code, st in ((e, own), (p, par)):
                if code is None:
                    continue
                if st in ("enable", "both"):
                    en.append(code.code)
                if st in ("disable", "both"):
                    dis.append(code.code)
            return en, dis

        o = Options()
        o.enable_error_code, o.disable_error_code = lists(g_own, g_par)
        o.process_error_codes(error_callback=lambda msg: None)
        men, mdis = lists(m_own, m_par)
        mo = o.apply_changes({"enable_error_code": men, "disable_error_code": mdis}) if (men or mdis or bool(c.bool("clone_anyway"))) else o
        errors = ErrCls(mo)
        errors.set_file("m.py", "m", mo)
        got = bool(errors.is_error_code_enabled(e))
        so = effective(g_own, m_own)
        sp = effective(g_par, m_par)
        want = True if so == "E" else False if so == "D" else (False if sp == "D" else e.default_enabled)
        n["runs"] += 1
        n["on" if got else "off"] += 1
        if got and sp == "D":
            n["sub_on_parent_off"] += 1
        c.stats["assert_queries"] += 1
        if got == want:
            c.stats["discharged"] += 1
        else:
            c.stats["refuted"] += 1
            key = f"code {'enabled' if got else 'disabled'} although the rules say {'enabled' if want else 'disabled'}: own state {so}, parent state {sp if p is not None else 'no parent'}"
            found.setdefault(key, (e.code, g_own, m_own, g_par, m_par))

    ctx.explore(body)
    rep.add_ctx("K1d enable/disable flags (global + per-module) vs is_error_code_enabled over the whole code table", ctx, codes=len(objs), outcomes=dict(n))
    rep.twin("K1d: on, off and sub-code-on-under-disabled-parent reached", n["on"] > 0 and n["off"] > 0 and n["sub_on_parent_off"] > 0)
    rep.bounds.append(f"K1d: each of the {len(objs)} real error codes; global and per-module none/enable/disable/both for the code and (if it has one) its parent; one module section")
    for key, (ecode, g_own, m_own, g_par, m_par) in found.items():
        rep.sample({"kernel": "is_error_code_enabled", "class": key, "code": ecode, "global": [g_own, g_par], "module": [m_own, m_par]})

        def replay(d: str, ecode: str = ecode, g_own: str = g_own, m_own: str = m_own, g_par: str = g_par, m_par: str = m_par) -> tuple[bool, str]:
            """real command line + config file; observed through a program that provokes the code when
            one is known, otherwise through the unmodified API"""
            import mypy.errors as E

            e = codes.error_codes[ecode]
            p = e.sub_code_of

            def lists(own: str, par: str) -> tuple[list, list]:
                en, dis = [], []
                for code, st in ((e, own), (p, par)):
                    if code is None:
                        continue
                    if st in ("enable", "both"):
                        en.append(code.code)
                    if st in ("disable", "both"):
                        dis.append(code.code)
                return en, dis

            o = Options()
            o.enable_error_code, o.disable_error_code = lists(g_own, g_par)
            o.process_error_codes(error_callback=lambda msg: None)
            men, mdis = lists(m_own, m_par)
            mo = o.apply_changes({"enable_error_code": men, "disable_error_code": mdis}) if (men or mdis) else o
            errors = E.Errors(mo)
            errors.set_file("m.py", "m", mo)
            got = bool(errors.is_error_code_enabled(e))
            so, sp = effective(g_own, m_own), effective(g_par, m_par)
            want = True if so == "E" else False if so == "D" else (False if sp == "D" else e.default_enabled)
            text = f"unmodified API: [{ecode}] enabled={got}, rules say {want} (own {so}, parent {sp})"
            bad = got != want
            progs = {"method-assign": "class A:\n    def f(self) -> int: return 1\ndef g(self: A) -> int: return 2\nA.f = g\nA().f = lambda: 3\n"}
            if bad and ecode in progs:
                with open(os.path.join(d, "m.py"), "w") as f:
                    f.write(progs[ecode])
                cfg = "[mypy]\n"
                gen, gdis = lists(g_own, g_par)
                if gen:
                    cfg += "enable_error_code = " + ", ".join(gen) + "\n"
                if gdis:
                    cfg += "disable_error_code = " + ", ".join(gdis) + "\n"
                if men or mdis:
                    cfg += "[mypy-m]\n"
                    if men:
                        cfg += "enable_error_code = " + ", ".join(men) + "\n"
                    if mdis:
                        cfg += "disable_error_code = " + ", ".join(mdis) + "\n"
                with open(os.path.join(d, "mypy.ini"), "w") as f:
                    f.write(cfg)
                env = dict(os.environ)
                env.pop("PYTHONPATH", None)
                pr = subprocess.run([sys.executable, "-m", "mypy", "--config-file", "mypy.ini", "--no-incremental", "--no-error-summary", "m.py"], cwd=d, capture_output=True, text=True, env=env, timeout=300)
                shown = f"[{ecode}]" in pr.stdout
                text += f"\nreal run with\n{cfg}exit {pr.returncode}: {pr.stdout.strip()[:300]}"
                bad = shown != want
            return bad, text

        rep.candidate("codes: " + key, f"code {ecode}: global own/parent {g_own}/{g_par}, module own/parent {m_own}/{m_par}", {"code": ecode, "global": [g_own, g_par], "module": [m_own, m_par]}, replay)


def ignore_without_code(rep: Any) -> None:
    """K1e: `ignore-without-code`.  Errors.generate_ignore_without_code_errors and its gate
    State.generate_ignore_without_code_notes (both from source) on a real Errors object; two lines, per
    line the solver chooses the comment (none / bare / coded), whether an error with code arg-type and /
    or misc is reported there, whether the line is skipped (unreachable); for the run: the code enabled
    or not, --warn-unused-ignores, whole-file ignore.  Oracle (documented): a bare comment is reported iff
    the code is enabled, the line is reachable, the file is not ignored as a whole, and -- when unused
    ignores are warned about -- it suppressed something; the hint names exactly the codes it suppressed."""
    from mypy import errorcodes as codes
    from mypy.options import Options

    KE = Kernel("mypy.errors", ["Errors.add_error_info", "Errors.is_ignored_error", "Errors.is_error_code_enabled", "Errors.generate_ignore_without_code_errors", "Errors.report_simple_error"], closure=False)
    KB = Kernel("mypy.build", ["State.generate_ignore_without_code_notes"], closure=False)
    rep.kernels_from(KE)
    rep.kernels_from(KB)
    import mypy.errors as E

    class KErrors(E.Errors):
        add_error_info = KE["Errors.add_error_info"]
        is_ignored_error = KE["Errors.is_ignored_error"]
        is_error_code_enabled = KE["Errors.is_error_code_enabled"]
        generate_ignore_without_code_errors = KE["Errors.generate_ignore_without_code_errors"]
        report_simple_error = KE["Errors.report_simple_error"]

    gate = KB["State.generate_ignore_without_code_notes"]
    COMMENTS = [None, [], ["arg-type"]]
    ctx = Ctx(max_paths=2_000_000)
    found: dict = {}
    n = {"runs": 0, "reported": 0, "silent": 0}

    def body(c: Ctx) -> None:
        enabled = bool(c.bool("ignore_without_code_enabled"))
        warn_unused = bool(c.bool("warn_unused_ignores"))
        ignore_all = bool(c.bool("whole_file_ignored"))
        lines = {}
        for ln in (3, 7):
            lines[ln] = {
                "comment": COMMENTS[c.choose(f"comment_l{ln}", 3)],
                "arg": bool(c.bool(f"arg_type_error_l{ln}")),
                "misc": bool(c.bool(f"misc_error_l{ln}")) if ln == 3 else False,
                "skipped": bool(c.bool(f"skipped_l{ln}")),
            }
        o = Options()
        o.warn_unused_ignores = warn_unused
        if enabled:
            o.enabled_error_codes = {codes.IGNORE_WITHOUT_CODE}
        errors = KErrors(o)
        errors.set_file("m.py", "m", o)
        errors.set_file_ignored_lines("m.py", {ln: list(v["comment"]) for ln, v in lines.items() if v["comment"] is not None}, ignore_all)
        errors.set_skipped_lines("m.py", {ln for ln, v in lines.items() if v["skipped"]})
        for ln, v in lines.items():
            if v["skipped"]:
                continue  # nothing is reported in unreachable code
            if v["arg"]:
                errors.report(ln, 0, "bad argument", code=codes.ARG_TYPE)
            if v["misc"]:
                errors.report(ln, 0, "something else", code=codes.MISC)

        class Mgr:
            pass

        class St:
            tree = None
            xpath = "m.py"

            @staticmethod
            def wrap_context() -> Any:
                return contextlib.nullcontext()

        st = St()
        st.options = o  # type: ignore[attr-defined]
        st.manager = Mgr()  # type: ignore[attr-defined]
        st.manager.errors = errors
        gate(st)
        n["runs"] += 1
        got = {i.line: i.message for i in errors.error_info_map.get("m.py", []) if i.code is codes.IGNORE_WITHOUT_CODE}
        for ln, v in lines.items():
            suppressed = sorted({cde for cde, on in (("arg-type", v["arg"]), ("misc", v["misc"])) if on}) if v["comment"] == [] and not v["skipped"] else []
            want = enabled and v["comment"] == [] and not v["skipped"] and not ignore_all and not (warn_unused and not suppressed)
            c.stats["assert_queries"] += 1
            n["reported" if ln in got else "silent"] += 1
            ok = (ln in got) == want
            if ok and want:
                hint = got[ln]
                ok = all(cde in hint for cde in suppressed) and not any(cde in hint for cde in ("arg-type", "misc") if cde not in suppressed)
            if ok:
                c.stats["discharged"] += 1
            else:
                c.stats["refuted"] += 1
                key = "ignore-without-code " + ("reported although the rules say no" if ln in got and not want else "missing although the rules say yes" if want and ln not in got else "hint names the wrong codes")
                found.setdefault(key, (ln, {k: dict(x) for k, x in lines.items()}, enabled, warn_unused, ignore_all, got.get(ln)))

    ctx.explore(body)
    rep.add_ctx("K1e ignore-without-code generation and its gate", ctx, outcomes=dict(n))
    rep.twin("K1e: reported and silent outcomes reached", n["reported"] > 0 and n["silent"] > 0)
    rep.bounds.append("K1e: two lines; comment none / bare / [arg-type]; arg-type and misc errors on the line or not; line skipped or not; code enabled or not; --warn-unused-ignores; whole-file ignore")
    for key, (ln, lines, enabled, warn_unused, ignore_all, msg) in found.items():
        rep.sample({"kernel": "generate_ignore_without_code_errors", "class": key, "line": ln, "lines": lines, "enabled": enabled, "warn_unused_ignores": warn_unused, "whole_file_ignored": ignore_all, "message": msg})

        def replay(d: str, ln: int = ln, lines: dict = lines, enabled: bool = enabled, warn_unused: bool = warn_unused, ignore_all: bool = ignore_all) -> tuple[bool, str]:
            import mypy.errors as E2

            o = Options()
            o.warn_unused_ignores = warn_unused
            if enabled:
                o.enabled_error_codes = {codes.IGNORE_WITHOUT_CODE}
            errors = E2.Errors(o)
            errors.set_file("m.py", "m", o)
            errors.set_file_ignored_lines("m.py", {l2: list(v["comment"]) for l2, v in lines.items() if v["comment"] is not None}, ignore_all)
            errors.set_skipped_lines("m.py", {l2 for l2, v in lines.items() if v["skipped"]})
            for l2, v in lines.items():
                if v["skipped"]:
                    continue
                if v["arg"]:
                    errors.report(l2, 0, "bad argument", code=codes.ARG_TYPE)
                if v["misc"]:
                    errors.report(l2, 0, "something else", code=codes.MISC)
            if errors.is_error_code_enabled(codes.IGNORE_WITHOUT_CODE):
                errors.generate_ignore_without_code_errors("m.py", warn_unused, False)
            got = {i.line: i.message for i in errors.error_info_map.get("m.py", []) if i.code is codes.IGNORE_WITHOUT_CODE}
            v = lines[ln]
            suppressed = sorted({cde for cde, on in (("arg-type", v["arg"]), ("misc", v["misc"])) if on}) if v["comment"] == [] and not v["skipped"] else []
            want = enabled and v["comment"] == [] and not v["skipped"] and not ignore_all and not (warn_unused and not suppressed)
            bad = (ln in got) != want
            if not bad and want:
                bad = not all(cde in got[ln] for cde in suppressed) or any(cde in got[ln] for cde in ("arg-type", "misc") if cde not in suppressed)
            return bad, f"unmodified API: line {ln}: reported={ln in got} ({got.get(ln)}), rules say {want} with hint {suppressed}"

        rep.candidate("ignore-without-code: " + key, f"line {ln} of {lines}, enabled={enabled}, warn_unused={warn_unused}, file ignored={ignore_all}", {"line": ln}, replay)


def module_ignore_scope(rep: Any) -> None:
    """K1c: when does a '# type: ignore' comment silence the whole module?  fastparse.parse with the
    source-extracted ASTConverter.get_lineno / translate_stmt_list on generated module heads; the
    solver chooses the first statement (assignment, def, async def, class), the number of decorator
    lines, where the ignore comment sits and whether it is coded.  Oracle (documented rule): the whole
    module is ignored iff the comment is on a line before the first statement begins, and a decorated
    definition begins at its first decorator."""
    import mypy.fastparse as FP
    from mypy.errors import Errors
    from mypy.nodes import Block
    from mypy.options import Options

    K = Kernel("mypy.fastparse", ["parse", "ASTConverter.get_lineno", "ASTConverter.translate_stmt_list"], closure=False)
    rep.kernels_from(K)

    class Conv(FP.ASTConverter):
        get_lineno = K["ASTConverter.get_lineno"]
        translate_stmt_list = K["ASTConverter.translate_stmt_list"]

    K.ns["ASTConverter"] = Conv
    KINDS = ["x = 1", "def f(): pass", "async def f(): pass", "class F: pass"]
    PLACES = ["none", "comment line before", "decorator 1", "decorator 2", "statement line"]
    ctx = Ctx(max_paths=200000)
    found: dict = {}
    n = {"p": 0, "module": 0, "line": 0}

    def body(c: Ctx) -> None:
        kind = c.choose("first_statement", len(KINDS))
        ndec = c.choose("decorators", 3) if kind != 0 else 0
        place = PLACES[c.choose("ignore_on", len(PLACES))]
        coded = bool(c.bool("ignore_is_coded"))
        if (place == "decorator 1" and ndec < 1) or (place == "decorator 2" and ndec < 2):
            return
        tag = "  # type: ignore" + ("[misc]" if coded else "")
        lines = []
        if place == "comment line before":
            lines.append("#" + tag.strip()[1:])
        elif bool(c.bool("plain_comment_line_first")):
            lines.append("# just a comment")
        for i in range(ndec):
            lines.append(f"@deco{i}" + (tag if place == f"decorator {i + 1}" else ""))
        lines.append(KINDS[kind] + (tag if place == "statement line" else ""))
        lines.append("y: int = ''")
        src = "\n".join(lines) + "\n"
        o = Options()
        errors = Errors(o)
        tree = K["parse"](src, "m.py", "m", errors, o)
        whole = len(tree.defs) == 1 and isinstance(tree.defs[0], Block) and tree.defs[0].is_unreachable
        want = place == "comment line before"
        n["p"] += 1
        n["module" if whole else "line"] += 1
        c.stats["assert_queries"] += 1
        if whole == want:
            c.stats["discharged"] += 1
        else:
            c.stats["refuted"] += 1
            found.setdefault(("an ignore comment inside the first statement (" + place + f" of `{KINDS[kind].split('(')[0].split(' =')[0]}`) silences the whole module") if whole else "an ignore comment before the first statement does not silence the module", (src, whole))

    ctx.explore(body)
    rep.add_ctx("K1c scope of an ignore comment at the top of a module", ctx, outcomes=dict(n))
    rep.twin("K1c: module-level and line-level ignores both reached", n["module"] > 0 and n["line"] > 0)
    rep.bounds.append("K1c: first statement one of assignment / def / async def / class with 0-2 decorator lines; ignore comment absent, on a comment line before, on a decorator line or on the statement line; bare or coded; an optional plain comment line first")
    for key, (src, whole) in found.items():
        rep.sample({"kernel": "module ignore scope", "class": key, "source": src})

        def replay(d: str, src: str = src, whole: bool = whole) -> tuple[bool, str]:
            with open(os.path.join(d, "prog.py"), "w") as f:
                f.write(src.replace("@deco0", "@staticmethod").replace("@deco1", "@staticmethod"))
            env = dict(os.environ)
            env.pop("PYTHONPATH", None)
            p = subprocess.run([sys.executable, "-m", "mypy", "--no-incremental", "--no-error-summary", "prog.py"], cwd=d, capture_output=True, text=True, env=env, timeout=300)
            last_error_shown = "Incompatible types in assignment" in p.stdout
            return last_error_shown != whole, f"program:\n{src}mypy exit {p.returncode}: {p.stdout.strip()[:400] or '(no output)'}"

        rep.candidate("ignore: " + key, src, {"source": src}, replay)


def run(rep: Any, tier: str) -> None:
    KE, KB = load()
    rep.kernels_from(KE)
    rep.kernels_from(KB)
    opt_codes = OPT_CODES_QUICK if tier == "quick" else OPT_CODES_THOROUGH
    firsts: list = [None] + [(line, code, blocker) for line in (1, 2) for code in CODE_NAMES for blocker in (False, True)]
    rep.bounds.append(
        f"K1: one file, two lines; up to two reported errors (first: any of {len(firsts) - 1} line/code/blocker shapes, second: a plain or sub-code error on line 1); "
        f"ignore comment of line 1 one of {len(IGNORES_L1)} shapes (none, bare, coded with exact / parent / several codes / unused-ignore), of line 2 none or bare; "
        f"codes {opt_codes} each default / enabled / disabled; --warn-unused-ignores symbolic"
    )
    rep.assumptions.append("K1: enabled and disabled code sets are disjoint (options processing makes enabling win); a parent-code ignore that only matched sub-code errors is expected to be reported as unused with the documented 'use narrower' hint")
    rep.outside.append("K1: origin spans longer than one line, notes attached to errors, only_once / duplicate removal, ignore-without-code, per-module overrides, ErrorWatcher filters")
    parts = [(f, opt_codes) for f in firsts]
    with mp.get_context("fork").Pool(14) as pool:
        results = pool.map(explore, parts, chunksize=1)
    tot = Ctx()
    tot.exhausted = True
    counts = {"p": 0, "shown": 0, "suppressed": 0, "unused": 0}
    found: dict = {}
    for st, exh, n, fnd in results:
        for k, v in st.items():
            if isinstance(v, (int, float)):
                tot.stats[k] += v
        tot.exhausted = tot.exhausted and exh
        for k in counts:
            counts[k] += n[k]
        for k, v in fnd.items():
            found.setdefault(k, v)
    code_pair_matrix(rep)
    code_state_matrix(rep)
    ignore_without_code(rep)
    module_ignore_scope(rep)
    rep.add_ctx("K1 ignore / error-code exactness", tot, outcomes=counts)
    rep.twin("K1: shown, suppressed and unused-ignore outcomes all reached", counts["shown"] > 0 and counts["suppressed"] > 0 and counts["unused"] > 0)
    for key, (errs, ignores, states, warn, got, want) in found.items():
        rep.sample({"kernel": "ignore", "class": key, "errors": errs, "ignores": {str(k): v for k, v in ignores.items()}, "code_states": states, "warn_unused_ignores": warn, "got": got, "want": want})
        rep.candidate("ignore: " + key, f"errors {errs}, ignores {ignores}, codes {states}, warn_unused_ignores={warn}: got {got}, expected {want}", {"errors": errs}, replay_case(errs, ignores, states, warn, want))


SNIPPET = {
    "arg-type": ("def fa(x: int) -> None: ...", "fa('')"),
    "typeddict-unknown-key": ("from typing import TypedDict\nTD = TypedDict('TD', {'k': int})\ntd: TD = {'k': 1}", "td['zz'] = 1"),
    "truthy-bool": ("class CB: ...\ncb = CB()", "if cb: pass"),
    "misc": ("", "1 + ''"),
}


def replay_case(errs: list, ignores: dict, states: dict, warn: bool, want: list):
    def replay(d: str) -> tuple[bool, str]:
        import mypy.build as B
        import mypy.errors as E

        # (1) the unmodified functions
        got = run_real(E.Errors, B.State.generate_unused_ignore_notes, errs, ignores, states, warn)
        bad = got != set(map(tuple, want))
        text = f"unmodified Errors API: got {sorted(got)}, expected {sorted(want)}"
        # (2) end to end when the shape can be written as a program (no blockers, 'misc' has no stable trigger)
        if bad and not any(b for _, _, b in errs) and all(c != "misc" for _, c, _ in errs):
            pre: list = []
            body = {1: [], 2: []}
            for line, code, _ in errs:
                p, stmt = SNIPPET[code]
                if p and p not in pre:
                    pre.append(p)
                body[line].append(stmt)
            lines = []
            for ln in (1, 2):
                stmt = "; ".join(body[ln]) or "pass"
                ig = ignores.get(ln)
                if ig is not None:
                    stmt += "  # type: ignore" + (f"[{', '.join(ig)}]" if ig else "")
                lines.append(stmt)
            prog = "\n".join(pre) + "\n" + "\n".join(lines) + "\n"
            off = prog.count("\n") - 2
            with open(os.path.join(d, "prog.py"), "w") as f:
                f.write(prog)
            flags = ["--no-incremental", "--no-error-summary", "--hide-error-context", "--show-error-codes"]
            if warn:
                flags.append("--warn-unused-ignores")
            for c, s in states.items():
                if s == "enabled":
                    flags.append("--enable-error-code=" + c)
                elif s == "disabled":
                    flags.append("--disable-error-code=" + c)
            env = dict(os.environ)
            env.pop("PYTHONPATH", None)
            p = subprocess.run([sys.executable, "-m", "mypy"] + flags + ["prog.py"], cwd=d, capture_output=True, text=True, env=env, timeout=300)
            seen = set()
            for l in p.stdout.splitlines():
                parts = l.split(":")
                if len(parts) > 3 and parts[2].strip() == "error" and l.rstrip().endswith("]"):
                    seen.add((int(parts[1]) - off, l.rstrip().rsplit("[", 1)[1][:-1]))
            text += f"\nprogram:\n{prog}mypy {' '.join(flags)}:\n{p.stdout.strip()}\nseen {sorted(seen)}"
            bad = seen != set(map(tuple, want))
        return bad, text

    return replay
