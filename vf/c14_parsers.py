"""C14 K6: default parser vs native parser, as the property states it (diagnostics, positions, blocking
syntax errors), on generated programs.  The solver chooses the program: a construct snippet (statement,
expression and pattern forms) with a probe that makes the checker report positions inside it, a module head
(first statement kind, decorators, position and form of a `# type: ignore`), or a syntactically invalid
text.  Both parsers are run in-process through the real build; obligations: the same diagnostics
(text, line, column, end) for valid programs, and a blocking error from one exactly when from the other."""

from __future__ import annotations

import os
from typing import Any

from vf.symx import Ctx

INVALID = ["def f(:\n    pass\n", "x = = 1\n", "class C(:\n    pass\n", "1 +\n", "def f():\nreturn 1\n", "x = (1,\n", "match x:\n    case\n", "for in y:\n    pass\n", "x = 'abc\n", "\tx = 1\n  y = 2\n"]
HEAD_KINDS = ["x = 1", "def f(): pass", "async def f(): pass", "class F: pass"]
HEAD_PLACES = ["none", "comment line before", "decorator 1", "decorator 2", "statement line"]


_CACHE: dict = {}


def diagnostics(src: str, native: bool) -> tuple:
    import mypy.build as B
    from mypy.errors import CompileError
    from mypy.modulefinder import BuildSource
    from mypy.options import Options

    o = Options()
    # the standard library stubs are taken from a per-run scratch cache (one per parser: the parser is part
    # of the cache key); the generated module itself is new text every time and is always parsed
    o.incremental = True
    o.cache_dir = os.path.join(_CACHE["dir"], "native" if native else "default") if _CACHE.get("dir") else os.devnull
    o.python_version = (3, 12)
    o.native_parser = native
    o.show_column_numbers = True
    o.show_error_end = True
    o.warn_unused_ignores = True
    try:
        res = B.build([BuildSource(None, "pd", src)], o)
        return ("ok", tuple(res.errors))
    except CompileError as e:
        return ("blocker", tuple(e.messages))


def run(rep: Any, tier: str) -> None:
    import mypy.fastparse as FP
    import mypy.nativeparse as NP

    from vf import symx
    from vf.c20_transform import PRELUDE, SNIPPETS

    rep.kernel("mypy.fastparse", symx.source_hash(FP.__file__))
    rep.kernel("mypy.nativeparse", symx.source_hash(NP.__file__))
    names = sorted(SNIPPETS)
    if tier == "quick":
        names = names[::2]
    invalid = INVALID if tier != "quick" else INVALID[::2]
    ctx = Ctx(max_paths=100000)
    found: dict = {}
    n = {"valid": 0, "invalid": 0, "diagnostics": 0}
    import shutil

    from vf.report import scratch

    _CACHE["dir"] = scratch("c14p-")

    def body(c: Ctx) -> None:
        family = c.choose("family", 3)
        if family == 0:
            nm = names[c.choose("construct", len(names))]
            probe = c.choose("probe", 2)
            src = PRELUDE + "def probe(v: Any) -> Any:\n    " + SNIPPETS[nm] + "\n    reveal_type(v)\n" + ("    undefined_name\n" if probe else "")
            label = f"construct: {nm}"
        elif family == 1:
            kind = c.choose("first_statement", len(HEAD_KINDS))
            ndec = c.choose("decorators", 3) if kind != 0 else 0
            place = HEAD_PLACES[c.choose("ignore_on", len(HEAD_PLACES))]
            coded = bool(c.bool("ignore_is_coded"))
            if (place == "decorator 1" and ndec < 1) or (place == "decorator 2" and ndec < 2):
                return
            tag = "  # type: ignore" + ("[misc]" if coded else "")
            lines = ["#" + tag.strip()[1:]] if place == "comment line before" else []
            for i in range(ndec):
                lines.append("@staticmethod" + (tag if place == f"decorator {i + 1}" else ""))
            lines.append(HEAD_KINDS[kind] + (tag if place == "statement line" else ""))
            lines.append("y: int = ''")
            src = "\n".join(lines) + "\n"
            label = f"module head: {HEAD_KINDS[kind]} with {ndec} decorator(s), ignore on {place}{' (coded)' if coded else ''}"
        else:
            src = invalid[c.choose("invalid_text", len(invalid))]
            label = "invalid text: " + repr(src[:20])
        a = diagnostics(src, False)
        b = diagnostics(src, True)
        n["valid" if a[0] == "ok" else "invalid"] += 1
        n["diagnostics"] += len(a[1])
        c.stats["assert_queries"] += 1
        same = a[0] == b[0] and (a[0] == "blocker" or a[1] == b[1])
        if same:
            c.stats["discharged"] += 1
        else:
            c.stats["refuted"] += 1
            cls = "one parser rejects with a blocking error, the other does not" if a[0] != b[0] else "the two parsers lead to different diagnostics"
            found.setdefault(f"{cls} ({label.split(':')[0]})", (label, src, a, b))

    try:
        ctx.explore(body)
    finally:
        shutil.rmtree(_CACHE.pop("dir"), ignore_errors=True)
    rep.add_ctx("K6 default parser vs native parser on generated programs", ctx, outcomes=dict(n))
    rep.twin("K6: valid and rejected programs reached, diagnostics compared", n["valid"] > 0 and n["invalid"] > 0 and n["diagnostics"] > 0)
    rep.bounds.append(f"K6: {len(names)} construct snippets x 2 probes, module heads (4 first-statement kinds x 0-2 decorators x 5 ignore positions x bare/coded), {len(invalid)} invalid texts; both parsers in-process through build.build with --show-column-numbers --show-error-end --warn-unused-ignores")
    for key, (label, src, a, b) in found.items():
        rep.sample({"kernel": "parsers", "class": key, "program": src, "default": list(a[1])[:4], "native": list(b[1])[:4]})

        def replay(d: str, src: str = src) -> tuple[bool, str]:
            import subprocess
            import sys

            with open(os.path.join(d, "prog.py"), "w") as f:
                f.write(src)
            env = dict(os.environ)
            env.pop("PYTHONPATH", None)
            outs = []
            for flags in ([], ["--native-parser"]):
                p = subprocess.run([sys.executable, "-m", "mypy", "--no-incremental", "--no-error-summary", "--show-column-numbers", "--show-error-end", "--warn-unused-ignores"] + flags + ["prog.py"], cwd=d, env=env, capture_output=True, text=True, timeout=600)
                outs.append((p.returncode, p.stdout.strip()))
            bad = outs[0][0] != outs[1][0] or (outs[0][0] != 2 and outs[0][1] != outs[1][1])
            return bad, f"program:\n{src}default parser: {outs[0]}\nnative parser: {outs[1]}"

        rep.candidate("parsers: " + key, label, {"program": src}, replay)
