"""Evidence, known-finding and exit-code policy shared by all checks (DESIGN.md section 3).

exit 0  property held on everything explored (KNOWN-FINDING lines allowed)
exit 1  + "VIOLATION property=<id> replay=<path>" for a replay-confirmed violation
        that /verif/known_findings.json does not list
exit 2  harness/tool error, inconclusive solver answer, or a solver candidate that
        did not reproduce against the real code (model and code disagree)
"""

from __future__ import annotations

import argparse
import json
import os
import re
import shutil
import sys
import tempfile
import time
import traceback
from typing import Any, Callable

VERIF = os.path.dirname(os.path.dirname(os.path.abspath(__file__)))
REPO = os.environ.get("VERIF_REPO", "/repo")
KNOWN = os.path.join(VERIF, "known_findings.json")
PY = os.path.join(VERIF, ".venv", "bin", "python")


def load_known(pid: str) -> dict[str, dict[str, Any]]:
    if not os.path.exists(KNOWN):
        return {}
    with open(KNOWN) as f:
        data = json.load(f)
    return {e["key"]: e for e in data.get("findings", []) if e["property"] == pid and e.get("status") == "known"}


_OPNAMES = {"**": "pow", "//": "floordiv", "<<": "lshift", ">>": "rshift", "<=": "le", ">=": "ge", "==": "eq", "!=": "ne",
            "+": "add", "-": "sub", "*": "mul", "/": "div", "%": "mod", "&": "and", "|": "or", "^": "xor", "<": "lt", ">": "gt", "~": "inv", "@": "matmul"}


def slug(s: str) -> str:
    s = " ".join(_OPNAMES.get(w, w) for w in s.split(" "))
    return re.sub(r"[^A-Za-z0-9_.-]+", "_", s)[:140].strip("_")


class Candidate:
    def __init__(self, key: str, what: str, model: Any):
        self.key = key
        self.what = what
        self.model = model
        self.reproduced: "bool | None" = None
        self.replay_path = ""
        self.detail = ""


class Report:
    def __init__(self, pid: str, tier: str, technique: str):
        self.pid = pid
        self.tier = tier
        if pid in ("C05", "C06", "C15"):
            from vf import mypycir

            mypycir.ensure_root()  # scratch root owned by this (parent) process, removed at exit
        self.seed = int(os.environ.get("VERIF_SEED", "0") or 0)
        self.t0 = time.time()
        self.technique = technique
        self.kernels: dict[str, str] = {}
        self.bounds: list[str] = []
        self.assumptions: list[str] = []
        self.outside: list[str] = []
        self.sections: list[dict[str, Any]] = []
        self.samples: list[Any] = []
        self.candidates: list[Candidate] = []
        self.obligations = 0
        self.discharged = 0
        self.inconclusive = 0
        self.paths = 0
        self.solver_s = 0.0
        self.queries = 0
        self.errors: list[str] = []
        self.twins: dict[str, bool] = {}
        self.extra: dict[str, Any] = {}
        self.known = load_known(pid)
        self.replay_root = os.path.join(VERIF, "replays", pid)

    # ----- accumulation
    def kernel(self, name: str, h: str) -> None:
        self.kernels[name] = h

    def kernels_from(self, k: Any) -> None:
        self.kernels.update(k.hashes)

    def section(self, name: str, **kw: Any) -> dict[str, Any]:
        s = {"name": name, **kw}
        self.sections.append(s)
        return s

    def add_ctx(self, name: str, ctx: Any, **kw: Any) -> dict[str, Any]:
        st = ctx.stats
        ob = st["assert_queries"]
        self.obligations += ob
        self.discharged += st["discharged"]
        self.inconclusive += st["inconclusive"] + st["unknown_branches"]
        self.paths += st["paths"]
        self.solver_s += st["solver_s"]
        self.queries += st["branch_queries"] + st["assert_queries"]
        if not ctx.exhausted:
            self.errors.append(f"{name}: exploration not exhausted")
        if st["inconclusive"] or st["unknown_branches"]:
            self.errors.append(f"{name}: {st['inconclusive']} inconclusive queries, {st['unknown_branches']} unknown branches")
        return self.section(
            name,
            paths=st["paths"],
            branch_queries=st["branch_queries"],
            assert_queries=ob,
            discharged=st["discharged"],
            refuted=st["refuted"],
            inconclusive=st["inconclusive"],
            aborted_paths=st["aborted_paths"],
            solver_s=round(st["solver_s"], 3),
            assertions_reached=dict(st["nonvacuous"]),
            exhausted=ctx.exhausted,
            **kw,
        )

    def add_counts(self, obligations: int, discharged: int, queries: int = 0, solver_s: float = 0.0, paths: int = 0, inconclusive: int = 0) -> None:
        self.obligations += obligations
        self.discharged += discharged
        self.queries += queries or obligations
        self.solver_s += solver_s
        self.paths += paths
        self.inconclusive += inconclusive

    def twin(self, name: str, reached: bool) -> None:
        """Reachability twin: the harness must reach its assertion with a satisfiable
        antecedent; otherwise a pass would be vacuous."""
        self.twins[name] = bool(reached)
        if not reached:
            self.errors.append(f"vacuity: reachability twin '{name}' did not reach its assertion")

    def sample(self, s: Any) -> None:
        if len(self.samples) < 12:
            self.samples.append(s)

    def error(self, msg: str) -> None:
        self.errors.append(msg)

    # ----- candidates
    def candidate(
        self,
        key: str,
        what: str,
        model: Any,
        replay: "Callable[[str], tuple[bool, str]]",
    ) -> Candidate:
        """Register a solver counterexample.  `replay(dir)` must rebuild the situation
        against the real code inside dir, write a self-contained script there, and
        return (reproduced, detail)."""
        for c in self.candidates:
            if c.key == key:
                return c
        c = Candidate(key, what, model)
        d = os.path.join(self.replay_root, slug(key))
        shutil.rmtree(d, ignore_errors=True)
        os.makedirs(d, exist_ok=True)
        try:
            ok, detail = replay(d)
        except Exception:
            ok, detail = False, "replay raised: " + traceback.format_exc()[-1500:]
        c.reproduced = ok
        c.detail = detail
        c.replay_path = d
        with open(os.path.join(d, "candidate.json"), "w") as f:
            json.dump({"property": self.pid, "key": key, "what": what, "model": _js(model), "reproduced": ok, "detail": detail}, f, indent=1)
        self.candidates.append(c)
        return c

    # ----- finish
    def finish(self, level: str = "other", explanation: str = "") -> int:
        if "--replay" in sys.argv:
            # replay mode: the check has been re-run on the current tree; report whether the recorded
            # violation (identified by the directory name = its canonical key) is found and reproduces again
            target = os.path.basename(os.path.normpath(sys.argv[sys.argv.index("--replay") + 1]))
            hits = [c for c in self.candidates if os.path.basename(os.path.normpath(c.replay_path or "")) == target]
            for c in hits:
                print(f"REPLAY property={self.pid} key={c.key!r} reproduced={c.reproduced}\n  {c.detail[:1500]}")
            if not hits:
                print(f"REPLAY property={self.pid}: the recorded violation {target!r} is not found on the current tree")
            sys.stdout.flush()
            return 1 if any(c.reproduced for c in hits) else 0
        violations = 0
        known_hits = []
        not_repro = []
        lines = []
        for c in self.candidates:
            if not c.reproduced:
                not_repro.append(c)
                continue
            if c.key in self.known:
                known_hits.append(c)
                lines.append(f"KNOWN-FINDING: property={self.pid} {c.key}: {c.what}")
            else:
                violations += 1
                lines.append(f"VIOLATION property={self.pid} replay={c.replay_path}")
                lines.append(f"  what: {c.key}: {c.what}")
        for c in not_repro:
            self.errors.append(f"candidate did not reproduce against the real code: {c.key}: {c.detail[:300]}")
        cov = {
            "explanation": explanation
            or "bounded symbolic verification of decision kernels executed from /repo's current source; obligations are SMT queries / exhausted path sets",
            "technique": self.technique,
            "functions_encoded": self.kernels,
            "bounds": self.bounds,
            "outside_claim": self.outside,
            "obligations": self.obligations,
            "discharged": self.discharged,
            "inconclusive": self.inconclusive,
            "queries": self.queries,
            "paths": self.paths,
            "solver_s": round(self.solver_s, 3),
            "evaluations": max(self.paths, self.obligations, 1),
            "distinct_nontrivial": max(self.paths, 2) if self.paths else max(self.obligations, 2),
            "rule": "one evaluation = one feasible path of a kernel (distinct decision log) or one SMT obligation; all are distinct by construction (different path condition / different query)",
            "checker_cmd": " ".join(sys.argv),
            "trusted_base": ["z3 5.1.0", "symx proxies + pysem table (vf/symx.py)", "CPython 3.12 as reference semantics"],
            "reachability_twins": self.twins,
            "sections": self.sections,
            "samples": _js(self.samples) or [{"note": "no samples recorded"}],
            "candidates": [
                {"key": c.key, "what": c.what, "model": _js(c.model), "reproduced": c.reproduced, "known": c.key in self.known, "replay": c.replay_path, "detail": c.detail[:500]}
                for c in self.candidates
            ],
            "known_findings_seen": [c.key for c in known_hits],
            "known_findings_listed_not_seen": [k for k in self.known if k not in {c.key for c in known_hits}],
            "errors": self.errors,
            **self.extra,
        }
        ev = {
            "property_id": self.pid,
            "tier": self.tier,
            "seed": self.seed,
            "level": level,
            "coverage": cov,
            "assumptions": self.assumptions,
            "wall_s": round(time.time() - self.t0, 2),
            "violations": violations,
        }
        os.makedirs(os.path.join(VERIF, "evidence"), exist_ok=True)
        with open(os.path.join(VERIF, "evidence", f"{self.pid}.json"), "w") as f:
            json.dump(ev, f, indent=1, sort_keys=False)
            f.write("\n")
        for ln in lines:
            print(ln)
        print(
            f"[{self.pid}/{self.tier}] kernels={len(self.kernels)} paths={self.paths} obligations={self.obligations} "
            f"discharged={self.discharged} queries={self.queries} solver_s={self.solver_s:.1f} "
            f"known={len(known_hits)} violations={violations} errors={len(self.errors)} wall={time.time() - self.t0:.1f}s"
        )
        if violations:
            return 1
        if self.errors:
            for e in self.errors:
                print("HARNESS-ERROR:", e, file=sys.stderr)
            return 2
        return 0


def _js(x: Any) -> Any:
    try:
        json.dumps(x)
        return x
    except Exception:
        if isinstance(x, dict):
            return {str(k): _js(v) for k, v in x.items()}
        if isinstance(x, (list, tuple, set)):
            return [_js(v) for v in x]
        return repr(x)


def parse_args(pid: str) -> argparse.Namespace:
    ap = argparse.ArgumentParser(prog=f"check {pid}")
    ap.add_argument("--tier", default=os.environ.get("VERIF_TIER", "quick"), choices=["quick", "thorough"])
    ap.add_argument("--replay", default=None)
    ap.add_argument("--only", default=None, help="comma-separated kernel sections to run (debugging)")
    return ap.parse_args()


def scratch(prefix: str = "verif-") -> str:
    base = os.environ.get("VERIF_SCRATCH", tempfile.gettempdir())
    return tempfile.mkdtemp(prefix=prefix, dir=base)


def run_main(pid: str, main: "Callable[[argparse.Namespace], int]") -> None:
    args = parse_args(pid)
    try:
        code = main(args)
    except SystemExit:
        raise
    except BaseException:
        traceback.print_exc()
        print(f"HARNESS-ERROR: {pid} crashed", file=sys.stderr)
        code = 2
    sys.stdout.flush()
    sys.exit(code)
