"""C11 K1: the byte codec of mypyc/lib-rt/internal/librt_internal.c (short-int varints, bools,
the short/long dispatch of write_int) at full 64-bit width.

The function bodies of _write_short_int, _read_short_int, read_bool_internal, write_bool_internal
and write_int_internal and the range constants are cut out of the real C file on every run and
compiled (clang -O2 -emit-llvm) against a scalar stand-in for the byte buffer: the four buffer
macros (_CHECK_WRITE, _WRITE, _CHECK_READ, _READ) become little-endian shifts on a 64-bit word, so
that the IR is memory-free.  The IR is translated to z3 bit-vectors (vf/llvm2smt.py).
"""

from __future__ import annotations

import os
import re
import shutil
import time
from typing import Any

import z3

from vf import llvm2smt as L
from vf import symx
from vf.report import scratch

C_FILE = "mypyc/lib-rt/internal/librt_internal.c"


def extract(src: str, name: str) -> str:
    m = re.search(r"\b" + re.escape(name) + r"\(PyObject \*data", src)
    if m is None:
        raise L.IRUnsupported(f"function {name} not found in {C_FILE}")
    i = src.rfind("\nstatic", 0, m.start()) + 1
    j = src.index("{", m.end())
    depth = 0
    k = j
    while True:
        if src[k] == "{":
            depth += 1
        elif src[k] == "}":
            depth -= 1
            if depth == 0:
                break
        k += 1
    return src[i : k + 1]


def shim_source(repo: str = "/repo") -> str:
    src = open(os.path.join(repo, C_FILE), encoding="utf-8").read()
    defs = re.findall(r"^#define (?:MIN|MAX)_\w+_INT\b.*$|^#define \w+_INT_BIT\b.*$|^#define \w+_TRAILER\b.*$|^#define CPY_BOOL_ERROR\b.*$", src, re.M)
    out = (
        "#include <Python.h>\n#include <stdint.h>\n#include \"CPy.h\"\n"
        "typedef struct { uint64_t bits; uint64_t n; uint64_t pos; } VB;\n" + "\n".join(defs) + "\n"
        "#define _CHECK_WRITE(data, need)\n"
        "#define _WRITE(data, type, v) do { type temp = v; (data)->bits |= ((uint64_t)(temp)) << (8 * (data)->n); (data)->n += sizeof(type); } while (0)\n"
        "#define _CHECK_READ(data, size, err) if ((data)->n < (data)->pos + (size)) { return err; }\n"
        "#define _READ(result, data, type) do { *(result) = (type)((data)->bits >> (8 * (data)->pos)); (data)->pos += sizeof(type); } while (0)\n"
        "#define inline inline __attribute__((always_inline))\n"
    )
    for fn in ["_read_short_int", "_write_short_int", "read_bool_internal", "write_bool_internal"]:
        t = extract(src, fn).replace("PyObject *data", "VB *data")
        t = re.sub(r"PyErr_SetString\([^;]*;", "", t)
        if not t.startswith("static inline"):
            t = t.replace("static", "static inline", 1)
        out += t + "\n"
    out += "extern char long_path(CPyTagged value);\n#define _write_long_int(data, value) long_path(value)\n"
    out += extract(src, "write_int_internal").replace("PyObject *data", "VB *data").replace("static", "static inline", 1) + "\n"
    out += """
int64_t k_rt_short(int64_t v) { VB b = {0, 0, 0}; _write_short_int(&b, v); uint8_t first = (uint8_t)b.bits; b.pos = 1; return (int64_t)_read_short_int(&b, first); }
int64_t k_len_short(int64_t v) { VB b = {0, 0, 0}; _write_short_int(&b, v); return b.n; }
int64_t k_first_short(int64_t v) { VB b = {0, 0, 0}; _write_short_int(&b, v); return (uint8_t)b.bits; }
int64_t k_consumed_short(int64_t v) { VB b = {0, 0, 0}; _write_short_int(&b, v); uint8_t first = (uint8_t)b.bits; b.pos = 1; _read_short_int(&b, first); return b.pos; }
int64_t k_read_any(uint64_t bits, uint64_t n) { VB b = {bits, n, 1}; return (int64_t)_read_short_int(&b, (uint8_t)bits); }
int64_t k_rt_bool(char v) { VB b = {0, 0, 0}; write_bool_internal(&b, v); return read_bool_internal(&b); }
int64_t k_read_bool_any(uint64_t bits) { VB b = {bits, 1, 0}; return read_bool_internal(&b); }
int64_t k_write_int_len(uint64_t tagged) { VB b = {0, 0, 0}; write_int_internal(&b, tagged); return b.n; }
int64_t k_write_int_bits(uint64_t tagged) { VB b = {0, 0, 0}; write_int_internal(&b, tagged); return b.bits; }
int64_t k_min1(void) { return MIN_ONE_BYTE_INT; }
int64_t k_max1(void) { return MAX_ONE_BYTE_INT; }
int64_t k_min2(void) { return MIN_TWO_BYTES_INT; }
int64_t k_max2(void) { return MAX_TWO_BYTES_INT; }
int64_t k_min4(void) { return MIN_FOUR_BYTES_INT; }
int64_t k_max4(void) { return MAX_FOUR_BYTES_INT; }
int64_t k_long_trailer(void) { return LONG_INT_TRAILER; }
int64_t k_bool_error(void) { return CPY_BOOL_ERROR; }
"""
    return out


def run(rep: Any, tier: str) -> None:
    work = scratch("c11-")
    try:
        ir = L.compile_ir(shim_source(), work, opt="-O2")
    finally:
        shutil.rmtree(work, ignore_errors=True)
    funcs = L.parse_module(ir)
    for name, f in funcs.items():
        if name.startswith("k_"):
            rep.kernel("librt_internal.c:" + name, L.func_hash(f))
    timeout_ms = 60000 if tier == "quick" else 300000
    stats = {"obligations": 0, "discharged": 0, "solver_s": 0.0, "queries": 0}
    failures: list = []

    csrc = open(os.path.join("/repo", C_FILE), encoding="utf-8").read()

    def const(name: str) -> int:
        m = re.search(r"^#define " + name + r"\s+(-?\d+)", csrc, re.M)
        if m is None:
            raise L.IRUnsupported(f"constant {name} not found")
        return int(m.group(1))

    MIN1, MAX1, MIN2, MAX2, MIN4, MAX4 = (const(n) for n in ("MIN_ONE_BYTE_INT", "MAX_ONE_BYTE_INT", "MIN_TWO_BYTES_INT", "MAX_TWO_BYTES_INT", "MIN_FOUR_BYTES_INT", "MAX_FOUR_BYTES_INT"))
    TRAILER = const("LONG_INT_TRAILER")
    BOOL_ERR = const("CPY_BOOL_ERROR")

    def execf(name: str, args: list, stubs: "dict | None" = None) -> Any:
        ex = L.Executor(funcs, stubs or {}, arith="bv")
        return ex.run(name, args)

    def prove(label: str, hyps: list, goal: Any, vars_: dict) -> None:
        s = z3.Solver()
        s.set("timeout", timeout_ms)
        for h in hyps:
            s.add(h)
        s.add(z3.Not(goal))
        t = time.time()
        r = str(s.check())
        stats["solver_s"] += time.time() - t
        stats["queries"] += 1
        stats["obligations"] += 1
        if r == "unsat":
            stats["discharged"] += 1
        elif r == "sat":
            m = s.model()
            failures.append((label, {k: symx.z3_to_py(m.eval(v, model_completion=True)) for k, v in vars_.items()}))
        else:
            rep.error(f"inconclusive: C codec obligation {label}")

    def feasible(hyps: list) -> bool:
        s = z3.Solver()
        s.set("timeout", timeout_ms)
        for h in hyps:
            s.add(h)
        stats["queries"] += 1
        return str(s.check()) == "sat"

    v = z3.BitVec("v", 64)
    in_range = z3.And(v >= MIN4, v <= MAX4)
    vs = {"v": v}
    rt = execf("k_rt_short", [v]).ret
    ln = execf("k_len_short", [v]).ret
    first = execf("k_first_short", [v]).ret
    consumed = execf("k_consumed_short", [v]).ret
    prove("short int: read(write(v)) == v (as a tagged short int)", [in_range], rt == (v << 1), vs)
    prove("short int: the reader consumes exactly the bytes the writer produced", [in_range], consumed == ln, vs)
    want_len = z3.If(z3.And(v >= MIN1, v <= MAX1), z3.BitVecVal(1, 64), z3.If(z3.And(v >= MIN2, v <= MAX2), z3.BitVecVal(2, 64), z3.BitVecVal(4, 64)))
    prove("short int: 1 / 2 / 4 bytes for the documented ranges", [in_range], ln == want_len, vs)
    prove("short int: the first byte is never the long-int trailer (read_int / read_str dispatch on it)", [in_range], first != TRAILER, vs)
    twins = {"short int ranges reachable": all(feasible([in_range, ln == k]) for k in (1, 2, 4))}

    bits, n = z3.BitVec("bits", 64), z3.BitVec("n", 64)
    ra = execf("k_read_any", [bits, n]).ret
    vs2 = {"bits": bits, "n": n}
    nb = z3.And(z3.UGE(n, 1), z3.ULE(n, 8))
    fb = z3.Extract(7, 0, bits)
    need = z3.If((fb & 1) == 0, z3.BitVecVal(1, 64), z3.If((fb & 2) == 0, z3.BitVecVal(2, 64), z3.BitVecVal(4, 64)))
    prove("short int reader on arbitrary bytes: error (CPY_INT_TAG) iff the buffer is too short, otherwise an even (short tagged) word", [nb], z3.If(z3.ULT(n, need), ra == 1, (ra & 1) == 0), vs2)
    prove("short int reader on arbitrary bytes: decoded value within the four-byte range", [nb, z3.UGE(n, need)], z3.And((ra >> 1) >= MIN4, (ra >> 1) <= MAX4), vs2)
    twins["arbitrary-bytes reader: error and success reachable"] = feasible([nb, ra == 1]) and feasible([nb, ra != 1])

    b8 = z3.BitVec("b", 8)
    rb = execf("k_rt_bool", [b8]).ret
    prove("bool: read(write(b)) == b for b in {0, 1}", [z3.Or(b8 == 0, b8 == 1)], rb == z3.ZeroExt(56, b8), {"b": b8})
    rba = execf("k_read_bool_any", [bits]).ret
    prove("bool reader on an arbitrary byte: 0, 1 or the error value, error iff the byte is not 0/1", [], z3.If(z3.ULE(fb, 1), rba == z3.ZeroExt(56, fb), rba == BOOL_ERR), {"bits": bits})

    t = z3.BitVec("tagged", 64)
    calls_len = execf("k_write_int_len", [t], {"long_path": L.uf_stub("long_path", 8)})
    res_bits = execf("k_write_int_bits", [t], {"long_path": L.uf_stub("long_path", 8)})
    long_calls = [e for e in calls_len.events if e.kind == "call"]
    is_long = z3.Or(*[e.cond for e in long_calls]) if long_calls else z3.BoolVal(False)
    real = t >> 1
    short_ok = z3.And((t & 1) == 0, real >= MIN4, real <= MAX4)
    prove("write_int: short encoding iff the value is a short tagged int within the four-byte range", [], is_long == z3.Not(short_ok), {"tagged": t})
    v2 = z3.BitVec("v", 64)
    enc_direct = execf("k_first_short", [v2]).ret
    prove("write_int (short path) writes what _write_short_int writes", [short_ok, v2 == real], z3.Extract(7, 0, res_bits.ret) == z3.Extract(7, 0, enc_direct), {"tagged": t})
    twins["write_int: short and long paths reachable"] = feasible([is_long]) and feasible([z3.Not(is_long)])

    rep.section(
        "K1 librt_internal.c byte codec (LLVM IR -> z3 bit-vectors)",
        obligations=stats["obligations"],
        discharged=stats["discharged"],
        queries=stats["queries"],
        solver_s=round(stats["solver_s"], 2),
        constants={"one_byte": [MIN1, MAX1], "two_bytes": [MIN2, MAX2], "four_bytes": [MIN4, MAX4], "long_int_trailer": TRAILER},
    )
    rep.add_counts(obligations=stats["obligations"], discharged=stats["discharged"], queries=stats["queries"], solver_s=stats["solver_s"], paths=stats["obligations"])
    for k, ok in twins.items():
        rep.twin("K1: " + k, ok)
    rep.bounds.append("K1: every 64-bit value / every 8-byte buffer prefix at full width; functions _write_short_int, _read_short_int, read/write_bool_internal, write_int_internal (long path = uninterpreted call)")
    rep.assumptions.append("K1: little-endian host (PY_BIG_ENDIAN = 0); the four buffer macros are replaced by shifts on a 64-bit word with the same little-endian byte order as the memcpy-based originals; capacity checks of the write buffer (realloc) not modelled")
    rep.outside.append("K1: long-int encoding (_write_long_int / _PyLong_FromByteArray), str/bytes payload copying, float memcpy, buffer growth")
    for label, model in failures:
        rep.sample({"kernel": "librt_internal.c", "obligation": label, "model": model})
        rep.candidate("C codec: " + label, f"counterexample {model}", model, replay_codec(label, model))


def get_consts() -> dict:
    csrc = open(os.path.join("/repo", C_FILE), encoding="utf-8").read()
    return {m.group(1): int(m.group(2)) for m in re.finditer(r"^#define (\w+)\s+(-?\d+)\b", csrc, re.M)}


def replay_codec(label: str, model: dict):
    def replay(d: str) -> tuple[bool, str]:
        # compile the unmodified C functions natively (same scalar buffer stand-in) and run them on the model
        import subprocess
        import sysconfig

        src = shim_source() + (
            "\n#include <stdio.h>\nchar long_path(CPyTagged value) { return 7; }\n"
            "int main(int argc, char **argv) { long long a = argc > 1 ? strtoll(argv[1], 0, 0) : 0; unsigned long long b = argc > 2 ? strtoull(argv[2], 0, 0) : 0;\n"
            ' printf("rt=%lld len=%lld first=%lld consumed=%lld read_any=%lld rt_bool=%lld read_bool_any=%lld write_int_len=%lld\\n", (long long)k_rt_short(a), (long long)k_len_short(a), (long long)k_first_short(a), (long long)k_consumed_short(a), (long long)k_read_any((uint64_t)a, b), (long long)k_rt_bool((char)a), (long long)k_read_bool_any((uint64_t)a), (long long)k_write_int_len((uint64_t)a)); return 0; }\n'
        )
        c = os.path.join(d, "codec.c")
        with open(c, "w") as f:
            f.write(src)
        exe = os.path.join(d, "codec")
        inc = sysconfig.get_paths()["include"]
        p = subprocess.run(["clang", "-O0", f"-I{inc}", "-I/repo/mypyc/lib-rt", "-I/repo/mypyc/lib-rt/internal", "-Wno-everything", c, "-o", exe], capture_output=True, text=True)
        if p.returncode != 0:
            return False, "native build failed: " + p.stderr[-400:]
        a = model.get("v", model.get("tagged", model.get("bits", model.get("b", 0))))
        r = subprocess.run([exe, str(a), str(model.get("n", 8))], capture_output=True, text=True)
        out = dict(kv.split("=") for kv in r.stdout.split())
        a = int(a)
        if a >= 2**63:
            a -= 2**64
        cs = get_consts()
        n_arg = int(model.get("n", 8))
        if "read(write(v))" in label and "bool" not in label:
            bad = int(out["rt"]) != a * 2
        elif "consumes exactly" in label:
            bad = out["consumed"] != out["len"]
        elif "1 / 2 / 4 bytes" in label:
            want = 1 if cs["MIN_ONE_BYTE_INT"] <= a <= cs["MAX_ONE_BYTE_INT"] else (2 if cs["MIN_TWO_BYTES_INT"] <= a <= cs["MAX_TWO_BYTES_INT"] else 4)
            bad = int(out["len"]) != want
        elif "long-int trailer" in label:
            bad = int(out["first"]) == cs["LONG_INT_TRAILER"]
        elif "arbitrary bytes" in label:
            fb = a & 0xFF
            need = 1 if fb & 1 == 0 else (2 if fb & 2 == 0 else 4)
            ra = int(out["read_any"])
            if n_arg < need:
                bad = ra != 1
            else:
                bad = (ra & 1) != 0 or not (cs["MIN_FOUR_BYTES_INT"] <= (ra >> 1) <= cs["MAX_FOUR_BYTES_INT"])
        elif "bool: read(write(b))" in label:
            bad = a in (0, 1) and int(out["rt_bool"]) != a
        elif "bool reader" in label:
            fb = a & 0xFF
            bad = int(out["read_bool_any"]) != (fb if fb <= 1 else cs["CPY_BOOL_ERROR"])
        elif "write_int: short encoding iff" in label:
            real = a >> 1
            short = (a & 1) == 0 and cs["MIN_FOUR_BYTES_INT"] <= real <= cs["MAX_FOUR_BYTES_INT"]
            bad = (int(out["write_int_len"]) in (1, 2, 4)) != short
        else:
            return False, f"no concrete oracle for obligation {label!r}; native run: {r.stdout.strip()}"
        return bad, f"native run on {model}: {r.stdout.strip()}"

    return replay
