"""C12 K2: method resolution order.  The real mro.linearize_hierarchy / merge / calculate_mro run on
real TypeInfo objects whose base lists are chosen by the solver; the oracle is CPython building the
same class hierarchy with type(): same linearisation, or TypeError exactly when mypy raises MroError.

Bound: 5 (quick) / 6 (thorough) classes c0..c(n-1) created in this order; the bases of class k are
any duplicate-free ordered list of at most 3 earlier classes (empty = object).
"""

from __future__ import annotations

import itertools
import multiprocessing as mp
from typing import Any

from vf.symx import Ctx, Kernel


def base_lists(k: int, maxb: int = 3) -> list[tuple[int, ...]]:
    out: list[tuple[int, ...]] = [()]
    for n in range(1, min(k, maxb) + 1):
        out += list(itertools.permutations(range(k), n))
    return out


def cpython_mro(bases_of: list[tuple[int, ...]]) -> "list[list[str]] | str":
    """per class its MRO as names, or the index of the first class whose creation fails"""
    classes: list = []
    res = []
    for k, bs in enumerate(bases_of):
        try:
            c = type(f"c{k}", tuple(classes[b] for b in bs), {})
        except TypeError:
            return f"TypeError at c{k}"
        classes.append(c)
        res.append([x.__name__ for x in c.__mro__])
    return res


def load() -> Kernel:
    K = Kernel("mypy.mro", ["calculate_mro", "linearize_hierarchy", "merge"], closure=False)
    K.ns["linearize_hierarchy"] = K["linearize_hierarchy"]
    K.ns["merge"] = K["merge"]
    return K


def mypy_mro(K: Any, bases_of: list[tuple[int, ...]]) -> "list[list[str]] | str":
    from mypy.nodes import Block, ClassDef, SymbolTable, TypeInfo
    from mypy.types import Instance

    obj = TypeInfo(SymbolTable(), ClassDef("object", Block([])), "builtins")
    obj._fullname = "builtins.object"
    obj.mro = [obj]
    infos: list = []
    res = []
    MroError = K.ns["MroError"]
    for k, bs in enumerate(bases_of):
        info = TypeInfo(SymbolTable(), ClassDef(f"c{k}", Block([])), "m")
        info._fullname = f"m.c{k}"
        info.bases = [Instance(infos[b], []) for b in bs] or [Instance(obj, [])]
        try:
            K["calculate_mro"](info, lambda: Instance(obj, []))
        except MroError:
            return f"TypeError at c{k}"
        infos.append(info)
        res.append([t.name for t in info.mro])
    return res


def explore(arg: tuple) -> tuple:
    n, first = arg  # `first` fixes the base list of class 2 (partitioning)
    K = load()
    found: dict = {}
    cnt = {"ok": 0, "err": 0}
    ctx = Ctx(max_paths=5_000_000, deadline_s=6000)
    opts = [base_lists(k) for k in range(n)]

    def body(c: Ctx) -> None:
        bases_of = []
        for k in range(n):
            if k == 2:
                bases_of.append(first)
            else:
                o = opts[k]
                bases_of.append(o[c.choose(f"bases_of_c{k}", len(o))] if len(o) > 1 else o[0])
        want = cpython_mro(bases_of)
        got = mypy_mro(K, bases_of)
        cnt["err" if isinstance(want, str) else "ok"] += 1
        c.stats["assert_queries"] += 1
        if got == want:
            c.stats["discharged"] += 1
            return
        c.stats["refuted"] += 1
        if isinstance(want, str) and not isinstance(got, str):
            cls = "mro: accepts a hierarchy for which CPython cannot create a consistent MRO"
        elif isinstance(got, str) and not isinstance(want, str):
            cls = "mro: rejects (MroError) a hierarchy that CPython linearises"
        else:
            cls = "mro: linearisation differs from CPython's"
        found.setdefault(cls, (bases_of, got, want))

    ctx.explore(body)
    return ctx.stats, ctx.exhausted, cnt, found


def run(rep: Any, tier: str) -> None:
    K = load()
    rep.kernels_from(K)
    n = 5 if tier == "quick" else 6
    rep.bounds.append(f"K2: {n} classes created in order, bases of class k = any ordered duplicate-free list of <= 3 earlier classes (object when empty); the base lists are solver decisions")
    rep.outside.append("K2: duplicate bases, metaclasses, generic bases / Protocol / NamedTuple synthesis, builtins with __slots__ layout conflicts")
    parts = [(n, b) for b in base_lists(2)]
    with mp.get_context("fork").Pool(14) as pool:
        results = pool.map(explore, parts, chunksize=1)
    tot = Ctx()
    tot.exhausted = True
    counts = {"ok": 0, "err": 0}
    found: dict = {}
    for st, exh, cnt, fnd in results:
        for k, v in st.items():
            if isinstance(v, (int, float)):
                tot.stats[k] += v
        tot.exhausted = tot.exhausted and exh
        for k in counts:
            counts[k] += cnt[k]
        for k, v in fnd.items():
            found.setdefault(k, v)
    rep.add_ctx("K2 MRO vs CPython", tot, classes=n, outcomes=counts)
    rep.twin("K2: linearisable and inconsistent hierarchies both reached", counts["ok"] > 0 and counts["err"] > 0)
    for key, (bases_of, got, want) in found.items():
        rep.sample({"kernel": "mro", "class": key, "bases": [list(b) for b in bases_of], "mypy": got, "cpython": want})
        rep.candidate(key, f"bases {bases_of}: mypy {got}, CPython {want}", {"bases": [list(b) for b in bases_of]}, replay_mro(bases_of, want))


def replay_mro(bases_of: list, want: Any):
    def replay(d: str) -> tuple[bool, str]:
        import os
        import subprocess
        import sys

        lines = []
        for k, bs in enumerate(bases_of):
            lines.append(f"class c{k}({', '.join('c%d' % b for b in bs)}): pass" if bs else f"class c{k}: pass")
        last = len(bases_of) - 1
        lines.append(f"reveal_type(c{last}.__mro__)" if False else "")
        prog = "\n".join(lines) + "\n"
        with open(os.path.join(d, "prog.py"), "w") as f:
            f.write(prog)
        env = dict(os.environ)
        env.pop("PYTHONPATH", None)
        p = subprocess.run([sys.executable, "-m", "mypy", "--no-incremental", "--no-error-summary", "--hide-error-context", "prog.py"], cwd=d, capture_output=True, text=True, env=env, timeout=300)
        r = subprocess.run([sys.executable, "prog.py"], cwd=d, capture_output=True, text=True, env=env, timeout=60)
        rt_err = "TypeError" in r.stderr
        my_err = "Cannot determine consistent method resolution order" in p.stdout
        bad = rt_err != my_err
        text = f"program:\n{prog}mypy: {p.stdout.strip()[:300] or '(no diagnostics)'}\nCPython: {'TypeError' if rt_err else 'ok'}"
        if not bad and not rt_err:
            # both accept: compare the order through the unmodified functions
            import mypy.mro as M

            class KK:
                ns = {"MroError": M.MroError}

                def __getitem__(self, n: str) -> Any:
                    return getattr(M, n)

            got = mypy_mro(KK(), bases_of)
            bad = got != want
            text += f"\nunmodified mro functions: {got}; CPython: {want}"
        return bad, text

    return replay
