"""C06 K-glue: reference ownership in the C constructor (tp_new) that mypyc emits for a native class.

The text comes from the real emitclass.generate_new_for_class for a ClassIR built by the real
pipeline.  It is compiled with clang to LLVM IR with Py_DECREF redirected to an external function, so
that every release is a recorded call with its path condition, and translated to z3.  Obligations
(per path, for every outcome of the setup call and of __init__): the object created by the setup
function is released exactly once when the constructor fails after creating it, never when it is
returned; the value returned by __init__ is released exactly once when __init__ succeeded.
"""

from __future__ import annotations

import shutil
import time
from typing import Any

import z3

from vf import llvm2smt as L
from vf import mypycir, symx
from vf.report import scratch

SOURCE = '''
class A:
    def __init__(self, x: int) -> None:
        self.x = x
'''


def new_text() -> str:
    from mypyc.codegen import emitclass as EC
    from mypyc.codegen.emit import Emitter, EmitterContext
    from mypyc.namegen import NameGenerator

    mod = mypycir.build_module_ir(SOURCE)
    cl = [c for c in mod.classes if c.name == "A"][0]
    em = Emitter(EmitterContext(NameGenerator([["__main__"]]), False))
    EC.generate_new_for_class(cl, "A_new", "A_vtable", "A_setup", cl.get_method("__init__"), em)
    return "".join(em.fragments).replace("static PyObject *", "PyObject *", 1)


def run(rep: Any, tier: str) -> None:
    import mypyc.codegen.emitclass as ECM

    rep.kernel("mypyc.codegen.emitclass", symx.source_hash(ECM.__file__))
    shim = (
        '#include <Python.h>\n#include "CPy.h"\n#undef Py_DECREF\n#define Py_DECREF(o) verif_decref((PyObject *)(o))\n'
        "extern void verif_decref(PyObject *);\nextern PyTypeObject *CPyType_A;\nextern PyObject *A_setup(PyObject *);\nextern PyObject *CPyPy_A_____init__(PyObject *, PyObject *, PyObject *);\n" + new_text()
    )
    work = scratch("c06g-")
    try:
        ir = L.compile_ir(shim, work, opt="-O1")
    finally:
        shutil.rmtree(work, ignore_errors=True)
    funcs = L.parse_module(ir)
    rep.kernel("emitted C:A_new", L.func_hash(funcs["A_new"]))
    st: dict = {"self": None, "ret": None, "decrefs": []}

    def setup(ex: Any, args: list, pc: Any, res: Any, mem: Any) -> Any:
        st["self"] = z3.BitVec("setup_result", 64)
        return st["self"]

    def init(ex: Any, args: list, pc: Any, res: Any, mem: Any) -> Any:
        st["ret"] = z3.BitVec("init_result", 64)
        return st["ret"]

    def decref(ex: Any, args: list, pc: Any, res: Any, mem: Any) -> Any:
        st["decrefs"].append((pc, args[0]))
        return None

    noop = lambda ex, args, pc, res, mem: None  # noqa: E731
    ex = L.Executor(funcs, {"A_setup": setup, "CPyPy_A_____init__": init, "verif_decref": decref, "PyErr_SetString": noop}, arith="bv")
    typ = z3.BitVec("type", 64)
    res = ex.run("A_new", [typ, z3.BitVec("args", 64), z3.BitVec("kwds", 64)])
    R = res.ret
    stats = {"obligations": 0, "discharged": 0, "solver_s": 0.0}
    failures: list = []
    slf, ret = st["self"], st["ret"]
    if slf is None or ret is None:
        rep.error("K-glue: the setup / __init__ calls were not found in the emitted constructor")
        return

    def count(obj: Any) -> Any:
        return z3.Sum(*[z3.If(z3.And(pc, a == obj), 1, 0) for pc, a in st["decrefs"]]) if st["decrefs"] else z3.IntVal(0)

    def prove(label: str, hyps: list, goal: Any, key: str) -> None:
        s = z3.Solver()
        s.set("timeout", 60000)
        for h in hyps:
            s.add(h)
        s.add(z3.Not(goal))
        t = time.time()
        r = str(s.check())
        stats["solver_s"] += time.time() - t
        stats["obligations"] += 1
        if r == "unsat":
            stats["discharged"] += 1
        elif r == "sat":
            m = s.model()
            failures.append((key, label, {str(v): symx.z3_to_py(m.eval(v, model_completion=True)) for v in (typ, slf, ret)}))
        else:
            rep.error("inconclusive: " + label)

    tglob = ex.global_value("@CPyType_A", "ptr")
    ok_type = typ == tglob
    distinct = [slf != ret]  # two different objects
    prove("constructor fails after creating the object (__init__ returned NULL): the object is released exactly once", distinct + [ok_type, slf != 0, ret == 0], z3.And(R == 0, count(slf) == 1), "tp_new: object leaked (or released twice) when __init__ fails")
    prove("constructor succeeds: the new object is returned and not released", distinct + [ok_type, slf != 0, ret != 0], z3.And(R == slf, count(slf) == 0), "tp_new: returned object released")
    prove("constructor succeeds: the value returned by __init__ is released exactly once", distinct + [ok_type, slf != 0, ret != 0], count(ret) == 1, "tp_new: result of __init__ leaked (or released twice)")
    prove("setup failed: NULL is returned and nothing is released", [ok_type, slf == 0], z3.And(R == 0, z3.Sum(*[z3.If(pc, 1, 0) for pc, _ in st["decrefs"]]) == 0 if st["decrefs"] else z3.BoolVal(True)), "tp_new: release after a failed setup")
    prove("wrong type: NULL is returned", [typ != tglob], R == 0, "tp_new: subclass check lost")
    rep.section("K-glue emitted tp_new: ownership of the new object and of __init__'s result", obligations=stats["obligations"], discharged=stats["discharged"], releases_in_ir=len(st["decrefs"]), solver_s=round(stats["solver_s"], 2))
    rep.add_counts(obligations=stats["obligations"], discharged=stats["discharged"], queries=stats["obligations"], solver_s=stats["solver_s"], paths=stats["obligations"])
    rep.twin("K-glue: releases found in the emitted constructor", len(st["decrefs"]) >= 2)
    rep.bounds.append("K-glue: the constructor emitted for one native class with __init__; every outcome of the setup call and of __init__ (64-bit pointers, distinct objects)")
    rep.assumptions.append("K-glue: Py_DECREF is redirected to an external function at compile time (the only release primitive the emitted constructor uses)")
    for key, label, model in failures:
        rep.sample({"kernel": "tp_new", "class": key, "obligation": label, "model": model})
        rep.candidate(key, f"{label}: {model}", model, replay_new(key))
    wrapper_cleanups(rep)


WRAP_SOURCE = '''
def emit(n: int, *args: object, **kw: object) -> int:
    return n
def emit_none(n: int, *args: object) -> None:
    pass
def emit_obj(n: int, *args: object, **kw: object) -> object:
    return n
'''


def wrapper_cleanups(rep: Any) -> None:
    """The Python-callable wrappers emitted for functions with *args / **kwargs: the tuple and the dict
    built by the argument parser are new references owned by the wrapper and must be released exactly
    once on every path after a successful parse -- also when an argument has the wrong type and when the
    native function raises -- and never when parsing failed."""
    from mypyc.codegen import emitwrapper as EW
    from mypyc.codegen.emit import Emitter, EmitterContext
    from mypyc.namegen import NameGenerator

    rep.kernel("mypyc.codegen.emitwrapper", symx.source_hash(EW.__file__))
    mod = mypycir.build_module_ir(WRAP_SOURCE)
    stats = {"obligations": 0, "discharged": 0, "solver_s": 0.0}
    failures: list = []
    analysed = 0
    for fname, nobj in (("emit", 3), ("emit_none", 2), ("emit_obj", 3)):
        fn = [f for f in mod.functions if f.name == fname][0]
        em = Emitter(EmitterContext(NameGenerator([["__main__"]]), False))
        EW.generate_wrapper_function(fn, em, "m.py", "__main__")
        text = "".join(em.fragments)
        import re as _re

        call = _re.search(r"CPyArg_ParseStackAndKeywords\(([^;]*)\)\)", text)
        extra = [a.strip() for a in call.group(1).split(",")][4:] if call else []
        n_owned = len([a for a in extra if a in ("&obj_args", "&obj_kw")])
        params = ", ".join(f"o{i}" for i in range(len(extra)))
        order = [i for i, a in enumerate(extra) if a in ("&obj_args", "&obj_kw")] + [i for i, a in enumerate(extra) if a.startswith("&obj_") and a not in ("&obj_args", "&obj_kw")]
        assigns = ", ".join(f"*(o{i}) = verif_obj({k})" for k, i in enumerate(order))
        shim = (
            '#include <Python.h>\n#include "CPy.h"\n#undef Py_DECREF\n#define Py_DECREF(o) verif_decref((PyObject *)(o))\n#undef Py_XDECREF\n#define Py_XDECREF(o) verif_decref((PyObject *)(o))\n'
            "#undef CPy_DECREF\n#define CPy_DECREF(o) verif_decref((PyObject *)(o))\n#undef CPy_XDECREF\n#define CPy_XDECREF(o) verif_decref((PyObject *)(o))\n"
            "#undef Py_INCREF\n#define Py_INCREF(o) verif_incref((PyObject *)(o))\n#undef CPy_INCREF\n#define CPy_INCREF(o) verif_incref((PyObject *)(o))\nextern void verif_incref(PyObject *);\n"
            "extern void verif_decref(PyObject *);\nextern PyObject *verif_obj(int);\nextern int verif_parse_ok(void);\nextern int verif_is_long(PyObject *);\nextern CPyTagged verif_borrow(PyObject *);\n"
            f"#define CPyArg_ParseStackAndKeywords(a, n, k, p, {params}) ({assigns}, verif_parse_ok())\n"
            "#undef PyLong_Check\n#define PyLong_Check(o) verif_is_long(o)\n#define CPyTagged_BorrowFromObject(o) verif_borrow(o)\n"
            "extern PyObject *CPyStatic_globals;\n"
            "extern CPyTagged CPyDef_emit(CPyTagged, PyObject *, PyObject *);\nextern char CPyDef_emit_none(CPyTagged, PyObject *);\nextern PyObject *CPyDef_emit_obj(CPyTagged, PyObject *, PyObject *);\n" + text
        )
        work = scratch("c06w-")
        try:
            ir = L.compile_ir(shim, work, opt="-O1")
        finally:
            shutil.rmtree(work, ignore_errors=True)
        funcs = L.parse_module(ir)
        wname = "CPyPy_" + fname
        rep.kernel("emitted C:" + wname, L.func_hash(funcs[wname]))
        st: dict = {"decrefs": [], "objs": {}, "ok": None, "native": None}

        def obj(ex: Any, args: list, pc: Any, res: Any, mem: Any) -> Any:
            i = z3.simplify(args[0]).as_long()
            st["objs"].setdefault(i, z3.BitVec(f"parsed_object_{i}", 64))
            return st["objs"][i]

        def parse_ok(ex: Any, args: list, pc: Any, res: Any, mem: Any) -> Any:
            st["ok"] = z3.BitVec("parse_ok", 32)
            return st["ok"]

        def native(width: int):
            def stub(ex: Any, args: list, pc: Any, res: Any, mem: Any) -> Any:
                st["native"] = z3.BitVec("native_result", width)
                return st["native"]

            return stub

        def decref(ex: Any, args: list, pc: Any, res: Any, mem: Any) -> Any:
            st["decrefs"].append((pc, args[0]))
            return None

        noop = lambda ex, args, pc, res, mem: None  # noqa: E731
        stubs = {
            "verif_obj": obj, "verif_parse_ok": parse_ok, "verif_decref": decref, "verif_is_long": L.uf_stub("verif_is_long", 32), "verif_borrow": L.uf_stub("verif_borrow"),
            "CPyDef_emit": native(64), "CPyDef_emit_none": native(8), "CPyDef_emit_obj": native(64),
            "CPy_TypeError": noop, "CPy_AddTraceback": noop, "verif_incref": noop, "CPyTagged_StealAsObject": L.uf_stub("CPyTagged_StealAsObject"), "PyLong_FromSsize_t": L.uf_stub("PyLong_FromSsize_t"), "CPyTagged_IncRef": noop, "__indirect__": L.uf_stub("indirect"),
        }
        ex = L.Executor(funcs, stubs, arith="bv")
        ex.run(wname, [z3.BitVec("self", 64), z3.BitVec("args", 64), z3.BitVec("nargs", 64), z3.BitVec("kwnames", 64)])
        analysed += 1
        objs = st["objs"]
        # the *args tuple is object 0, the **kwargs dict object 1 (the parser fills them first)
        owned = [objs[i] for i in sorted(objs)][:n_owned]
        distinct = [a != b for i, a in enumerate(objs.values()) for b in list(objs.values())[i + 1 :]]

        def count(o: Any) -> Any:
            return z3.Sum(*[z3.If(z3.And(pc, a == o), 1, 0) for pc, a in st["decrefs"]]) if st["decrefs"] else z3.IntVal(0)

        for label, hyps, goal, key in (
            ("after a successful parse the *args tuple / **kwargs dict are released exactly once on every path (wrong argument type, native error, normal return)", distinct + [st["ok"] != 0], z3.And(*[count(o) == 1 for o in owned]), f"wrapper: the *args / **kwargs objects are leaked or released twice on some path"),
            ("after a failed parse nothing is released", [st["ok"] == 0], z3.And(*[count(o) == 0 for o in owned]), "wrapper: release after a failed argument parse"),
        ):
            sl = z3.Solver()
            sl.set("timeout", 60000)
            for h in hyps:
                sl.add(h)
            sl.add(z3.Not(goal))
            t = time.time()
            r = str(sl.check())
            stats["solver_s"] += time.time() - t
            stats["obligations"] += 1
            if r == "unsat":
                stats["discharged"] += 1
            elif r == "sat":
                m = sl.model()
                mod_ = {str(d): symx.z3_to_py(m[d]) for d in m.decls() if str(d) in ("parse_ok", "native_result")}
                failures.append((key + f" ({fname}: returns {fn.ret_type})", label, mod_))
            else:
                rep.error("inconclusive: " + label)
    rep.section("K-glue emitted call wrappers: ownership of the *args / **kwargs objects", wrappers=analysed, obligations=stats["obligations"], discharged=stats["discharged"], solver_s=round(stats["solver_s"], 2))
    rep.add_counts(obligations=stats["obligations"], discharged=stats["discharged"], queries=stats["obligations"], solver_s=stats["solver_s"], paths=stats["obligations"])
    rep.twin("K-glue: three call wrappers analysed", analysed == 3)
    rep.bounds.append("K-glue: wrappers of three functions with *args / **kwargs returning int, None and object; every outcome of parsing, of the argument type test and of the native call")
    for key, label, model in failures:
        rep.sample({"kernel": "call wrapper", "class": key, "obligation": label, "model": model})
        rep.candidate(key, f"{label}: {model}", model, replay_wrapper())


def replay_wrapper():
    def replay(d: str) -> tuple[bool, str]:
        import os
        import subprocess
        import sys

        src = "def emit(n: int, *args: object, **kw: object) -> int:\n    if n < 0:\n        raise ValueError()\n    return n\ndef emit_none(n: int, *args: object) -> None:\n    if n < 0:\n        raise ValueError()\n"
        with open(os.path.join(d, "native_mod.py"), "w") as f:
            f.write(src)
        env = dict(os.environ)
        env.pop("PYTHONPATH", None)
        p = subprocess.run([sys.executable, "-m", "mypyc", "native_mod.py"], cwd=d, capture_output=True, text=True, timeout=900, env=env)
        if p.returncode != 0:
            return False, "mypyc build failed: " + (p.stdout + p.stderr)[-400:]
        os.rename(os.path.join(d, "native_mod.py"), os.path.join(d, "native_mod.py.src"))
        drv = (
            "import gc, sys, weakref\nimport native_mod as M\n"
            "class T: pass\nalive = weakref.WeakSet()\n"
            "for i in range(300):\n    o = T(); alive.add(o)\n    for call in (lambda: M.emit(-1, o, key=o), lambda: M.emit_none(-1, o), lambda: M.emit('x', o), lambda: M.emit(1, o, key=o)):\n        try:\n            call()\n        except (ValueError, TypeError):\n            pass\n    del o\n"
            "gc.collect()\nprint('tracked objects still alive after 300 rounds of calls:', len(alive))\nsys.exit(1 if len(alive) > 5 else 0)\n"
        )
        with open(os.path.join(d, "driver.py"), "w") as f:
            f.write(drv)
        r = subprocess.run([sys.executable, "driver.py"], cwd=d, capture_output=True, text=True, timeout=300, env=env)
        shutil.rmtree(os.path.join(d, "build"), ignore_errors=True)
        return r.returncode == 1, (r.stdout + r.stderr)[-300:]

    return replay


REPLAY = '''
import gc, sys
import native_mod as C
class Boom(Exception): pass
def attempt():
    try:
        C.A(None)   # wrong argument type: __init__ fails after the object was created
    except TypeError:
        pass
for _ in range(10): attempt()
gc.collect()
before = len([o for o in gc.get_objects() if type(o) is C.A])
for _ in range(200): attempt()
gc.collect()
after = len([o for o in gc.get_objects() if type(o) is C.A])
import tracemalloc
print("live A objects before", before, "after", after)
sys.exit(1 if after > before + 5 else 0)
'''


def replay_new(key: str):
    def replay(d: str) -> tuple[bool, str]:
        import os
        import subprocess
        import sys

        src = "class A:\n    def __init__(self, x: int) -> None:\n        self.x = x\n        self.me = self\n"
        with open(os.path.join(d, "native_mod.py"), "w") as f:
            f.write(src)
        env = dict(os.environ)
        env.pop("PYTHONPATH", None)
        p = subprocess.run([sys.executable, "-m", "mypyc", "native_mod.py"], cwd=d, capture_output=True, text=True, timeout=900, env=env)
        if p.returncode != 0:
            return False, "mypyc build failed: " + (p.stdout + p.stderr)[-400:]
        os.rename(os.path.join(d, "native_mod.py"), os.path.join(d, "native_mod.py.src"))
        drv = (
            "import sys\nimport native_mod as C\n"
            "n0 = sys.getrefcount(C.A)\n"
            "for _ in range(1000):\n    try:\n        C.A('not an int')\n    except TypeError:\n        pass\n"
            "n1 = sys.getrefcount(C.A)\nprint('references to the class before', n0, 'after 1000 failed constructions', n1)\nsys.exit(1 if n1 - n0 > 100 else 0)\n"
        )
        with open(os.path.join(d, "driver.py"), "w") as f:
            f.write(drv)
        r = subprocess.run([sys.executable, "driver.py"], cwd=d, capture_output=True, text=True, timeout=300, env=env)
        shutil.rmtree(os.path.join(d, "build"), ignore_errors=True)
        return r.returncode != 0, (r.stdout + r.stderr)[-400:]

    return replay
