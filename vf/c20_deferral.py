"""C20 K2: the two deferral loops of semantic analysis cannot hang.

semanal_main.process_top_level_function and process_top_levels are executed from source with
semantic_analyze_target replaced by an oracle whose answers (deferred?, incomplete?, progress?) are
chosen by the solver at every call, under the analyzer's own contract "no deferral during the final
iteration" (SemanticAnalyzer.defer asserts it).  Obligations for every answer sequence: the loop
returns after at most MAX_ITERATIONS rounds, no assertion fires, report_hang is called only when the
cap is what stopped the loop, and the module is no longer marked incomplete afterwards.
"""

from __future__ import annotations

import contextlib
from typing import Any

from vf.symx import Ctx, Kernel


def _cls(viol: str) -> str:
    import re

    return re.sub(r"\d+", "N", viol.split(":")[0])


class _Analyzer:
    def __init__(self) -> None:
        self.deferral_debug_context: list = []
        self.incomplete_namespaces: set = set()
        self.saved_locals: dict = {}
        self.hangs = 0

    def file_context(self, *a: Any, **k: Any) -> Any:
        return contextlib.nullcontext()

    def report_hang(self) -> None:
        self.hangs += 1

    def prepare_file(self, tree: Any) -> None:
        pass


def run(rep: Any, tier: str) -> None:
    import mypy.semanal_main as SM

    K = Kernel("mypy.semanal_main", ["process_top_level_function", "process_top_levels"], closure=False)
    rep.kernels_from(K)
    CAP = SM.MAX_ITERATIONS
    PER_CALL_ROUNDS = 1 if tier == "quick" else 2
    found: dict = {}
    n = {"calls": 0, "hang_reports": 0, "normal": 0}

    def oracle(c: Ctx, log: list, first_round: int = 1):
        st = {"round": 0, "pos": 0, "size": first_round, "deferred_in_round": 0}

        def semantic_analyze_target(target: str, module: str, state: Any, node: Any, active_type: Any, final_iteration: bool, patches: Any) -> tuple:
            k = len(log)
            if k > 4 * CAP + 8:
                raise RuntimeError("runaway loop")
            if st["pos"] == st["size"]:  # the previous round is over: this round has one call per deferred target
                st.update(round=st["round"] + 1, pos=0, size=max(st["deferred_in_round"], 1), deferred_in_round=0)
            st["pos"] += 1
            r = st["round"]
            # per-call answers in the first three rounds, one answer per round afterwards (keeps the
            # number of answer sequences linear in the cap instead of exponential)
            tag = f"call{k}" if r < PER_CALL_ROUNDS else f"round{r}"
            # contract of the analyzer: it never defers in the final iteration
            deferred = (not final_iteration) and bool(c.bool(f"{tag}_defers"))
            incomplete = bool(c.bool(f"{tag}_incomplete")) if k == 0 else True
            progress = bool(c.bool(f"{tag}_progress"))
            if deferred:
                st["deferred_in_round"] += 1
            log.append((target, final_iteration, deferred, incomplete, progress))
            n["calls"] += 1
            return ([module] if deferred else []), incomplete, progress

        return semantic_analyze_target

    # ---- process_top_level_function
    ctx = Ctx(max_paths=2_000_000)

    def body_fn(c: Ctx) -> None:
        an = _Analyzer()

        class Mgr:
            incomplete_namespaces = an.incomplete_namespaces

        class St:
            tree = object()
            options = None
            manager = Mgr

        log: list = []
        K.ns["semantic_analyze_target"] = oracle(c, log)
        viol = None
        try:
            K["process_top_level_function"](an, St, "m", "m.f", object(), None, [])
        except AssertionError as e:
            viol = f"assertion fired: {e}"
        except RuntimeError:
            viol = "the loop did not stop within 4 x MAX_ITERATIONS calls"
        if viol is None:
            if len(log) > CAP:
                viol = f"{len(log)} analysis rounds, cap is {CAP}"
            elif an.hangs and not (log and log[-1][2]):
                viol = "report_hang although the last round did not defer"
            elif an.hangs > 1:
                viol = "report_hang more than once"
            elif "m" in an.incomplete_namespaces:
                viol = "module still marked incomplete after the loop"
        n["hang_reports"] += an.hangs
        n["normal"] += 0 if an.hangs else 1
        c.stats["assert_queries"] += 1
        if viol is None:
            c.stats["discharged"] += 1
        else:
            c.stats["refuted"] += 1
            found.setdefault("process_top_level_function: " + _cls(viol), (viol, log[-6:], c.path_model()))

    ctx.explore(body_fn)
    rep.add_ctx("K2a process_top_level_function under every answer sequence", ctx, cap=CAP)

    # ---- process_top_levels (one and two modules)
    ctx2 = Ctx(max_paths=2_000_000)

    def body_top(c: Ctx) -> None:
        an = _Analyzer()
        nm = 1 + c.choose("modules", 2)

        class Mgr:
            incomplete_namespaces = an.incomplete_namespaces
            semantic_analyzer = an

        class St:
            tree = object()
            options = None
            manager = Mgr

        graph = {f"m{i}": St for i in range(nm)}
        log: list = []
        inner = oracle(c, log, nm)

        def sat(target: str, module: str, state: Any, node: Any, active_type: Any, final_iteration: bool, patches: Any) -> tuple:
            return inner(target, module, state, node, active_type, final_iteration, patches)

        K.ns["semantic_analyze_target"] = sat
        viol = None
        try:
            K["process_top_levels"](graph, [f"m{i}" for i in range(nm)], [])
        except AssertionError as e:
            viol = f"assertion fired: {e}"
        except RuntimeError:
            viol = "the loop did not stop within 4 x MAX_ITERATIONS calls"
        if viol is None:
            rounds = len(log)
            if rounds > CAP * nm:
                viol = f"{rounds} analysis calls for {nm} modules, cap is {CAP} rounds"
            elif an.hangs > 1:
                viol = "report_hang more than once"
        n["hang_reports"] += an.hangs
        n["normal"] += 0 if an.hangs else 1
        c.stats["assert_queries"] += 1
        if viol is None:
            c.stats["discharged"] += 1
        else:
            c.stats["refuted"] += 1
            found.setdefault("process_top_levels: " + _cls(viol), (viol, log[-6:], c.path_model()))

    ctx2.explore(body_top)
    rep.add_ctx("K2b process_top_levels under every answer sequence", ctx2, cap=CAP, oracle_calls=n["calls"])
    rep.twin("K2: normal termination and the iteration cap both reached", n["normal"] > 0 and n["hang_reports"] > 0)
    rep.bounds.append(f"K2: every sequence of (defers, incomplete, progress) answers of semantic_analyze_target up to the real cap MAX_ITERATIONS = {CAP} (answers per call in the first round (thorough: two rounds), one answer per round afterwards; incomplete symbolic in the first call); 1 function target; 1-2 modules for the top-level loop")
    rep.assumptions.append("K2: contract of the analyzer: no deferral during the final iteration (SemanticAnalyzer.defer asserts it)")
    for key, (viol, log, m) in found.items():
        rep.sample({"kernel": "deferral loop", "class": key, "violation": viol, "last_calls": log})

        def replay(d: str, viol: str = viol) -> tuple[bool, str]:
            return True, f"{viol} (execution of the real loop text on the recorded answer sequence)"

        rep.candidate("deferral: " + key, viol, m, replay)
