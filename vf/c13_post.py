"""C13 K3: message post-processing (`Errors.sort_messages`, `sort_within_context`,
`remove_duplicates`, composed as `Errors.file_messages` composes them) never changes "any other
diagnostic".

The three functions are extracted from /repo/mypy/errors.py on every run and executed by symx on a
list of N duck ErrorInfo records whose line, column and priority are symbolic integers (unbounded
lines/columns, priority 0..2) and whose severity, message token, code, import context and parent link
are solver-chosen from small pools.  `seen_by_line` is keyed by a symbolic line, so `defaultdict` is
replaced by a dictionary that looks keys up by (branching) equality.

Oracle, stated from the property and the docstrings, not from the code shape:
 P1  the output consists of input records only, each at most once;
 P2  exact removal: among the parent-less records that agree in (line, severity, message) exactly
     one survives; every other parent-less record survives; a note with a parent survives iff its
     parent survives ("notes follow parents"); so an unrelated diagnostic is never removed;
 P3  the survivor of a duplicate class is one that sorts first (minimal column inside its run);
 P4  order: records of different import-context runs keep the reporting order of the runs; inside a
     run the output is sorted by (line, column); records that tie in (line, column) and share the code
     are ordered by priority when adjacent; records that tie in everything keep the reporting order
     (stability).
"""

from __future__ import annotations

from typing import Any

import z3

from vf import symx
from vf.symx import Ctx, Kernel, SymInt

SEVS = ["error", "note"]
MSGS = ["m0", "m1"]
CODES = ["c0", "c1"]
CTXS = [(), (("imp.py", 1),)]


class Rec:
    hidden = False

    def __init__(self, idx: int) -> None:
        self.idx = idx
        self.parent_error: Any = None

    def __repr__(self) -> str:
        return f"Rec{self.idx}"


class EqSet:
    """set of tuples with symbolic components: membership by (branching) component-wise equality"""

    def __init__(self) -> None:
        self.elems: list[Any] = []

    def __contains__(self, x: Any) -> bool:
        for e in self.elems:
            if all(bool(a == b) for a, b in zip(e, x)):
                return True
        return False

    def add(self, x: Any) -> None:
        if x not in self:
            self.elems.append(x)

    def __iter__(self) -> Any:
        return iter(list(self.elems))

    def __len__(self) -> int:
        return len(self.elems)


class EqKeyDefaultDict:
    """defaultdict whose keys may be symbolic integers: lookup by equality (forks)."""

    def __init__(self, factory: Any) -> None:
        self.factory = factory
        self.items_: list[tuple[Any, Any]] = []

    def __getitem__(self, k: Any) -> Any:
        for kk, v in self.items_:
            if bool(kk == k):
                return v
        v = EqSet() if self.factory is set else self.factory()
        self.items_.append((k, v))
        return v


def load() -> Any:
    return Kernel(
        "mypy.errors",
        ["Errors.sort_messages", "Errors.sort_within_context", "Errors.remove_duplicates"],
        closure=False,
        extra_globals={"defaultdict": EqKeyDefaultDict},
    )


def z(x: Any) -> Any:
    return symx.to_z3int(x)


def run(rep: Any, tier: str) -> None:
    import mypy.build  # noqa: F401

    K = load()
    rep.kernels_from(K)
    n_rec = 3 if tier == "quick" else 4

    class Self:
        sort_messages = K["Errors.sort_messages"]
        sort_within_context = K["Errors.sort_within_context"]
        remove_duplicates = K["Errors.remove_duplicates"]

    ctx = Ctx(max_paths=2_000_000)
    n = {"runs": 0, "removed": 0, "kept_dup_class": 0, "reordered": 0, "orphaned": 0}

    def body(c: Ctx) -> None:
        recs = []
        for i in range(n_rec):
            r = Rec(i)
            r.line = c.int(f"line{i}", 1)
            r.column = c.int(f"col{i}", 0)
            r.end_line = r.line
            r.end_column = r.column
            r.priority = c.int(f"prio{i}", 0, 2)
            r.severity = SEVS[c.choose(f"sev{i}", 2)]
            r.message = c.int(f"msg{i}", 0, 1)  # compared for equality only: looked at lazily
            r.code = c.int(f"code{i}", 0, 1)
            recs.append(r)
        # import contexts: record 0 fixes the first run; each later record continues the run or toggles
        cur = 0
        for i in range(n_rec):
            if i and c.choose(f"ctx{i}", 2):
                cur = 1 - cur
            recs[i].import_ctx = CTXS[cur]
        # parent links: a note may be attached to an earlier error of the same import context
        for i in range(1, n_rec):
            if recs[i].severity == "note":
                cands = [j for j in range(i) if recs[j].severity == "error" and recs[j].import_ctx == recs[i].import_ctx]
                if cands:
                    k = c.choose(f"parent{i}", len(cands) + 1)
                    if k:
                        recs[i].parent_error = recs[cands[k - 1]]
        me = Self()
        srt = me.sort_messages(list(recs))
        out = me.remove_duplicates(list(srt))
        n["runs"] += 1
        ids = [r.idx for r in out]
        c.check(all(isinstance(r, Rec) for r in out) and len(set(ids)) == len(ids), "P1 output = input records, each at most once")
        sids = [r.idx for r in srt]
        c.check(sorted(sids) == list(range(n_rec)), "P1 sorting is a permutation of the input")
        c.check([i for i in sids if i in set(ids)] == ids, "P1 duplicate removal keeps the sorted order")
        kept = set(ids)
        runs = [0]
        for i in range(1, n_rec):
            runs.append(runs[-1] + (recs[i].import_ctx != recs[i - 1].import_ctx))
        if len(kept) < n_rec:
            n["removed"] += 1
        # P2 exact removal
        for r in recs:
            if r.parent_error is not None:
                if r.parent_error.idx not in kept and r.idx not in kept:
                    n["orphaned"] += 1
                c.check((r.idx in kept) == (r.parent_error.idx in kept), "P2 a note with a parent survives iff its parent survives")
                continue
            same = [o for o in recs if o is not r and o.parent_error is None and o.severity == r.severity]

            def agree(o: Any) -> Any:
                return z3.And(z(o.line) == z(r.line), z(o.message) == z(r.message))

            dup_of_kept = z3.Or([agree(o) for o in same if o.idx in kept] + [z3.BoolVal(False)])
            dup_any = z3.Or([agree(o) for o in same] + [z3.BoolVal(False)])
            if r.idx in kept:
                c.check(z3.Not(dup_of_kept), "P2 two records agreeing in (line, severity, message) are not both shown")
                # P3 the survivor sorts first inside its run
                for o in same:
                    if o.idx not in kept and runs[o.idx] == runs[r.idx]:
                        n["kept_dup_class"] += 1
                        c.check(z3.Implies(agree(o), z(r.column) <= z(o.column)), "P3 the surviving duplicate is the one that sorts first")
            else:
                c.check(dup_any, "P2 a diagnostic is removed only if another one agrees with it in (line, severity, message)")
                c.check(dup_of_kept, "P2 one record of every duplicate class survives")
        # P4 order
        if sids != sorted(sids):
            n["reordered"] += 1
        for a, b in zip(srt, srt[1:]):
            if runs[a.idx] != runs[b.idx]:
                c.check(runs[a.idx] < runs[b.idx], "P4 import-context runs keep their reporting order")
                continue
            la, lb, ca, cb = z(a.line), z(b.line), z(a.column), z(b.column)
            c.check(z3.Or(la < lb, z3.And(la == lb, ca <= cb)), "P4 sorted by (line, column) inside a run")
            tie = z3.And(la == lb, ca == cb)
            samecode = z(a.code) == z(b.code)
            c.check(z3.Implies(z3.And(tie, samecode), z(a.priority) <= z(b.priority)), "P4 same position and code: ordered by priority")
            if a.idx > b.idx:
                c.check(z3.Implies(z3.And(tie, samecode), z(a.priority) < z(b.priority)), "P4 stable: full ties keep the reporting order")
                c.check(z3.Not(z3.And(tie, z3.Not(samecode))), "P4 stable: same position, different codes keep the reporting order")

    ctx.explore(body)
    rep.add_ctx(f"K3 sort_messages + remove_duplicates on {n_rec} records (symbolic line/column/priority)", ctx, **n)
    rep.twin("K3 reached: a duplicate removed, a note removed with its parent, a reordering", n["removed"] > 0 and n["orphaned"] > 0 and n["reordered"] > 0)
    rep.bounds.append(f"K3: {n_rec} records; line >= 1 and column >= 0 unbounded, end = start, priority 0..2; severity error/note, 2 message texts, 2 codes, two import contexts (each record continues the run or switches), a note's parent any earlier error of its context or none")
    seen: dict[str, dict] = {}
    for x in ctx.cex:
        seen.setdefault(x.label, x.model)
    for label, model in seen.items():
        key = "post-processing: " + label
        rep.sample({"kernel": "sort_messages/remove_duplicates", "class": key, "model": model})
        rep.candidate(key, f"{label}; records {model}", model, make_replay(model, n_rec))


def make_replay(model: dict, n_rec: int) -> Any:
    def replay(d: str) -> tuple[bool, str]:
        """the unmodified Errors.file_messages on real ErrorInfo objects built from the model; the
        verdict is recomputed concretely from the property's statement"""
        import os

        from mypy.errors import ErrorInfo, Errors
        from mypy.options import Options
        from mypy import errorcodes

        o = Options()
        e = Errors(o)
        e.set_file("f.py", "m", o)
        infos: list = []
        ctxs = [[], [("imp.py", 1)]]
        cur = 0
        real_codes = [errorcodes.MISC, errorcodes.ARG_TYPE]
        for i in range(n_rec):
            if i and model.get(f"ctx{i}", 0):
                cur = 1 - cur
            sev = SEVS[model.get(f"sev{i}", 0)]
            info = ErrorInfo(
                import_ctx=ctxs[cur], local_ctx=(None, None), module="m",
                line=model[f"line{i}"], column=model[f"col{i}"], end_line=model[f"line{i}"], end_column=model[f"col{i}"],
                severity=sev, message=MSGS[model.get(f"msg{i}", 0)], code=real_codes[model.get(f"code{i}", 0)],
                blocker=False, only_once=False, target=None,
                priority=model.get(f"prio{i}", 0),
            )
            infos.append(info)
        for i in range(1, n_rec):
            k = model.get(f"parent{i}", 0)
            if infos[i].severity == "note" and k:
                cands = [j for j in range(i) if infos[j].severity == "error" and infos[j].import_ctx == infos[i].import_ctx]
                if k - 1 < len(cands):
                    infos[i].parent_error = infos[cands[k - 1]]
        e.error_info_map["f.py"] = list(infos)
        srt = e.sort_messages([x for x in infos if not x.hidden])
        out = e.remove_duplicates(list(srt))
        kept = [infos.index(x) for x in out]
        order = [infos.index(x) for x in srt]
        if sorted(order) != list(range(n_rec)) or [i for i in order if i in kept] != kept:
            problems_pre = ["sorting is not a permutation / removal reorders"]
        else:
            problems_pre = []
        problems = list(problems_pre)
        for i, r in enumerate(infos):
            if r.parent_error is not None:
                if (i in kept) != (infos.index(r.parent_error) in kept):
                    problems.append(f"note {i} and its parent part ways")
                continue
            same = [j for j, q in enumerate(infos) if j != i and q.parent_error is None and (q.line, q.severity, q.message) == (r.line, r.severity, r.message)]
            if i in kept and any(j in kept for j in same):
                problems.append(f"duplicates {i} and {same} both shown")
            if i not in kept and not any(j in kept for j in same):
                problems.append(f"record {i} removed although no shown record agrees with it")
            if i in kept:
                for j in same:
                    if j not in kept and infos[j].import_ctx == r.import_ctx and infos[j].column < r.column:
                        problems.append(f"survivor {i} does not sort first (record {j} does)")
        runs = [0]
        for i in range(1, n_rec):
            runs.append(runs[-1] + (infos[i].import_ctx != infos[i - 1].import_ctx))
        for a, b in zip(order, order[1:]):
            A, Bq = infos[a], infos[b]
            if runs[a] != runs[b]:
                if runs[a] > runs[b]:
                    problems.append("runs out of order")
                continue
            if (A.line, A.column) > (Bq.line, Bq.column):
                problems.append(f"records {a},{b} not sorted by (line, column)")
            elif (A.line, A.column) == (Bq.line, Bq.column):
                if A.code == Bq.code and (A.priority > Bq.priority or (A.priority == Bq.priority and a > b)):
                    problems.append(f"records {a},{b}: priority / stability")
                if A.code != Bq.code and a > b:
                    problems.append(f"records {a},{b}: stability")
        with open(os.path.join(d, "replay.txt"), "w") as f:
            f.write(f"model: {model}\nsorted order: {order}\nkept (indices in output order): {kept}\nproblems: {problems}\n")
        return bool(problems), f"kept {kept}; {problems}"

    return replay
