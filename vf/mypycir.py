"""E4: obtain final mypyc FuncIR (after the real compile_scc_to_ir pass pipeline) for a source text."""

from __future__ import annotations

import os
import re
import shutil
import tempfile
from typing import Any, Iterator


_SETUP_DONE: dict = {}

def ensure_root() -> str:
    """One scratch root per check run, created by the parent process (vf.report calls this before any
    pool is forked) and removed by it at exit: pool workers leave through os._exit and never run
    their own atexit handlers, so they only ever create sub-directories of the parent's root."""
    root = os.environ.get("VERIF_IR_ROOT", "")
    if root and os.path.isdir(root):
        return root
    root = tempfile.mkdtemp(prefix="verif-ir-")
    os.environ["VERIF_IR_ROOT"] = root
    pid = os.getpid()
    import atexit

    def cleanup() -> None:
        if os.getpid() == pid:
            shutil.rmtree(root, ignore_errors=True)

    atexit.register(cleanup)
    return root


def setup_cwd() -> str:
    """The mypyc test fixtures expect cwd/tmp/builtins.pyi; create a scratch cwd once per process."""
    if "dir" in _SETUP_DONE:
        return _SETUP_DONE["dir"]
    repo = os.environ.get("VERIF_REPO", "/repo")
    d = tempfile.mkdtemp(prefix="w-", dir=ensure_root())
    os.makedirs(os.path.join(d, "tmp"))
    shutil.copy(os.path.join(repo, "mypyc/test-data/fixtures/ir.py"), os.path.join(d, "tmp", "builtins.pyi"))
    _SETUP_DONE["dir"] = d
    _SETUP_DONE["old"] = os.getcwd()
    os.chdir(d)
    return d


def build_module_ir(src: str, capi: tuple = (3, 10), pyver: tuple = (3, 10)) -> Any:
    """Returns the ModuleIR of `src` after all passes, or raises."""
    setup_cwd()
    from mypy import build
    from mypy.options import Options
    from mypyc.codegen.emitmodule import compile_scc_to_ir
    from mypyc.errors import Errors
    from mypyc.irbuild.mapper import Mapper
    from mypyc.options import CompilerOptions
    from mypyc.test.testutil import test_temp_dir

    options = Options()
    options.show_traceback = False
    options.hide_error_codes = True
    options.use_builtins_fixtures = True
    options.strict_optional = True
    options.python_version = pyver
    options.export_types = True
    options.preserve_asts = True
    options.allow_empty_bodies = True
    options.strict_bytes = True
    options.disable_bytearray_promotion = True
    options.disable_memoryview_promotion = True
    options.incremental = False
    options.cache_dir = os.devnull
    options.per_module_options["__main__"] = {"mypyc": True}
    source = build.BuildSource("main", "__main__", src)
    import contextlib
    import io

    try:
        with contextlib.redirect_stderr(io.StringIO()), contextlib.redirect_stdout(io.StringIO()):
            result = build.build(sources=[source], options=options, alt_lib_path=test_temp_dir)
    except SystemExit as e:  # internal error of the front end on a fixture it does not support
        raise ValueError("front end exited") from e
    if result.errors:
        raise ValueError("type errors: " + "; ".join(result.errors[:3]))
    errors = Errors(options)
    copts = CompilerOptions(capi_version=capi)
    mapper = Mapper({"__main__": None})
    try:
        with contextlib.redirect_stderr(io.StringIO()), contextlib.redirect_stdout(io.StringIO()):
            mods = compile_scc_to_ir([result.files["__main__"]], result, mapper, copts, errors)
    except SystemExit as e:
        raise ValueError("mypyc exited") from e
    if errors.num_errors:
        raise ValueError("mypyc errors")
    return mods["__main__"]


def test_cases(files: list[str]) -> Iterator[tuple[str, str, str]]:
    """(file, case name, program text) for single-file cases of mypyc .test files"""
    repo = os.environ.get("VERIF_REPO", "/repo")
    for fn in files:
        path = os.path.join(repo, "mypyc/test-data", fn)
        if not os.path.exists(path):
            continue
        text = open(path, encoding="utf-8").read()
        parts = re.split(r"^\[case ([^\]]+)\]\s*$", text, flags=re.M)
        for i in range(1, len(parts), 2):
            name = parts[i].strip()
            body = parts[i + 1]
            prog = re.split(r"^\[(?:out|file|typing|builtins|out2|rechecked|stale|delete|triggered)[^\]]*\]", body, flags=re.M)[0]
            if "[file " in body:
                continue
            yield fn, name, prog
