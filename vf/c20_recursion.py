"""C20 K4: the strict-equality overlap check terminates on recursive type aliases.

A small module defining recursive aliases over every container kind the check recurses into
(set, frozenset, list, tuple, dict/Mapping, a union with a recursive member, nested combinations) is
built by the real front end; ExpressionChecker.dangerous_comparison (run from source, with the real
type objects) is then called on every solver-chosen ordered pair of those alias types, for the
equality, identity and container-membership forms.  Obligation: it returns (no RecursionError and no
other exception) within a small recursion budget.
"""

from __future__ import annotations

import os
import subprocess
import sys
from typing import Any

from vf.symx import Ctx, Kernel

ALIASES = '''
from typing import Union, Mapping, AbstractSet, FrozenSet, KeysView
RS = set["RS"]
RF = frozenset["RF"]
RL = list["RL"]
RT = tuple["RT", ...]
RD = dict[str, "RD"]
RM = Mapping[str, "RM"]
RK = AbstractSet["RK"]
NS = Union[int, set["NS"]]
NL = Union[str, list["NL"]]
RSL = set[frozenset["RSL"]]
RDS = dict[str, set["RDS"]]
from typing import Callable, TypedDict, Optional
RCA = Callable[[int, "RCA"], None]
RCR = Callable[[int], "RCR"]
RU = Union[int, tuple["RU", "RU"]]
class RTD(TypedDict):
    nxt: Optional["RTD"]
'''
NAMES = ["RS", "RF", "RL", "RT", "RD", "RM", "RK", "NS", "NL", "RSL", "RDS"]
EXTRA = ["RCA", "RCR", "RU"]


def visitor_sweep(rep: Any, types: dict, modules: dict, options: Any) -> None:
    """Type visitors and relations that every recursive alias passes through during a normal or a
    daemon run: each must return within the recursion budget on every alias (pair)."""
    import mypy.erasetype as ER
    import mypy.expandtype as EX
    import mypy.indirection as IND
    import mypy.join as JO
    import mypy.meet as ME
    import mypy.server.deps as DEPS
    import mypy.subtypes as ST
    import mypy.typeops as TO
    import mypy.types as T

    for m in (DEPS, IND, ST, JO, ME, ER, EX, TO):
        rep.kernel(m.__name__, __import__("vf.symx", fromlist=["x"]).source_hash(m.__file__))
    UNARY = {
        "server.deps.get_type_triggers": lambda t: DEPS.get_type_triggers(t, False),
        "server.deps.get_type_triggers (logical)": lambda t: DEPS.get_type_triggers(t, True),
        "indirection.find_modules": lambda t: IND.TypeIndirectionVisitor().find_modules([t]),
        "str(type)": lambda t: str(t),
        "erasetype.erase_type": lambda t: ER.erase_type(t),
        "types.get_proper_type": lambda t: T.get_proper_type(t),
        "types.has_recursive_types": lambda t: T.has_recursive_types(t),
        "typeops.make_simplified_union": lambda t: TO.make_simplified_union([t, t]),
        "type.serialize": lambda t: t.serialize(),
    }
    BINARY = {
        "subtypes.is_subtype": lambda a, b: ST.is_subtype(a, b),
        "subtypes.is_proper_subtype": lambda a, b: ST.is_proper_subtype(a, b),
        "subtypes.is_same_type": lambda a, b: ST.is_same_type(a, b),
        "join.join_types": lambda a, b: JO.join_types(a, b),
        "meet.meet_types": lambda a, b: ME.meet_types(a, b),
        "meet.is_overlapping_types": lambda a, b: ME.is_overlapping_types(a, b),
    }
    names = sorted(types)
    un, bi = sorted(UNARY), sorted(BINARY)
    ctx = Ctx(max_paths=200000)
    found: dict = {}
    n = {"p": 0}

    def body(c: Ctx) -> None:
        binary = bool(c.bool("binary_operation"))
        a = names[c.choose("left", len(names))]
        if binary:
            b = names[c.choose("right", len(names))]
            fname = bi[c.choose("operation", len(bi))]
            call = lambda: BINARY[fname](types[a], types[b])  # noqa: E731
            label = f"{fname}({a}, {b})"
        else:
            fname = un[c.choose("visitor", len(un))]
            call = lambda: UNARY[fname](types[a])  # noqa: E731
            label = f"{fname}({a})"
        old = sys.getrecursionlimit()
        sys.setrecursionlimit(600)
        err = None
        try:
            call()
        except RecursionError:
            err = "RecursionError"
        except Exception as e:  # noqa: BLE001
            err = type(e).__name__ + ": " + str(e)[:80]
        finally:
            sys.setrecursionlimit(old)
        n["p"] += 1
        c.stats["assert_queries"] += 1
        if err is None:
            c.stats["discharged"] += 1
        else:
            c.stats["refuted"] += 1
            found.setdefault(f"{fname} does not return on a recursive alias ({err.split(':')[0]})", (label, a, err, fname))

    ctx.explore(body)
    rep.add_ctx("K4b type visitors / relations on recursive alias types", ctx, aliases=names, unary=un, binary=bi, calls=n["p"])
    rep.twin("K4b: calls made", n["p"] > 0)
    rep.bounds.append(f"K4b: {len(un)} unary visitors x {len(names)} recursive aliases and {len(bi)} binary relations x every ordered pair; recursion budget 600 frames")
    for key, (label, a, err, fname) in found.items():
        rep.sample({"kernel": "recursive aliases", "class": key, "call": label, "error": err})

        def replay(d: str, a: str = a, fname: str = fname, label: str = label) -> tuple[bool, str]:
            # batch run with dependency generation switched on, then a daemon run
            prog = ALIASES + f"\ndef probe(x: {a}) -> {a}:\n    return x\n"
            with open(os.path.join(d, "prog.py"), "w") as f:
                f.write(prog)
            env = dict(os.environ)
            env.pop("PYTHONPATH", None)
            flags = ["--cache-fine-grained", "--cache-dir", os.path.join(d, "cache")] if "deps" in fname else ["--no-incremental"]
            p = subprocess.run([sys.executable, "-m", "mypy", "--no-error-summary"] + flags + ["prog.py"], cwd=d, capture_output=True, text=True, env=env, timeout=600)
            out = p.stdout + p.stderr
            bad = p.returncode not in (0, 1) or "INTERNAL ERROR" in out or "Traceback" in out
            return bad, f"{label}; mypy {' '.join(flags)} on a function over {a}: exit {p.returncode}: {out.strip()[-300:]}"

        rep.candidate("recursion: " + key, f"{label}: {err}", {"call": label}, replay)


def run(rep: Any, tier: str) -> None:
    import mypy.build as B
    from mypy.modulefinder import BuildSource
    from mypy.options import Options
    from mypy.types import TypeAliasType

    K = Kernel("mypy.checkexpr", ["ExpressionChecker.dangerous_comparison"], closure=False)
    rep.kernels_from(K)
    fn = K["ExpressionChecker.dangerous_comparison"]
    o = Options()
    o.incremental = False
    o.cache_dir = os.devnull
    o.python_version = (3, 12)
    o.strict_equality = True
    res = B.build([BuildSource(None, "ra", ALIASES)], o)
    if res.errors:
        rep.error("K4: the alias module does not type check: " + "; ".join(res.errors[:3]))
        return
    names = res.files["ra"].names
    types = {n: TypeAliasType(names[n].node, []) for n in NAMES}
    modules = res.manager.modules
    all_types = dict(types)
    for n_ in EXTRA:
        all_types[n_] = TypeAliasType(names[n_].node, [])
    from mypy.types import Instance as _Inst

    all_types["RTD"] = names["RTD"].node.typeddict_type
    visitor_sweep(rep, all_types, modules, o)

    class Binder:
        @staticmethod
        def is_unreachable_warning_suppressed() -> bool:
            return False

    class Chk:
        options = o
        binder = Binder

        @staticmethod
        def lookup_typeinfo(fullname: str) -> Any:
            mod, _, name = fullname.rpartition(".")
            return modules[mod].names[name].node

    class Self:
        chk = Chk
        dangerous_comparison = fn

    ctx = Ctx()
    found: dict = {}
    n = {"p": 0, "dangerous": 0, "safe": 0}
    FORMS = ["==", "is", "in"]

    def body(c: Ctx) -> None:
        ln, rn = NAMES[c.choose("left", len(NAMES))], NAMES[c.choose("right", len(NAMES))]
        form = FORMS[c.choose("form", len(FORMS))]
        kw: dict = {}
        if form == "is":
            kw["identity_check"] = True
        if form == "in":
            kw["original_container"] = types[rn]
        old = sys.getrecursionlimit()
        sys.setrecursionlimit(400)
        err = None
        try:
            r = fn(Self(), types[ln], types[rn], **kw)
            n["dangerous" if r else "safe"] += 1
        except RecursionError:
            err = "RecursionError"
        except Exception as e:  # noqa: BLE001
            err = type(e).__name__ + ": " + str(e)[:80]
        finally:
            sys.setrecursionlimit(old)
        n["p"] += 1
        c.stats["assert_queries"] += 1
        if err is None:
            c.stats["discharged"] += 1
        else:
            c.stats["refuted"] += 1
            found.setdefault(f"strict-equality overlap check does not return on recursive aliases ({err.split(':')[0]})", (ln, rn, form, err))

    ctx.explore(body)
    rep.add_ctx("K4 dangerous_comparison on recursive alias types", ctx, aliases=NAMES, outcomes=dict(n))
    rep.twin("K4: comparisons evaluated", n["p"] > 0 and (n["dangerous"] + n["safe"]) > 0)
    rep.bounds.append(f"K4: every ordered pair of {len(NAMES)} recursive aliases (set, frozenset, list, tuple, dict, Mapping, AbstractSet, unions with a recursive member, nested set/frozenset and dict/set) x equality / identity / membership; recursion budget 400 frames")
    for key, (ln, rn, form, err) in found.items():
        rep.sample({"kernel": "dangerous_comparison", "class": key, "left": ln, "right": rn, "form": form, "error": err})

        def replay(d: str, ln: str = ln, rn: str = rn, form: str = form) -> tuple[bool, str]:
            expr = {"==": "a == b", "is": "a is b", "in": "a in b"}[form]
            prog = ALIASES + f"\ndef probe(a: {ln}, b: {rn}) -> bool:\n    return {expr}\n"
            with open(os.path.join(d, "prog.py"), "w") as f:
                f.write(prog)
            env = dict(os.environ)
            env.pop("PYTHONPATH", None)
            p = subprocess.run([sys.executable, "-m", "mypy", "--no-incremental", "--strict-equality", "--no-error-summary", "prog.py"], cwd=d, capture_output=True, text=True, env=env, timeout=600)
            out = p.stdout + p.stderr
            bad = p.returncode not in (0, 1) or "INTERNAL ERROR" in out or "Traceback" in out
            return bad, f"mypy --strict-equality on `{expr}` with a: {ln}, b: {rn}: exit {p.returncode}: {out.strip()[-300:]}"

        rep.candidate("recursion: " + key + f" [{ln} {form} {rn}]", f"{ln} {form} {rn}: {err}", {"left": ln, "right": rn, "form": form}, replay)
