"""C20 K4: the strict-equality overlap check terminates on recursive type aliases.

A small module defining recursive aliases over every container kind the check recurses into
(set, frozenset, list, tuple, dict/Mapping, a union with a recursive member, nested combinations) is
built by the real front end; ExpressionChecker.dangerous_comparison (run from source, with the real
type objects) is then called on every solver-chosen ordered pair of those alias types, for the
equality, identity and container-membership forms.  Obligation: it returns (no RecursionError and no
other exception) within a small recursion budget.
"""

from __future__ import annotations

import os
import subprocess
import sys
from typing import Any

from vf.symx import Ctx, Kernel

ALIASES = '''
from typing import Union, Mapping, AbstractSet, FrozenSet, KeysView
RS = set["RS"]
RF = frozenset["RF"]
RL = list["RL"]
RT = tuple["RT", ...]
RD = dict[str, "RD"]
RM = Mapping[str, "RM"]
RK = AbstractSet["RK"]
NS = Union[int, set["NS"]]
NL = Union[str, list["NL"]]
RSL = set[frozenset["RSL"]]
RDS = dict[str, set["RDS"]]
'''
NAMES = ["RS", "RF", "RL", "RT", "RD", "RM", "RK", "NS", "NL", "RSL", "RDS"]


def run(rep: Any, tier: str) -> None:
    import mypy.build as B
    from mypy.modulefinder import BuildSource
    from mypy.options import Options
    from mypy.types import TypeAliasType

    K = Kernel("mypy.checkexpr", ["ExpressionChecker.dangerous_comparison"], closure=False)
    rep.kernels_from(K)
    fn = K["ExpressionChecker.dangerous_comparison"]
    o = Options()
    o.incremental = False
    o.cache_dir = os.devnull
    o.python_version = (3, 12)
    o.strict_equality = True
    res = B.build([BuildSource(None, "ra", ALIASES)], o)
    if res.errors:
        rep.error("K4: the alias module does not type check: " + "; ".join(res.errors[:3]))
        return
    names = res.files["ra"].names
    types = {n: TypeAliasType(names[n].node, []) for n in NAMES}
    modules = res.manager.modules

    class Binder:
        @staticmethod
        def is_unreachable_warning_suppressed() -> bool:
            return False

    class Chk:
        options = o
        binder = Binder

        @staticmethod
        def lookup_typeinfo(fullname: str) -> Any:
            mod, _, name = fullname.rpartition(".")
            return modules[mod].names[name].node

    class Self:
        chk = Chk
        dangerous_comparison = fn

    ctx = Ctx()
    found: dict = {}
    n = {"p": 0, "dangerous": 0, "safe": 0}
    FORMS = ["==", "is", "in"]

    def body(c: Ctx) -> None:
        ln, rn = NAMES[c.choose("left", len(NAMES))], NAMES[c.choose("right", len(NAMES))]
        form = FORMS[c.choose("form", len(FORMS))]
        kw: dict = {}
        if form == "is":
            kw["identity_check"] = True
        if form == "in":
            kw["original_container"] = types[rn]
        old = sys.getrecursionlimit()
        sys.setrecursionlimit(400)
        err = None
        try:
            r = fn(Self(), types[ln], types[rn], **kw)
            n["dangerous" if r else "safe"] += 1
        except RecursionError:
            err = "RecursionError"
        except Exception as e:  # noqa: BLE001
            err = type(e).__name__ + ": " + str(e)[:80]
        finally:
            sys.setrecursionlimit(old)
        n["p"] += 1
        c.stats["assert_queries"] += 1
        if err is None:
            c.stats["discharged"] += 1
        else:
            c.stats["refuted"] += 1
            found.setdefault(f"strict-equality overlap check does not return on recursive aliases ({err.split(':')[0]})", (ln, rn, form, err))

    ctx.explore(body)
    rep.add_ctx("K4 dangerous_comparison on recursive alias types", ctx, aliases=NAMES, outcomes=dict(n))
    rep.twin("K4: comparisons evaluated", n["p"] > 0 and (n["dangerous"] + n["safe"]) > 0)
    rep.bounds.append(f"K4: every ordered pair of {len(NAMES)} recursive aliases (set, frozenset, list, tuple, dict, Mapping, AbstractSet, unions with a recursive member, nested set/frozenset and dict/set) x equality / identity / membership; recursion budget 400 frames")
    for key, (ln, rn, form, err) in found.items():
        rep.sample({"kernel": "dangerous_comparison", "class": key, "left": ln, "right": rn, "form": form, "error": err})

        def replay(d: str, ln: str = ln, rn: str = rn, form: str = form) -> tuple[bool, str]:
            expr = {"==": "a == b", "is": "a is b", "in": "a in b"}[form]
            prog = ALIASES + f"\ndef probe(a: {ln}, b: {rn}) -> bool:\n    return {expr}\n"
            with open(os.path.join(d, "prog.py"), "w") as f:
                f.write(prog)
            env = dict(os.environ)
            env.pop("PYTHONPATH", None)
            p = subprocess.run([sys.executable, "-m", "mypy", "--no-incremental", "--strict-equality", "--no-error-summary", "prog.py"], cwd=d, capture_output=True, text=True, env=env, timeout=600)
            out = p.stdout + p.stderr
            bad = p.returncode not in (0, 1) or "INTERNAL ERROR" in out or "Traceback" in out
            return bad, f"mypy --strict-equality on `{expr}` with a: {ln}, b: {rn}: exit {p.returncode}: {out.strip()[-300:]}"

        rep.candidate("recursion: " + key + f" [{ln} {form} {rn}]", f"{ln} {form} {rn}: {err}", {"left": ln, "right": rn, "form": form}, replay)
