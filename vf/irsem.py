"""E4a: symbolic value interpreter for final mypyc IR (int / bool / fixed-width fragment).

Registers hold z3 Int terms: the *signed value of the machine word*.  A tagged `int` word w
denotes val(w) = w/2 if w is even, else LV(w) (uninterpreted, outside the short range: the
canonical-form invariant).  mk(v) builds the canonical word for a mathematical integer.
Runtime helpers (CallC) are contracts in CONTRACTS: exact Python arithmetic on denoted values,
returning canonical words, with the exception they set.  Their C fast paths are verified
against the same statement at LLVM level in C15/K1; their slow paths are trusted.

The interpreter runs inside a symx exploration: branches fork, the path condition lives in the
solver, every unsupported op raises IRUnsupportedOp (the program is then skipped and counted).
"""

from __future__ import annotations

from typing import Any

import z3

from vf import symx
from vf.symx import Ctx, SymBool, SymInt, py_floordiv, py_mod

LV = z3.Function("long_value", z3.IntSort(), z3.IntSort())
BOX = z3.Function("box_word", z3.IntSort(), z3.IntSort())
BITF = symx._BITFUN  # the same uninterpreted bitwise functions the Python-side proxies use

SHORT_MIN, SHORT_MAX = -(2**62), 2**62 - 1
ERR_TAGGED = 1  # CPY_INT_TAG: error value of tagged ints
ERR_FIXED = -113  # CPY_LL_INT_ERROR


class IRUnsupportedOp(Exception):
    pass


class Raised(Exception):
    def __init__(self, name: str):
        self.name = name


def wrap(x: Any, bits: int, signed: bool = True) -> Any:
    if signed:
        return ((x + 2 ** (bits - 1)) % (2**bits)) - 2 ** (bits - 1)
    return x % (2**bits)


class Machine:
    def __init__(self, c: Ctx):
        self.c = c
        self.exc: "str | None" = None
        self.n = 0

    # --- tagged ints
    def val(self, w: Any) -> Any:
        return z3.If(w % 2 == 0, w / 2, LV(w))

    def invariant(self, w: Any) -> Any:
        """w is a valid tagged word"""
        # a boxed word is (pointer | 1) with a non-null aligned pointer: never the error value 1
        return z3.And(w >= -(2**63), w < 2**63, w != ERR_TAGGED, z3.Implies(w % 2 != 0, z3.Or(LV(w) > SHORT_MAX, LV(w) < SHORT_MIN)))

    def mk(self, v: Any) -> Any:
        b = BOX(v)
        self.c.solver.add(z3.Implies(z3.Or(v > SHORT_MAX, v < SHORT_MIN), z3.And(b % 2 != 0, b != ERR_TAGGED, b >= -(2**63), b < 2**63, LV(b) == v)))
        r = z3.If(z3.And(v >= SHORT_MIN, v <= SHORT_MAX), 2 * v, b)
        self.c.solver.add(r != ERR_TAGGED)  # valid (2v is even, a box is never the error value); spares z3 a parity argument over nonlinear v
        return r

    def fork(self, cond: Any) -> bool:
        return bool(SymBool(cond))


def type_info(t: Any) -> tuple:
    """(kind, bits, signed) for the RTypes of the fragment"""
    from mypyc.ir import rtypes as R

    if R.is_int_rprimitive(t) or R.is_short_int_rprimitive(t):
        return ("tagged", 64, True)
    if R.is_bool_rprimitive(t) or R.is_bit_rprimitive(t):
        return ("bool", 8, False)
    if R.is_int64_rprimitive(t) or t is R.c_pyssize_t_rprimitive:
        return ("fixed", 64, True)
    if R.is_int32_rprimitive(t):
        return ("fixed", 32, True)
    if R.is_int16_rprimitive(t):
        return ("fixed", 16, True)
    if R.is_uint8_rprimitive(t):
        return ("fixed", 8, False)
    name = getattr(t, "name", "")
    if name in ("native_int", "c_ptr", "ptr", "pointer"):
        return ("fixed", 64, True)
    if isinstance(t, R.RPrimitive) and t.is_native_int:
        return ("fixed", t.size * 8, t.is_signed)
    if name in ("builtins.object", "object"):
        return ("object", 64, True)
    if isinstance(t, R.RVoid) or name == "void":
        return ("void", 0, False)
    if R.is_none_rprimitive(t):
        return ("bool", 8, False)
    raise IRUnsupportedOp(f"type {t}")


# ---------------------------------------------------------------------------------------
# contracts of runtime helpers: fn(machine, args) -> word; may set machine.exc


def _tag2(f: Any) -> Any:
    def g(m: Machine, a: list) -> Any:
        return m.mk(f(m.val(a[0]), m.val(a[1])))

    return g


def _div(kind: str) -> Any:
    def g(m: Machine, a: list) -> Any:
        x, y = m.val(a[0]), m.val(a[1])
        if m.fork(y == 0):
            m.exc = "ZeroDivisionError"
            return z3.IntVal(ERR_TAGGED)
        return m.mk(py_floordiv(x, y) if kind == "div" else py_mod(x, y))

    return g


def _shift(left: bool) -> Any:
    def g(m: Machine, a: list) -> Any:
        x, n = m.val(a[0]), m.val(a[1])
        if m.fork(n < 0):
            m.exc = "ValueError"
            return z3.IntVal(ERR_TAGGED)
        p = symx.pow2(n)
        return m.mk(x * p if left else py_floordiv(x, p))

    return g


def _fixed_div(bits: int, kind: str) -> Any:
    def g(m: Machine, a: list) -> Any:
        x, y = a
        lo = -(2 ** (bits - 1))
        if m.fork(y == 0):
            m.exc = "ZeroDivisionError"
            return z3.IntVal(ERR_FIXED)
        if kind == "div":
            if m.fork(z3.And(x == lo, y == -1)):
                m.exc = "OverflowError"
                return z3.IntVal(ERR_FIXED)
            return py_floordiv(x, y)
        return z3.If(z3.And(x == lo, y == -1), z3.IntVal(0), py_mod(x, y))

    return g


def _as_fixed(bits: int, signed: bool = True) -> Any:
    def g(m: Machine, a: list) -> Any:
        # argument: pointer to a boxed int = tagged word with the tag bit cleared
        v = LV(a[0] + 1)
        lo, hi = (-(2 ** (bits - 1)), 2 ** (bits - 1) - 1) if signed else (0, 2**bits - 1)
        if m.fork(z3.Or(v < lo, v > hi)):
            m.exc = "OverflowError"
            return z3.IntVal(ERR_FIXED if signed else 239)
        return v

    return g


CONTRACTS: dict[str, Any] = {
    "CPyTagged_Add": _tag2(lambda x, y: x + y),
    "CPyTagged_Subtract": _tag2(lambda x, y: x - y),
    "CPyTagged_Multiply": _tag2(lambda x, y: x * y),
    "CPyTagged_FloorDivide": _div("div"),
    "CPyTagged_Remainder": _div("mod"),
    "CPyTagged_And": _tag2(lambda x, y: symx.bitfun("and", x, y)),
    "CPyTagged_Or": _tag2(lambda x, y: symx.bitfun("or", x, y)),
    "CPyTagged_Xor": _tag2(lambda x, y: symx.bitfun("xor", x, y)),
    "CPyTagged_Lshift": _shift(True),
    "CPyTagged_Rshift": _shift(False),
    "CPyTagged_Negate": lambda m, a: m.mk(-m.val(a[0])),
    "CPyTagged_Invert": lambda m, a: m.mk(-m.val(a[0]) - 1),
    "CPyTagged_IsLt_": lambda m, a: z3.If(m.val(a[0]) < m.val(a[1]), z3.IntVal(1), z3.IntVal(0)),
    "CPyTagged_IsEq_": lambda m, a: z3.If(m.val(a[0]) == m.val(a[1]), z3.IntVal(1), z3.IntVal(0)),
    "CPyTagged_FromInt64": lambda m, a: m.mk(a[0]),
    "CPyTagged_FromSsize_t": lambda m, a: m.mk(a[0]),
    "CPyInt64_Divide": _fixed_div(64, "div"),
    "CPyInt64_Remainder": _fixed_div(64, "mod"),
    "CPyInt32_Divide": _fixed_div(32, "div"),
    "CPyInt32_Remainder": _fixed_div(32, "mod"),
    "CPyInt16_Divide": _fixed_div(16, "div"),
    "CPyInt16_Remainder": _fixed_div(16, "mod"),
    "CPyLong_AsInt64": _as_fixed(64),
    "CPyLong_AsInt32": _as_fixed(32),
    "CPyLong_AsInt16": _as_fixed(16),
    "CPyLong_AsUInt8": _as_fixed(8, False),
}


def _list_setitem(m: Machine, a: list) -> Any:
    """CPyList_SetItem(list, tagged index, boxed int): IndexError outside [-len, len); otherwise the store
    is an observable event (normalised position, stored int value) recorded on the Ctx."""
    _, idxw, boxed = a
    n = m.c.list_len  # type: ignore[attr-defined]
    idx = m.val(idxw)
    if m.fork(z3.Or(idx < -n, idx >= n)):
        m.exc = "IndexError"
        return z3.IntVal(0)
    m.c.ir_events.append((z3.If(idx < 0, idx + n, idx), m.val((boxed - 2) / 8)))  # type: ignore[attr-defined]
    return z3.IntVal(1)


CONTRACTS["CPyList_SetItem"] = _list_setitem


def _set_overflow(name: str) -> Any:
    def g(m: Machine, a: list) -> Any:
        m.exc = "OverflowError"
        return None

    return g


for _n in ("CPyInt32_Overflow", "CPyInt16_Overflow", "CPyUInt8_Overflow", "CPyInt64_Overflow"):
    CONTRACTS[_n] = _set_overflow(_n)


# ---------------------------------------------------------------------------------------


def run_function(c: Ctx, fn: Any, args: list, max_steps: int = 400) -> tuple:
    """Execute FuncIR on symbolic argument words.  Returns ('value', word, rtype) or ('raises', name)."""
    from mypyc.ir import ops as O

    m = Machine(c)
    env: dict = {}
    for r, a in zip(fn.arg_regs, args):
        env[r] = a

    def get(v: Any) -> Any:
        if isinstance(v, O.Integer):
            return z3.IntVal(v.value)
        if isinstance(v, O.Undef):
            return z3.IntVal(0)
        if v not in env:
            raise IRUnsupportedOp(f"use of undefined value {v}")
        return env[v]

    errvals: set = set()
    b = fn.blocks[0]
    steps = 0
    while True:
        steps += 1
        if steps > max_steps:
            raise IRUnsupportedOp("step bound exceeded (loop with symbolic trip count)")
        nxt = None
        for op in b.ops:
            if isinstance(op, (O.IncRef, O.DecRef, O.KeepAlive)):
                continue
            if isinstance(op, O.Unborrow):
                env[op] = get(op.src)
                continue
            if isinstance(op, O.Return):
                w = get(op.value)
                if m.exc is not None:
                    return ("raises", m.exc)
                if op.value in errvals:
                    # the function takes its error exit although no helper set an exception
                    return ("raises", "<error return without an exception set>")
                return ("value", w, op.value.type)
            if isinstance(op, O.Unreachable):
                if m.exc is not None:
                    return ("raises", m.exc)
                raise IRUnsupportedOp("unreachable reached without a pending exception")
            if isinstance(op, O.Goto):
                nxt = op.label
                break
            if isinstance(op, O.Branch):
                v = get(op.value)
                if op.op == O.Branch.IS_ERROR:
                    kind, bits, signed = type_info(op.value.type)
                    if kind == "tagged":
                        cond = v == ERR_TAGGED
                    elif kind == "object":
                        cond = v == 0
                    elif kind == "bool":
                        cond = v == 2
                    else:
                        cond = v == (ERR_FIXED if signed else 239)
                else:
                    cond = v != 0
                taken = m.fork(cond)
                if op.negated:
                    taken = not taken
                nxt = op.true if taken else op.false
                break
            if isinstance(op, O.Assign):
                env[op.dest] = get(op.src)
                if op.src in errvals:
                    errvals.add(op.dest)
                else:
                    errvals.discard(op.dest)
                continue
            if isinstance(op, O.LoadErrorValue):
                kind, bits, signed = type_info(op.type)
                env[op] = z3.IntVal({"tagged": ERR_TAGGED, "object": 0, "bool": 2}.get(kind, ERR_FIXED if signed else 239))
                errvals.add(op)
                continue
            if isinstance(op, O.IntOp):
                kind, bits, signed = type_info(op.type)
                if kind == "tagged":
                    bits, signed = 64, True
                a, b2 = get(op.lhs), get(op.rhs)
                k = op.op
                if k == O.IntOp.ADD:
                    r = a + b2
                elif k == O.IntOp.SUB:
                    r = a - b2
                elif k == O.IntOp.MUL:
                    r = a * b2
                elif k in (O.IntOp.DIV, O.IntOp.MOD):
                    # C semantics: truncating; mypyc guards the divisor
                    if m.fork(b2 == 0):
                        raise IRUnsupportedOp("C division by zero in IR")
                    q = z3.If((a < 0) == (b2 < 0), z3.If(a < 0, (-a) / (-b2), a / b2), -(z3.If(a < 0, (-a) / b2, a / (-b2))))
                    r = q if k == O.IntOp.DIV else a - b2 * q
                elif k in (O.IntOp.AND, O.IntOp.OR, O.IntOp.XOR):
                    cb = z3.simplify(b2)
                    ca = z3.simplify(a)
                    if z3.is_int_value(ca) and not z3.is_int_value(cb):
                        a, b2, ca, cb = b2, a, cb, ca
                    if not z3.is_int_value(cb):
                        # two symbolic words: only the tag-bit idiom (x | y) & 1 and i1 logic are needed
                        lo = {O.IntOp.AND: (a % 2) * (b2 % 2), O.IntOp.OR: z3.If(z3.Or(a % 2 != 0, b2 % 2 != 0), 1, 0), O.IntOp.XOR: (a + b2) % 2}[k]
                        if kind == "bool":
                            r = lo
                        else:
                            r = symx.bitfun({O.IntOp.AND: "and", O.IntOp.OR: "or", O.IntOp.XOR: "xor"}[k], a, b2)
                            c.solver.add(r % 2 == lo, r >= -(2**63), r < 2**63)
                    else:
                        from vf.llvm2smt import _mask_and

                        xu = a % (2**bits)
                        cu = cb.as_long() % (2**bits)
                        andv = _mask_and(xu, cu, bits)
                        r = {O.IntOp.AND: andv, O.IntOp.OR: xu + cu - andv, O.IntOp.XOR: xu + cu - 2 * andv}[k]
                elif k in (O.IntOp.LEFT_SHIFT, O.IntOp.RIGHT_SHIFT):
                    cb = z3.simplify(b2)
                    if not z3.is_int_value(cb):
                        raise IRUnsupportedOp("shift by a symbolic amount in IR")
                    sh = cb.as_long()
                    r = a * (2**sh) if k == O.IntOp.LEFT_SHIFT else (a / (2**sh) if signed else (a % (2**bits)) / (2**sh))
                else:
                    raise IRUnsupportedOp(f"IntOp {k}")
                env[op] = wrap(r, bits, signed)  # bool/bit registers are 8-bit C chars: `b << 1` is 2, not 0
                continue
            if isinstance(op, O.ComparisonOp):
                a, b2 = get(op.lhs), get(op.rhs)
                k = op.op
                if k in (O.ComparisonOp.ULT, O.ComparisonOp.UGT, O.ComparisonOp.ULE, O.ComparisonOp.UGE):
                    kind, bits, _ = type_info(op.lhs.type)
                    a, b2 = a % (2**bits), b2 % (2**bits)
                f = {
                    O.ComparisonOp.EQ: a == b2,
                    O.ComparisonOp.NEQ: a != b2,
                    O.ComparisonOp.SLT: a < b2,
                    O.ComparisonOp.ULT: a < b2,
                    O.ComparisonOp.SGT: a > b2,
                    O.ComparisonOp.UGT: a > b2,
                    O.ComparisonOp.SLE: a <= b2,
                    O.ComparisonOp.ULE: a <= b2,
                    O.ComparisonOp.SGE: a >= b2,
                    O.ComparisonOp.UGE: a >= b2,
                }[k]
                env[op] = z3.If(f, z3.IntVal(1), z3.IntVal(0))
                continue
            if isinstance(op, O.Truncate):
                kind, bits, signed = type_info(op.type)
                env[op] = wrap(get(op.src), bits, signed)
                continue
            if isinstance(op, O.Extend):
                skind, sbits, _ = type_info(op.src.type)
                v = get(op.src)
                env[op] = v if op.signed else v % (2**sbits)
                continue
            if isinstance(op, O.CallC):
                name = op.function_name
                if name == "PyErr_Occurred":
                    env[op] = z3.IntVal(1 if m.exc is not None else 0)
                    continue
                if name not in CONTRACTS:
                    raise IRUnsupportedOp("runtime helper " + name)
                r = CONTRACTS[name](m, [get(a) for a in op.args])
                if r is not None:
                    env[op] = r
                continue
            if isinstance(op, O.RaiseStandardError):
                m.exc = op.class_name
                env[op] = z3.IntVal(0)
                continue
            if isinstance(op, O.Box):
                kind, _, _ = type_info(op.src.type)
                env[op] = get(op.src) * 8 + {"tagged": 2, "bool": 4}.get(kind, 6)  # opaque injective encoding, never 0
                continue
            if isinstance(op, O.Unbox):
                kind, _, _ = type_info(op.type)
                v = get(op.src)
                env[op] = v / 8
                continue
            raise IRUnsupportedOp(type(op).__name__)
        if nxt is None:
            raise IRUnsupportedOp("block without terminator")
        b = nxt
