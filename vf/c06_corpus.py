"""Generated programs exercising ownership-relevant shapes for the C06 BMC: repeated values in
list/tuple displays of every length 1..12, locals assigned on one branch only around raising
calls, reassigned arguments, loops with early exits, try/except/finally, nested calls."""

from __future__ import annotations

import random

PRELUDE = '''
from typing import Optional, Tuple, List

class C:
    def __init__(self, x: int) -> None:
        self.x = x
        self.nxt: Optional[C] = None
    def get(self) -> 'C':
        return self
    def val(self) -> int:
        return self.x

def mk(i: int) -> C:
    return C(i)

def may(i: int) -> C:
    if i < 0:
        raise ValueError()
    return C(i)

def use(c: C) -> int:
    return c.x

def chk(i: int) -> None:
    if i < 0:
        raise ValueError()

def chkb(i: int) -> bool:
    if i < 0:
        raise ValueError()
    return i > 3

def use2(a: C, b: C) -> int:
    return a.x + b.x

def lst(n: int) -> List[C]:
    return [C(n)]
'''


def fixed_shapes() -> list[str]:
    out = []
    # repeated values in displays of every length
    for n in range(1, 13):
        items = ", ".join(["v"] * (n // 2) + ["w"] * (n - n // 2))
        out.append(f"def disp_list_{n}(i: int) -> List[C]:\n    v = mk(i)\n    w = mk(i + 1)\n    return [{items}]\n")
        out.append(f"def disp_list_dead_{n}(i: int) -> int:\n    v = mk(i)\n    a = [{', '.join(['v'] * n)}]\n    return len(a)\n")
        out.append(f"def disp_list_arg_{n}(v: C) -> List[C]:\n    return [{', '.join(['v'] * n)}]\n")
        out.append(f"def disp_tuple_{min(n, 6)}_{n}(i: int) -> int:\n    v = mk(i)\n    t = ({', '.join(['v'] * min(n, 6))},)\n    return use(t[0])\n")
    # __init__ that lets other code see `self` (a method call, a helper) and stores an attribute
    # afterwards: such a store is not an initialisation, the old value has to be released
    k_ = 0
    for first in (True, False):
        for leak in ("self.reset()", "see(self)", "self.b = self.mk2()"):
            k_ += 1
            out.append(
                f"class InitLeak{k_}:\n    def __init__(self, v: C) -> None:\n"
                + ("        self.a = v\n" if first else "")
                + f"        self.b = v\n        {leak}\n        self.a = v\n"
                + "    def reset(self) -> None:\n        self.a = mk(0)\n    def mk2(self) -> C:\n        self.a = mk(1)\n        return mk(2)\n"
                + f"def see(o: 'InitLeak{k_}') -> None:\n    o.a = mk(3)\n" * (1 if "see(" in leak else 0)
            )
    # a borrowed argument reassigned on some branches only, while a local dies on the edges that skip
    # a call: several edges into one join block release the same values but need different increfs
    # (the refcount transform shares per-edge fix-up blocks through a cache)
    for re_then in (True, False):
        for re_else in (True, False):
            for inner in ("use(s)", "chk(use(s))", "use2(s, s)"):
                t = "        default = override\n" if re_then else ""
                e = "        default = override\n" if re_else else ""
                out.append(
                    f"def edgefix_{len(out)}(default: C, override: C, a: bool, b: bool) -> C:\n    s = mk(1)\n    if a:\n{t}        if b:\n            {inner}\n    else:\n{e}        if b:\n            {inner}\n    return default\n"
                )
    for re_then in (True, False):
        out.append(
            f"def edgefix3_{len(out)}(default: C, o1: C, o2: C, k: int) -> C:\n    s = mk(k)\n    if k == 0:\n" + ("        default = o1\n" if re_then else "        pass\n") + "    elif k == 1:\n        default = o2\n        use(s)\n    elif k == 2:\n        use(s)\n    return default\n"
        )
    # local assigned on one branch only, raising calls inside the branch and after the join
    for a in ("may(i)", "mk(i)"):
        for b in ("may(j)", "mk(j)"):
            out.append(f"def onebranch_{len(out)}(flag: bool, i: int, j: int) -> int:\n    if flag:\n        loc = {a}\n        k = use(may(i))\n    else:\n        k = 0\n    m = {b}\n    if flag:\n        return use(loc) + k + use(m)\n    return k + use(m)\n")
    # the same, with raising calls whose results hold no reference: both error edges drop exactly
    # the one-branch local, once where it is definitely assigned and once where it may be unassigned
    for first in ("chk(i)", "chkb(i)", "pass"):
        for second in ("chk(j)", "chkb(j)"):
            for ctor in ("mk(i)", "C(i)", "may(i)"):
                out.append(f"def onebranch_pure_{len(out)}(flag: bool, i: int, j: int) -> int:\n    if flag:\n        loc = {ctor}\n        {first}\n    {second}\n    if flag:\n        return use(loc)\n    return 0\n")
                out.append(f"def onebranch_pure_{len(out)}(flag: bool, i: int, j: int) -> int:\n    if flag:\n        loc = {ctor}\n        loc2 = {ctor}\n        {first}\n    {second}\n    {second}\n    if flag:\n        return use2(loc, loc2)\n    return 0\n")
    out.append("def reassign_arg(a: C, i: int) -> C:\n    if i > 0:\n        a = may(i)\n    b = may(i + 1)\n    return use2(a, b) > 0 and a or b\n")
    out.append("def loop_break(n: int) -> int:\n    s = 0\n    c = mk(0)\n    for i in range(n):\n        d = may(i)\n        if d.x > 3:\n            c = d\n            break\n        s += use(d)\n    return s + use(c)\n")
    out.append("def while_continue(n: int) -> int:\n    s = 0\n    i = 0\n    c = mk(0)\n    while i < n:\n        i += 1\n        d = may(i)\n        if d.x == 2:\n            continue\n        c = d.get()\n        s += use(c)\n    return s\n")
    out.append("def try_except(i: int) -> int:\n    c = mk(i)\n    try:\n        d = may(i - 5)\n        return use2(c, d)\n    except ValueError:\n        return use(c)\n")
    out.append("def try_finally(i: int) -> int:\n    c = mk(i)\n    try:\n        d = may(i - 5)\n        r = use2(c, d)\n    finally:\n        c = mk(0)\n    return r + use(c)\n")
    out.append("def nested_try(i: int) -> int:\n    try:\n        a = may(i)\n        try:\n            b = may(i - 1)\n        except ValueError:\n            b = a\n        return use2(a, b)\n    except ValueError:\n        return -1\n")
    out.append("def opt_chain(c: Optional[C]) -> int:\n    s = 0\n    while c is not None:\n        s += c.x\n        c = c.nxt\n    return s\n")
    out.append("def swap(a: C, b: C, f: bool) -> C:\n    if f:\n        a, b = b, a\n    return a\n")
    out.append("def tuple_ret(i: int) -> Tuple[C, C]:\n    a = may(i)\n    b = may(i + 1)\n    return a, b\n")
    out.append("def tuple_unpack(i: int) -> int:\n    a, b = tuple_ret(i)\n    return use(a)\n")
    out.append("def list_ops(n: int) -> int:\n    l = lst(n)\n    l.append(may(n))\n    l.append(l[0])\n    x = l[-1]\n    return use(x) + len(l)\n")
    out.append("def attr_set(c: C, i: int) -> None:\n    d = may(i)\n    c.nxt = d\n    c.nxt = d\n    if i > 2:\n        c.nxt = None\n")
    return out


def random_shapes(seed: int, count: int) -> list[str]:
    rng = random.Random(seed)
    out = []
    for k in range(count):
        lines = [f"def rnd_{k}(a: C, i: int, f: bool) -> int:"]
        locs = ["a"]
        ind = "    "
        depth = 0
        s_defined = False
        for _ in range(rng.randint(3, 8)):
            r = rng.random()
            if r < 0.3:
                nm = f"v{len(locs)}"
                lines.append(f"{ind}{nm} = {rng.choice(['mk(i)', 'may(i)', 'a.get()', rng.choice(locs), 'may(i - 3)'])}")
                if depth == 0:
                    locs.append(nm)
            elif r < 0.45:
                lines.append(f"{ind}{rng.choice(locs)} = {rng.choice(['may(i)', 'mk(i + 1)', rng.choice(locs)])}")
            elif r < 0.6 and depth == 0:
                lines.append(f"{ind}if {rng.choice(['f', 'i > 2', 'use(a) > i'])}:")
                ind += "    "
                depth += 1
                lines.append(f"{ind}i += use({rng.choice(locs)})")
            elif r < 0.7 and depth == 0:
                lines.append(f"{ind}for j in range(i):")
                ind += "    "
                depth += 1
                lines.append(f"{ind}i += use(may(j))")
            elif r < 0.8 and depth == 0:
                lines.append(f"{ind}try:")
                lines.append(f"{ind}    i += use(may(i - 2))")
                lines.append(f"{ind}except ValueError:")
                lines.append(f"{ind}    i += use({rng.choice(locs)})")
            elif r < 0.9:
                n = rng.randint(1, 11)
                lines.append(f"{ind}i += len([{', '.join(rng.choice(locs) for _ in range(n))}])")
            else:
                if depth:
                    ind = ind[:-4]
                    depth -= 1
        lines.append(f"    return i + use({rng.choice(locs)})")
        out.append("\n".join(lines) + "\n")
    return out


def programs(seed: int, tier: str) -> list[tuple[str, str]]:
    shapes = fixed_shapes() + random_shapes(seed, 60 if tier == "quick" else 600)
    out = []
    B = 25
    for i in range(0, len(shapes), B):
        out.append((f"shapes-{i // B}", PRELUDE + "\n".join(shapes[i : i + B])))
    return out
