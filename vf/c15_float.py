"""C15 K3: the native float `//` and `%` helpers (`float_ops.c`: CPyFloat_FloorDivide, CPyFloat_Mod via
`_float_div_mod`) against CPython's `float_floor_div` / `float_rem` algorithm, in IEEE double arithmetic.

The C file is compiled by clang (-O2, loop-free IR, out-parameters scalarised) on every run and the two
functions are translated to z3 floating-point terms (Float64, round-nearest-even): fadd/fsub/fneg are
interpreted, `llvm.floor` is roundToIntegral(toward -oo), `copysign`/`fabs`/comparisons/select/phi are
interpreted; `fmod` and the hardware division are *shared uninterpreted functions* of their operands (the
reference model applies the same functions to the same operands, so equivalence does not need their
semantics, and z3 does not have to bit-blast a 53-bit divider).  Reference model: a transcription of
Objects/floatobject.c `_float_div_mod` (CPython 3.12) in z3 terms.

Obligations (full width, every pair of doubles incl. infinities, NaNs and signed zeros, every value of
fmod/division consistent with being functions): ZeroDivisionError exactly when the divisor is zero, and
otherwise the result equals the reference bit for bit (NaN = NaN).  A counterexample is made real before
it is replayed: a second query restricts the divisor to 1.0 and the dividend to an integral value, where
fmod(x, 1.0) = +-0 and x / 1.0 = x are facts, and the witness is run through a real mypyc build.
"""

from __future__ import annotations

import os
import re
import time
from typing import Any

import z3

from vf import llvm2smt as L

F64 = z3.Float64()
RNE = z3.RNE()
FMOD = z3.Function("fmod", F64, F64, F64)
FDIV = z3.Function("hwdiv", F64, F64, F64)
ERR = "ERR"


class Interp:
    """IEEE semantics of the rounding operations"""

    name = "interpreted"

    @staticmethod
    def fmod(a: Any, b: Any) -> Any:
        return FMOD(a, b)

    @staticmethod
    def div(a: Any, b: Any) -> Any:
        return FDIV(a, b)

    @staticmethod
    def add(a: Any, b: Any) -> Any:
        return z3.fpAdd(RNE, a, b)

    @staticmethod
    def sub(a: Any, b: Any) -> Any:
        return z3.fpSub(RNE, a, b)

    @staticmethod
    def mul(a: Any, b: Any) -> Any:
        return z3.fpMul(RNE, a, b)

    @staticmethod
    def floor(a: Any) -> Any:
        return z3.fpRoundToIntegral(z3.RTN(), a)


class Abstract:
    """add / sub / mul / floor as uninterpreted functions shared by the implementation and the
    reference: equality under every interpretation implies equality under the IEEE one"""

    name = "abstract"
    fmod = staticmethod(lambda a, b: FMOD(a, b))
    div = staticmethod(lambda a, b: FDIV(a, b))
    _add = z3.Function("ADD", F64, F64, F64)
    _sub = z3.Function("SUB", F64, F64, F64)
    _mul = z3.Function("MUL", F64, F64, F64)
    _floor = z3.Function("FLOOR", F64, F64)

    @classmethod
    def add(cls, a: Any, b: Any) -> Any:
        return cls._add(a, b)

    @classmethod
    def sub(cls, a: Any, b: Any) -> Any:
        return cls._sub(a, b)

    @classmethod
    def mul(cls, a: Any, b: Any) -> Any:
        return cls._mul(a, b)

    @classmethod
    def floor(cls, a: Any) -> Any:
        return cls._floor(a)

SHIM = '#include <Python.h>\n#include "CPy.h"\n#include "float_ops.c"\n'


class UnitDivisor(Interp):
    """witness search only: the divisor is the constant 1.0 and the dividend is integral, where
    fmod(a, 1.0) = +-0 (sign of a) and a / 1.0 = a are facts of IEEE arithmetic"""

    name = "divisor 1.0"

    @staticmethod
    def _unit(b: Any) -> None:
        if not z3.eq(z3.simplify(b), z3.simplify(z3.FPVal(1.0, F64))):
            raise L.IRUnsupported("witness search: a divisor other than the constant 1.0")

    @classmethod
    def fmod(cls, a: Any, b: Any) -> Any:
        cls._unit(b)
        z = z3.FPVal(0.0, F64)
        return z3.If(z3.fpIsNegative(a), z3.fpNeg(z), z)

    @classmethod
    def div(cls, a: Any, b: Any) -> Any:
        cls._unit(b)
        return a


def fpconst(tok: str) -> Any:
    if tok.startswith("0x"):
        return z3.fpBVToFP(z3.BitVecVal(int(tok, 16), 64), F64)
    return z3.FPVal(float(tok), F64)


class FPExec:
    """path-merging executor for loop-free double-only functions"""

    def __init__(self, fn: L.Func, sem: Any = Interp) -> None:
        self.sem = sem
        self.fn = fn
        self.blocks = {b.label: b for b in fn.blocks}

    def val(self, tok: str, env: dict) -> Any:
        tok = tok.strip()
        if tok.startswith("%"):
            return env[tok]
        if tok in ("true", "false"):
            return z3.BoolVal(tok == "true")
        return fpconst(tok)

    def run(self, args: list) -> list[tuple[Any, Any, bool]]:
        """returns [(path condition, result term, error set?)]"""
        env0 = {p[1]: a for p, a in zip(self.fn.params, args)}
        out: list = []
        work = [(self.fn.blocks[0].label, None, env0, z3.BoolVal(True), False)]
        steps = 0
        while work:
            label, pred, env, pc, err = work.pop()
            env = dict(env)
            steps += 1
            if steps > 500:
                raise L.IRUnsupported("too many paths (loop?)")
            for ins in self.blocks[label].instrs:
                t = ins.text
                if ins.op == "phi":
                    m = re.findall(r"\[\s*([^,\]]+),\s*%([\w.\-]+)\s*\]", t)
                    chosen = [v for v, lab in m if lab == pred]
                    if not chosen:
                        raise L.IRUnsupported("phi without matching predecessor: " + t)
                    ty = t.split()[1]
                    env[ins.dest] = self.val(chosen[0], env) if ty != "i1" else self.val(chosen[0], env)
                elif ins.op == "fcmp":
                    m = re.match(r"fcmp\s+(?:\w+\s+)*?(oeq|une|uge|olt|ogt|ole|oge|ult|ugt|ule|one|ueq|ord|uno)\s+double\s+([^,]+),\s*(.+)$", t)
                    if not m:
                        raise L.IRUnsupported(t)
                    p, a, b = m.group(1), self.val(m.group(2), env), self.val(m.group(3), env)
                    uno = z3.Or(z3.fpIsNaN(a), z3.fpIsNaN(b))
                    base = {"eq": z3.fpEQ(a, b), "ne": z3.Not(z3.fpEQ(a, b)), "lt": z3.fpLT(a, b), "gt": z3.fpGT(a, b), "le": z3.fpLEQ(a, b), "ge": z3.fpGEQ(a, b)}
                    if p == "ord":
                        r = z3.Not(uno)
                    elif p == "uno":
                        r = uno
                    elif p[0] == "o":
                        r = z3.And(z3.Not(uno), base[p[1:]])
                    else:
                        r = z3.Or(uno, base[p[1:]])
                    env[ins.dest] = r
                elif ins.op in ("fadd", "fsub", "fmul", "fdiv"):
                    m = re.match(r"f\w+\s+(?:\w+\s+)*?double\s+([^,]+),\s*(.+)$", t)
                    a, b = self.val(m.group(1), env), self.val(m.group(2), env)
                    env[ins.dest] = {"fadd": lambda: self.sem.add(a, b), "fsub": lambda: self.sem.sub(a, b), "fmul": lambda: self.sem.mul(a, b), "fdiv": lambda: self.sem.div(a, b)}[ins.op]()
                elif ins.op == "fneg":
                    env[ins.dest] = z3.fpNeg(self.val(t.split()[-1], env))
                elif ins.op in ("xor", "and", "or") and " i1 " in t:
                    m = re.match(r"\w+\s+i1\s+([^,]+),\s*(.+)$", t)
                    a, b = self.val(m.group(1), env), self.val(m.group(2), env)
                    env[ins.dest] = {"xor": z3.Xor, "and": z3.And, "or": z3.Or}[ins.op](a, b)
                elif ins.op == "select":
                    m = re.match(r"select\s+(?:\w+\s+)*?i1\s+([^,]+),\s*(?:double|i1)\s+([^,]+),\s*(?:double|i1)\s+(.+)$", t)
                    env[ins.dest] = z3.If(self.val(m.group(1), env), self.val(m.group(2), env), self.val(m.group(3), env))
                elif ins.op == "load":
                    env[ins.dest] = None  # exception class object: only passed on to PyErr_SetString
                elif ins.op == "call":
                    m = re.match(r"call\s+(?:[\w()]+\s+)*?(void|double)\s+@([\w.]+)\((.*)\)", t)
                    if not m:
                        raise L.IRUnsupported(t)
                    callee = m.group(2)
                    cargs = [a.strip() for a in L._split_args(m.group(3))]
                    dargs = [self.val(re.sub(r"^double\s+(?:noundef\s+)?", "", a), env) for a in cargs if a.startswith("double")]
                    if callee == "fmod":
                        env[ins.dest] = self.sem.fmod(dargs[0], dargs[1])
                    elif callee == "llvm.floor.f64" or callee == "floor":
                        env[ins.dest] = self.sem.floor(dargs[0])
                    elif callee in ("llvm.copysign.f64", "copysign"):
                        env[ins.dest] = z3.If(z3.fpIsNegative(dargs[1]), z3.fpNeg(z3.fpAbs(dargs[0])), z3.fpAbs(dargs[0]))
                    elif callee in ("llvm.fabs.f64", "fabs"):
                        env[ins.dest] = z3.fpAbs(dargs[0])
                    elif callee == "PyErr_SetString":
                        err = True
                    else:
                        raise L.IRUnsupported("call to " + callee)
                elif ins.op == "br":
                    m = re.match(r"br\s+i1\s+([^,]+),\s*label\s+%([\w.\-]+),\s*label\s+%([\w.\-]+)", t)
                    if m:
                        c = self.val(m.group(1), env)
                        work.append((m.group(2), label, env, z3.And(pc, c), err))
                        work.append((m.group(3), label, env, z3.And(pc, z3.Not(c)), err))
                    else:
                        m = re.match(r"br\s+label\s+%([\w.\-]+)", t)
                        work.append((m.group(1), label, env, pc, err))
                    break
                elif ins.op == "ret":
                    out.append((pc, self.val(t.split()[-1], env), err))
                    break
                else:
                    raise L.IRUnsupported(t)
        return out


def ref_divmod(vx: Any, wx: Any, sem: Any = Interp) -> tuple[Any, Any]:
    """Objects/floatobject.c _float_div_mod (CPython 3.12), wx != 0"""
    zero = z3.FPVal(0.0, F64)
    mod = sem.fmod(vx, wx)
    div = sem.div(sem.sub(vx, mod), wx)
    nonzero_mod = z3.Not(z3.fpEQ(mod, zero))  # `if (mod)`: false for +-0, true for NaN
    adjust = z3.And(nonzero_mod, z3.Xor(z3.fpLT(wx, zero), z3.fpLT(mod, zero)))
    mod2 = z3.If(nonzero_mod, z3.If(adjust, sem.add(mod, wx), mod), z3.If(z3.fpIsNegative(wx), z3.fpNeg(zero), zero))
    div2 = z3.If(adjust, sem.add(div, z3.FPVal(-1.0, F64)), div)  # div -= 1.0 (x - 1.0 is x + (-1.0) in IEEE arithmetic)
    fl = sem.floor(div2)
    snapped = z3.If(z3.fpGT(sem.sub(div2, fl), z3.FPVal(0.5, F64)), sem.add(fl, z3.FPVal(1.0, F64)), fl)
    q = sem.div(vx, wx)
    zq = z3.If(z3.fpIsNegative(q), z3.fpNeg(zero), zero)
    floordiv = z3.If(z3.Not(z3.fpEQ(div2, zero)), snapped, zq)
    return floordiv, mod2


def same(a: Any, b: Any) -> Any:
    return z3.Or(z3.And(z3.fpIsNaN(a), z3.fpIsNaN(b)), z3.fpToIEEEBV(a) == z3.fpToIEEEBV(b))


def run(rep: Any, tier: str) -> None:
    from vf.report import scratch
    import shutil

    work = scratch("c15f-")
    try:
        text = L.compile_ir(SHIM, work, opt="-O2")
    finally:
        shutil.rmtree(work, ignore_errors=True)
    funcs = L.parse_module(text)
    x, y = z3.FP("x", F64), z3.FP("y", F64)
    zero = z3.FPVal(0.0, F64)
    stats = {"queries": 0, "discharged": 0, "solver_s": 0.0, "inconclusive": 0, "discharged_abstractly": 0}
    found: dict = {}
    reached = {"err": False, "value": False}
    one = z3.FPVal(1.0, F64)

    def ask(solver: Any) -> str:
        t = time.time()
        r = str(solver.check())
        stats["solver_s"] += time.time() - t
        stats["queries"] += 1
        return r

    def goals_for(fn: Any, sem: Any, which: int, yv: Any = y) -> list:
        ref = ref_divmod(x, yv, sem)[which]
        out = []
        for i, (pc, res, err) in enumerate(FPExec(fn, sem).run([x, yv])):
            if err:
                out.append((i, "ZeroDivisionError only when the divisor is zero", pc, z3.fpEQ(y, zero)))
                reached["err"] = True
            else:
                out.append((i, "no error is raised only when the divisor is non-zero", pc, z3.Not(z3.fpEQ(y, zero))))
                out.append((i, "result equals CPython's float_divmod algorithm bit for bit", pc, same(res, ref)))
                reached["value"] = True
        return out

    # region hints for the witness search only (a witness is replayed against a real build, so a hint can
    # hide a witness but never create one): divisor 1.0 and an integral dividend, where fmod(x, 1) = +-0 and
    # x / 1 = x are facts of IEEE arithmetic
    def regions() -> list:
        bx = z3.fpToIEEEBV(x)
        expo = z3.Extract(62, 52, bx)
        return [
            ("2^52 <= |x| < 2^53", expo == 1075),
            ("2^51 <= |x| < 2^52", expo == 1074),
            ("2^53 <= |x| < 2^54", expo == 1076),
            ("|x| < 2^10", z3.ULT(expo, 1033)),
            ("any integral x", z3.BoolVal(True)),
        ]

    for which, fname in ((0, "CPyFloat_FloorDivide"), (1, "CPyFloat_Mod")):
        fn = funcs.get(fname)
        if fn is None and fname != "CPyFloat_FloorDivide":
            continue  # no separate definition in this version of float_ops.c
        if fn is None or fn.ret == "?unparsed":
            rep.error(f"K3: {fname} not found in the IR of float_ops.c")
            continue
        rep.kernel("mypyc/lib-rt/float_ops.c:" + fname, L.func_hash(fn))
        abstract = goals_for(fn, Abstract, which)
        concrete = goals_for(fn, Interp, which)
        if len(abstract) != len(concrete):
            rep.error("K3: abstract and interpreted executions disagree on the number of paths")
            continue
        for (i, label, pc_a, g_a), (_, _, pc, g) in zip(abstract, concrete):
            # stage 1: rounding operations uninterpreted -- congruence and comparisons only
            s1 = z3.Solver()
            s1.set("timeout", 60000)
            s1.add(pc_a, z3.Not(g_a))
            if ask(s1) == "unsat":
                stats["discharged"] += 1
                stats["discharged_abstractly"] += 1
                continue
            # stage 2: IEEE semantics
            s2 = z3.Solver()
            s2.set("timeout", 60000)
            s2.add(pc, z3.Not(g))
            r = ask(s2)
            if r == "unsat":
                stats["discharged"] += 1
                continue
            # refuted or undecided: look for a witness that real arithmetic produces
            witness = None
            try:
                unit = goals_for(fn, UnitDivisor, which, one)
            except L.IRUnsupported:
                unit = []
            for rname, rc in regions():
                for (_, ulabel, upc, ug) in unit:
                    if ulabel != label:
                        continue
                    s3 = z3.Solver()
                    s3.set("timeout", 30000)
                    s3.add(upc, z3.Not(ug), z3.fpEQ(z3.fpRoundToIntegral(RNE, x), x), z3.Not(z3.fpIsInf(x)), z3.Not(z3.fpIsNaN(x)), rc)
                    if ask(s3) == "sat":
                        m = s3.model()
                        import struct

                        bv = m.eval(z3.fpToIEEEBV(x), model_completion=True).as_long()
                        witness = (struct.unpack("<d", struct.pack("<Q", bv))[0], rname)
                        break
                if witness is not None:
                    break
            if witness is None:
                stats["inconclusive"] += 1
                rep.error(f"K3: {fname}: '{label}' is not discharged ({r}) and no witness with divisor 1.0 was found")
            else:
                found.setdefault(f"{fname}: {label}", (fname, witness[0], 1.0, True))
    rep.section("K3 native float // and % vs CPython's float_divmod (IEEE doubles, full width)", obligations=stats["queries"], discharged=stats["discharged"], inconclusive=stats["inconclusive"], solver_s=round(stats["solver_s"], 3), discharged_with_uninterpreted_rounding=stats["discharged_abstractly"])
    rep.add_counts(stats["queries"], stats["discharged"], stats["queries"], stats["solver_s"], inconclusive=stats["inconclusive"])
    rep.twin("K3: the error exit and a value path of the float helpers were reached", reached["err"] and reached["value"])
    rep.bounds.append("K3: CPyFloat_FloorDivide / CPyFloat_Mod on every pair of IEEE doubles; fmod and hardware division are shared uninterpreted functions (the reference applies them to the same operands)")
    for key, (fname, xv, yv, real) in found.items():
        rep.sample({"kernel": fname, "class": key, "x": repr(xv), "y": repr(yv), "witness_realised_with_divisor_1": real})
        rep.candidate("float: " + key, f"{fname}({xv!r}, {yv!r})", {"x": repr(xv), "y": repr(yv)}, make_replay(fname, xv, yv))


def make_replay(fname: str, xv: float, yv: float) -> Any:
    def replay(d: str) -> tuple[bool, str]:
        from vf import mypyc_replay

        op = "//" if "Floor" in fname else "%"
        src = f"def f(x: float, y: float) -> float:\n    return x {op} y\n"
        return mypyc_replay.build_and_compare(src, [("f", [xv, yv])], d)

    return replay
