"""Bounded strings as explicit character vectors.

Exact within the length cap; decided by bit-vector/LIA reasoning instead of z3's sequence
solver, which gives up (unknown) on conjunctions of negated `contains` constraints.
"""

from __future__ import annotations

from typing import Any

import z3

from vf import symx
from vf.symx import SymBool, SymInt, Unsupported, to_z3int


class BStr:
    """String of at most `cap` 8-bit characters: chars[i] is meaningful for i < n."""

    def __init__(self, chars: list, n: Any):
        self.chars = chars
        self.n = n if not isinstance(n, int) else z3.IntVal(n)

    @property
    def cap(self) -> int:
        return len(self.chars)

    @staticmethod
    def const(s: "str | bytes") -> "BStr":
        data = s.encode("latin-1") if isinstance(s, str) else s
        return BStr([z3.BitVecVal(b, 8) for b in data], len(data))

    @staticmethod
    def lift(o: Any) -> "BStr | None":
        if isinstance(o, BStr):
            return o
        if isinstance(o, (str, bytes)):
            return BStr.const(o)
        return None

    def _nconst(self) -> "int | None":
        n = z3.simplify(self.n)
        return n.as_long() if z3.is_int_value(n) else None

    def at(self, idx: Any) -> Any:
        """chars[idx] for a symbolic Int idx (ITE chain)."""
        r = z3.BitVecVal(0, 8)
        for j in range(self.cap - 1, -1, -1):
            r = z3.If(idx == j, self.chars[j], r)
        return r

    def __add__(self, o: Any) -> Any:
        b = BStr.lift(o)
        if b is None:
            return NotImplemented
        return bconcat(self, b)

    def __radd__(self, o: Any) -> Any:
        a = BStr.lift(o)
        if a is None:
            return NotImplemented
        return bconcat(a, self)

    def contains_term(self, needle: "str | bytes") -> Any:
        nd = BStr.const(needle)
        m = nd.cap
        if m == 0:
            return z3.BoolVal(True)
        alts = []
        for p in range(0, self.cap - m + 1):
            alts.append(z3.And(p + m <= self.n, *[self.chars[p + k] == nd.chars[k] for k in range(m)]))
        return z3.Or(*alts) if alts else z3.BoolVal(False)

    def __contains__(self, needle: Any) -> bool:
        if isinstance(needle, BStr):
            raise Unsupported("symbolic needle in BStr.__contains__")
        return bool(SymBool(self.contains_term(needle)))

    def startswith(self, p: Any) -> SymBool:
        if isinstance(p, tuple):
            return SymBool(z3.Or(*[self.startswith(q).t for q in p])) if p else SymBool(z3.BoolVal(False))
        nd = BStr.const(p)
        if nd.cap > self.cap:
            return SymBool(z3.BoolVal(False))
        return SymBool(z3.And(self.n >= nd.cap, *[self.chars[k] == nd.chars[k] for k in range(nd.cap)]))

    def endswith(self, p: Any) -> SymBool:
        nd = BStr.const(p)
        m = nd.cap
        if m > self.cap:
            return SymBool(z3.BoolVal(False))
        return SymBool(z3.And(self.n >= m, *[self.at(self.n - m + k) == nd.chars[k] for k in range(m)]))

    def eq_term(self, o: "BStr") -> Any:
        c = min(self.cap, o.cap)
        conj = [self.n == o.n, self.n <= c]
        for i in range(c):
            conj.append(z3.Implies(i < self.n, self.chars[i] == o.chars[i]))
        return z3.And(*conj)

    def __eq__(self, o: Any) -> Any:  # type: ignore[override]
        b = BStr.lift(o)
        if b is None:
            return False
        return SymBool(self.eq_term(b))

    def __ne__(self, o: Any) -> Any:  # type: ignore[override]
        return symx.Not(self.__eq__(o))

    def __hash__(self) -> int:
        return 0  # membership decided by the symbolic __eq__ (exact; collisions are legal)

    def find_term(self, ch: str) -> Any:
        """index of the first occurrence of a single character, or -1"""
        c = z3.BitVecVal(ord(ch), 8)
        r: Any = z3.IntVal(-1)
        for j in range(self.cap - 1, -1, -1):
            r = z3.If(z3.And(j < self.n, self.chars[j] == c), z3.IntVal(j), r)
        return r

    def find(self, sub: Any, start: Any = 0) -> SymInt:
        if isinstance(sub, str) and len(sub) == 1 and isinstance(start, int) and start == 0:
            return SymInt(self.find_term(sub))
        nd = BStr.const(sub)
        m = nd.cap
        r: Any = z3.IntVal(-1)
        st = to_z3int(start)
        for p in range(self.cap - m, -1, -1):
            hit = z3.And(p >= st, p + m <= self.n, *[self.chars[p + k] == nd.chars[k] for k in range(m)])
            r = z3.If(hit, z3.IntVal(p), r)
        return SymInt(r)

    def prefix(self, k: Any) -> "BStr":
        return BStr(self.chars, k)

    def split(self, sep: Any = None, maxsplit: int = -1) -> Any:
        if not (isinstance(sep, str) and len(sep) == 1):
            raise Unsupported("BStr.split only models a single-character separator")
        return _BSplit(self, sep)

    def __symlen__(self) -> SymInt:
        return SymInt(self.n)

    def __symisinstance__(self, types: tuple) -> bool:
        return str in types or bytes in types or object in types

    def __bool__(self) -> bool:
        return bool(SymBool(self.n > 0))

    def value(self, model: z3.ModelRef) -> str:
        n = model.eval(self.n, model_completion=True).as_long()
        return "".join(chr(model.eval(self.chars[i], model_completion=True).as_long()) for i in range(min(n, self.cap)))

    def __repr__(self) -> str:
        return f"BStr(cap={self.cap})"


class _BSplit:
    def __init__(self, s: BStr, sep: str):
        self.s = s
        self.sep = sep

    def __getitem__(self, i: Any) -> BStr:
        if i != 0:
            raise Unsupported("split()[i] for i != 0 on symbolic string")
        idx = self.s.find_term(self.sep)
        return self.s.prefix(z3.If(idx < 0, self.s.n, idx))


def bconcat(a: BStr, b: BStr) -> BStr:
    na = a._nconst()
    if na is not None:
        return BStr(list(a.chars[:na]) + list(b.chars), na + b.n)
    chars = []
    for i in range(a.cap + b.cap):
        own = a.chars[i] if i < a.cap else z3.BitVecVal(0, 8)
        chars.append(z3.If(i < a.n, own, b.at(i - a.n)))
    return BStr(chars, a.n + b.n)


def bstr(ctx: "symx.Ctx", name: str, cap: int, lo: int = 0x20, hi: int = 0x7E, minlen: int = 0) -> BStr:
    chars = [z3.BitVec(f"{name}[{i}]", 8) for i in range(cap)]
    n = z3.Int(f"{name}.len")
    ctx.solver.add(n >= minlen, n <= cap)
    for ch in chars:
        ctx.solver.add(z3.ULE(lo, ch), z3.ULE(ch, hi))
    s = BStr(chars, n)
    if not hasattr(ctx, "bstrs"):
        ctx.bstrs = {}  # type: ignore[attr-defined]
    ctx.bstrs[name] = s  # type: ignore[attr-defined]
    return s


def fstr_b(parts: list) -> Any:
    acc: Any = BStr.const("")
    for p in parts:
        if isinstance(p, BStr):
            acc = acc + p
        elif symx.is_sym(p):
            raise Unsupported(f"f-string of {type(p).__name__} next to a bounded string")
        else:
            acc = acc + (p if isinstance(p, str) else format(p, ""))
    return acc


# register with symx
symx.EXTRA_SYM_TYPES.append(BStr)
symx.FSTR_HOOKS.append((BStr, fstr_b))
