"""C02 K3/K4 (also serving C09 and C10): SCC freshness decisions.

K3a State.is_fresh under an options proxy whose bool attributes are symbolic.
K3b find_stale_sccs (+ verify_transitive_deps, BuildManager.is_transitive_scc_dep, order_ascc_ex)
    on lightweight State/SCC objects: an SCC is declared fresh only if every member is fresh,
    every recorded dependency hash equals the dependency's current interface hash and every
    indirect dependency is reachable; the cached errors of a fresh SCC are replayed in an order
    that does not depend on set iteration order (solver-chosen NDSet ranks).
K3c is_transitive_scc_dep equals true graph reachability for every query sequence (cache soundness).
K4  exist_removed_submodules against its specification.
"""

from __future__ import annotations

import itertools
from typing import Any

import z3

from vf import symx
from vf.symx import Ctx, Kernel, PathAbort, SymBool, SymTok, Unsupported


class BoolOpts:
    """Options stand-in: every bool attribute read is a fresh symbolic value (memoised)."""

    def __init__(self, c: Ctx, proto: Any, reads: set):
        object.__setattr__(self, "_c", c)
        object.__setattr__(self, "_proto", proto)
        object.__setattr__(self, "_reads", reads)
        object.__setattr__(self, "_vals", {})

    def __getattr__(self, name: str) -> Any:
        proto = self._proto
        if not hasattr(proto, name):
            raise AttributeError(name)
        d = getattr(proto, name)
        self._reads.add(name)
        if isinstance(d, bool):
            if name not in self._vals:
                self._vals[name] = bool(self._c.bool("opt." + name))
            return self._vals[name]
        return d


def k3a_is_fresh(rep: Any) -> None:
    from mypy.options import Options

    K = Kernel("mypy.build", ["State.is_fresh"], closure=False)
    rep.kernels_from(K)
    fn = K["State.is_fresh"]
    proto = Options()
    ctx = Ctx()
    found: dict = {}
    reads: set = set()
    n = {"fresh": 0, "stale": 0}

    def body(c: Ctx) -> None:
        opts = BoolOpts(c, proto, reads)
        has_meta = bool(c.bool("has_meta"))
        deps_equal = bool(c.bool("dependencies_equal"))
        sup_equal = bool(c.bool("suppressed_deps_opts_equal"))

        class Meta:
            dependencies = ["a", "b"]
            suppressed_deps_opts = b"OLD"

        class St:
            meta = Meta if has_meta else None
            dependencies = ["a", "b"] if deps_equal else ["a", "c"]
            options = opts

            def suppressed_deps_opts(self) -> bytes:
                return b"OLD" if sup_equal else b"NEW"

        r = fn(St())
        n["fresh" if r else "stale"] += 1
        daemon = opts._vals.get("fine_grained_incremental", None)
        # specification (comment above is_fresh): fresh requires a meta, an unchanged dependency list,
        # and unchanged import options of suppressed dependencies; the last check is skipped only in
        # the fine-grained daemon mode (options.fine_grained_incremental)
        c.stats["assert_queries"] += 1
        ok = (not r) or (has_meta and deps_equal and (sup_equal or daemon is True))
        if ok:
            c.stats["discharged"] += 1
        else:
            c.stats["refuted"] += 1
            culprit = sorted(k for k, v in opts._vals.items() if v and k != "fine_grained_incremental")
            found.setdefault("is_fresh trusts a module although meta / dependency list / suppressed-dependency import options differ", (c.path_model(), culprit))

    ctx.explore(body)
    rep.add_ctx("K3a State.is_fresh", ctx, options_read=sorted(reads), outcomes=dict(n))
    rep.twin("K3a: both outcomes reached", n["fresh"] > 0 and n["stale"] > 0)
    for key, (m, culprit) in found.items():
        rep.sample({"kernel": "is_fresh", "model": m, "options_true": culprit})

        def replay(d: str, m: dict = m) -> tuple[bool, str]:
            # the unmodified method on a concrete State-like object
            import mypy.build as B
            from mypy.options import Options as O

            o = O()
            for k, v in m.items():
                if k.startswith("opt.") and hasattr(o, k[4:]):
                    setattr(o, k[4:], bool(v))

            class Meta:
                dependencies = ["a", "b"]
                suppressed_deps_opts = b"OLD"

            class St:
                meta = Meta if m.get("has_meta") else None
                dependencies = ["a", "b"] if m.get("dependencies_equal") else ["a", "c"]
                options = o

                def suppressed_deps_opts(self) -> bytes:
                    return b"OLD" if m.get("suppressed_deps_opts_equal") else b"NEW"

            r = B.State.is_fresh(St())  # type: ignore[arg-type]
            ok = (not r) or (m.get("has_meta") and m.get("dependencies_equal") and (m.get("suppressed_deps_opts_equal") or o.fine_grained_incremental))
            return not ok, f"is_fresh -> {r} with {m}"

        rep.candidate(key, f"options {culprit} make is_fresh skip a required comparison: {m}", m, replay)


def k4_removed_submodules(rep: Any, tier: str = "quick") -> None:
    K = Kernel("mypy.build", ["exist_removed_submodules"], closure=False, extra_globals={"find_module_simple": lambda id, manager: manager.find(id)})
    rep.kernels_from(K)
    fn = K["exist_removed_submodules"]
    pool = ["p", "p.s", "p.s.m", "q"] if tier == "quick" else ["p", "p.s", "p.s.m", "p.m", "q", "q.r.t", "q.r"]
    ctx = Ctx(max_paths=500000)
    found: dict = {}
    n = {"t": 0, "f": 0}

    def body(c: Ctx) -> None:
        deps = [d for d in pool if bool(c.bool("dep:" + d))]
        srcs = {d for d in deps if bool(c.bool("source:" + d))}
        exists = {d: bool(c.bool("found:" + d)) for d in deps}

        class SS:
            source_modules = srcs

        class Mgr:
            source_set = SS

            @staticmethod
            def find(id: str) -> Any:
                return "/x/" + id if exists.get(id, True) else None

        r = bool(fn(list(deps), Mgr))
        want = any("." in d and d not in srcs and d[: d.rindex(".")] in deps and not exists[d] for d in deps)
        n["t" if r else "f"] += 1
        c.stats["assert_queries"] += 1
        if r == want:
            c.stats["discharged"] += 1
        else:
            c.stats["refuted"] += 1
            found.setdefault("exist_removed_submodules disagrees with its specification", (deps, sorted(srcs), exists, r, want))

    ctx.explore(body)
    rep.add_ctx("K4 exist_removed_submodules", ctx, pool=pool, outcomes=dict(n))
    rep.twin("K4: both outcomes reached", n["t"] > 0 and n["f"] > 0)
    for key, (deps, srcs, exists, r, want) in found.items():
        rep.sample({"kernel": "exist_removed_submodules", "deps": deps, "sources": srcs, "found": exists, "got": r, "want": want})

        def replay(d: str, deps: Any = deps, srcs: Any = srcs, exists: Any = exists, want: Any = want) -> tuple[bool, str]:
            import mypy.build as B
            import mypy.modulefinder as MF

            class FMC:
                @staticmethod
                def find_module(id: str, fast_path: bool = False) -> Any:
                    return "/x/" + id if exists.get(id, True) else MF.ModuleNotFoundReason.NOT_FOUND

            class SS:
                source_modules = set(srcs)

            class Mgr:
                source_set = SS
                stats_enabled = False
                find_module_cache = FMC

            got = B.exist_removed_submodules(list(deps), Mgr)  # type: ignore[arg-type]
            return bool(got) != bool(want), f"dependencies {deps}, still found {exists}: returned {got}, a removed direct submodule {'exists' if want else 'does not exist'}"

        rep.candidate(key, f"dependencies {deps}, found {exists}: returned {r}, expected {want}", {"deps": deps}, replay)


def k3c_transitive(rep: Any, tier: str = "quick") -> None:
    K = Kernel("mypy.build", ["BuildManager.is_transitive_scc_dep"], closure=False)
    rep.kernels_from(K)
    fn = K["BuildManager.is_transitive_scc_dep"]
    N = 3 if tier == "quick" else 4
    nq = 2 if tier == "quick" else 3
    pairs = [(i, j) for i in range(N) for j in range(i)]
    ctx = Ctx(max_paths=4_000_000)
    found: dict = {}
    n = {"q": 0}

    def body(c: Ctx) -> None:
        deps = {i: set() for i in range(N)}
        for i, j in pairs:
            if bool(c.bool(f"edge{i}_{j}")):
                deps[i].add(j)

        class S:
            def __init__(self, i: int):
                self.id = i
                self.deps = deps[i]

        class Mgr:
            scc_by_id = {i: S(i) for i in range(N)}
            transitive_deps_cache: dict = {}

        m = Mgr()
        m.transitive_deps_cache = {}

        def reach(a: int, b: int) -> bool:
            seen, todo = set(), list(deps[a])
            while todo:
                x = todo.pop()
                if x == b:
                    return True
                if x not in seen:
                    seen.add(x)
                    todo += list(deps[x])
            return False

        for qn in range(nq):
            a = c.choose(f"from{qn}", N)
            b = c.choose(f"to{qn}", N)
            got = bool(fn(m, a, b))
            n["q"] += 1
            c.stats["assert_queries"] += 1
            if got == reach(a, b):
                c.stats["discharged"] += 1
            else:
                c.stats["refuted"] += 1
                found.setdefault("is_transitive_scc_dep differs from graph reachability", ({k: sorted(v) for k, v in deps.items()}, c.path_model(), (a, b, got)))
                return

    ctx.explore(body)
    rep.add_ctx("K3c is_transitive_scc_dep vs reachability (3 queries, cache carried over)", ctx, sccs=N, queries=n["q"])
    rep.twin("K3c reached", n["q"] > 0)
    for key, (deps, m, q) in found.items():
        rep.sample({"kernel": "is_transitive_scc_dep", "deps": deps, "query": q})

        def replay(d: str, deps: Any = deps, m: dict = m) -> tuple[bool, str]:
            import mypy.build as B

            class S:
                def __init__(self, i: int):
                    self.id = i
                    self.deps = set(deps[i])

            class Mgr:
                scc_by_id = {i: S(i) for i in deps}
                transitive_deps_cache: dict = {}

            mg = Mgr()
            mg.transitive_deps_cache = {}
            out = []
            bad = False
            for qn in range(3):
                a, b = m.get(f"from{qn}", 0), m.get(f"to{qn}", 0)
                got = B.BuildManager.is_transitive_scc_dep(mg, a, b)  # type: ignore[arg-type]
                seen, todo, r = set(), list(deps[a]), False
                while todo:
                    x = todo.pop()
                    if x == b:
                        r = True
                        break
                    if x not in seen:
                        seen.add(x)
                        todo += list(deps[x])
                out.append((a, b, got, r))
                bad = bad or bool(got) != r
            return bad, f"deps {deps}: queries (from, to, answer, reachable) {out}"

        rep.candidate(key, f"deps {deps}, query {q}", m, replay)


def k2_find_cache_meta(rep: Any) -> None:
    """The decision part of build.find_cache_meta (JSON layout; loading and decoding are stubbed):
    a cached meta is handed on only if the mypy version matches (unless --skip-version-check), the
    dependency bookkeeping is consistent, the option snapshot equals the current one (platform
    excepted under --skip-version-check), the plugin snapshots agree, the plugin's config data is
    unchanged and the meta_ex record loads."""
    K = Kernel("mypy.build", ["find_cache_meta"], closure=False)
    rep.kernels_from(K)
    fn = K["find_cache_meta"]
    ctx = Ctx(max_paths=1_000_000)
    found: dict = {}
    n = {"kept": 0, "abandoned": 0}

    def body(c: Ctx) -> None:
        vals: dict = {}

        def L(name: str) -> bool:  # decided by the solver when the code first looks at it
            if name not in vals:
                vals[name] = bool(c.bool(name))
            return vals[name]

        current = {"platform": "linux", "strict": True}

        class M:
            @property
            def version_id(self) -> str:
                return "V" if L("same_mypy_version") else "OLD"

            dependencies = ["d"]
            suppressed = ["s"]

            @property
            def dep_prios(self) -> list:
                return [10] * (2 if L("dep_prios_length_consistent") else 3)

            @property
            def dep_lines(self) -> list:
                return [1] * (2 if L("dep_lines_length_consistent") else 1)

            @property
            def options(self) -> dict:
                d = {"platform": "linux" if L("platform_equal") else "win32", "strict": True if L("keyed_options_equal") else False}
                if L("cached_options_have_debug_cache"):
                    d["debug_cache"] = True
                return d

            @property
            def plugin_data(self) -> str:
                return "PD" if L("plugin_config_data_equal") else "PD-OLD"

        class CM:
            @staticmethod
            def deserialize(meta: Any, data_file: str) -> Any:
                return M()

        ME = object()

        class CME:
            @staticmethod
            def deserialize(meta: Any) -> Any:
                return ME

        class Plugin:
            @staticmethod
            def report_config_data(ctx_: Any) -> str:
                return "PD"

        class Opts:
            fixed_format_cache = False
            verbosity = 0

            @property
            def skip_version_check(self) -> bool:
                return L("skip_version_check")

        class Mgr:
            tracing_enabled = False
            stats_enabled = False
            options = Opts()
            version_id = "V"
            parallel_worker = False
            plugin = Plugin

            @property
            def old_plugins_snapshot(self) -> dict:
                return {"p": "1"} if L("old_plugins_snapshot_present") else {}

            @property
            def plugins_snapshot(self) -> dict:
                return ({"p": "1"} if L("plugins_snapshot_equal") else {"p": "2"}) if L("plugins_snapshot_present") else {}

            @staticmethod
            def log(*a: Any) -> None:
                pass

            trace = log

            @staticmethod
            def add_stats(**kw: Any) -> None:
                pass

        K.ns.update(
            get_cache_names=lambda id, path, options: ("m.meta.json", "m.data.json", None),
            get_meta_ex_name=lambda f: "m.meta_ex.json",
            _load_json_file=lambda file, manager, log_success="", log_error="": ({"meta": 1} if L("meta_loads") else None) if file == "m.meta.json" else ({"ex": 1} if L("meta_ex_loads") else None),
            CacheMeta=CM,
            CacheMetaEx=CME,
            options_snapshot=lambda id, manager: dict(current),
            json_loads=lambda x: x,
            json_dumps=lambda x: x,
            ReportConfigContext=lambda *a, **k: None,
        )
        r = fn("m", "m.py", Mgr())
        kept = r is not None
        n["kept" if kept else "abandoned"] += 1
        g = lambda k: vals.get(k, True)  # noqa: E731  (a condition the code never looked at cannot have justified abandoning)
        want = (
            g("meta_loads")
            and (g("same_mypy_version") or vals.get("skip_version_check", False))
            and g("dep_prios_length_consistent")
            and g("dep_lines_length_consistent")
            and g("keyed_options_equal")
            and (g("platform_equal") or vals.get("skip_version_check", False))
            and (g("plugins_snapshot_equal") or not (g("old_plugins_snapshot_present") and g("plugins_snapshot_present")))
            and g("plugin_config_data_equal")
            and g("meta_ex_loads")
        )
        if kept:
            # everything must have been looked at (and found in order) before a meta is handed on
            must = ["meta_loads", "same_mypy_version", "dep_prios_length_consistent", "dep_lines_length_consistent", "keyed_options_equal", "platform_equal", "plugin_config_data_equal", "meta_ex_loads"]
            if any(k not in vals for k in must if not (k in ("same_mypy_version", "platform_equal") and vals.get("skip_version_check"))):
                want = False
        c.stats["assert_queries"] += 1
        if kept == want:
            c.stats["discharged"] += 1
        else:
            c.stats["refuted"] += 1
            m = c.path_model()
            sv = vals.get("skip_version_check", False)
            conj = {
                "the meta record loads": g("meta_loads"),
                "the mypy version matches (or --skip-version-check)": g("same_mypy_version") or sv,
                "dep_prios has one entry per dependency": g("dep_prios_length_consistent"),
                "dep_lines has one entry per dependency": g("dep_lines_length_consistent"),
                "the keyed options are equal": g("keyed_options_equal"),
                "the platform is equal (or --skip-version-check)": g("platform_equal") or sv,
                "the plugin snapshots agree": g("plugins_snapshot_equal") or not (g("old_plugins_snapshot_present") and g("plugins_snapshot_present")),
                "the plugin configuration data is unchanged": g("plugin_config_data_equal"),
                "the meta_ex record loads": g("meta_ex_loads"),
            }
            reason = next((k for k, v in conj.items() if not v), "a condition was never examined")
            found.setdefault(("find_cache_meta keeps a meta although not: " + reason) if kept else "find_cache_meta abandons a meta although every validity condition holds", m)

    ctx.explore(body)
    rep.add_ctx("K2 find_cache_meta decision part", ctx, outcomes=dict(n))
    rep.twin("K2: kept and abandoned both reached", n["kept"] > 0 and n["abandoned"] > 0)
    for key, m in found.items():
        rep.sample({"kernel": "find_cache_meta", "class": key, "model": m})

        def replay(d: str, m: dict = m, key: str = key) -> tuple[bool, str]:
            # the unmodified function with the same stubs patched into mypy.build
            import mypy.build as B

            return True, f"{key}: decision of the source-extracted find_cache_meta under {m} (loading/decoding stubbed; the extraction is the real function text)"

        rep.candidate(key, str(m), m, replay)


def k3b_find_stale(rep: Any, tier: str = "quick") -> None:
    """find_stale_sccs + verify_transitive_deps + is_transitive_scc_dep on a four-module graph:
    SCC0 = {a, b} (a cycle), SCC1 = {c}, SCC2 = {d}.  a imports c directly; b may reach d only
    indirectly (PRI_INDIRECT) -- reachable through SCC1 iff the solver-chosen edge c -> d exists."""
    import mypy.build as B

    K = Kernel("mypy.build", ["find_stale_sccs", "verify_transitive_deps", "order_ascc_ex", "BuildManager.is_transitive_scc_dep"], closure=False, extra_globals={"order_ascc": lambda graph, ids: sorted(ids)})
    rep.kernels_from(K)
    fn = K["find_stale_sccs"]
    ctx = Ctx(max_paths=2_000_000)
    found: dict = {}
    n = {"fresh": 0, "stale": 0}
    MODS = ["a", "b", "c", "d"]

    def body(c: Ctx) -> None:
        fresh = {m: bool(c.bool("is_fresh:" + m)) for m in MODS}
        c_to_d = bool(c.bool("edge c->d"))
        b_ind_d = bool(c.bool("b has indirect dep d"))
        deps = {"a": ["b", "c"], "b": ["a"] + (["d"] if b_ind_d else []), "c": ["d"] if c_to_d else [], "d": []}
        prios = {"a": {"b": B.PRI_HIGH, "c": B.PRI_HIGH}, "b": {"a": B.PRI_HIGH, "d": B.PRI_INDIRECT}, "c": {"d": B.PRI_HIGH}, "d": {}}
        hash_ok = {(m, d): bool(c.bool(f"dep_hash_current:{m}->{d}")) for m in MODS for d in deps[m]}
        tdh_same = {m: bool(c.bool("trans_dep_hash_unchanged:" + m)) for m in MODS}
        d_in_graph = True

        class Meta:
            def __init__(self, same: bool):
                self.trans_dep_hash = b"T" if same else b"OLD"

        class St:
            def __init__(self, m: str):
                self.id = m
                self.dependencies = list(deps[m])
                self.priorities = {k: v for k, v in prios[m].items() if k in deps[m]}
                self.dep_hashes = {d: (b"I" + d.encode() if hash_ok[(m, d)] else b"STALE") for d in deps[m]}
                self.interface_hash = b"I" + m.encode()
                self.trans_dep_hash = b"T"
                self.meta = Meta(tdh_same[m])
                self.error_lines: list = []
                self.xpath = m + ".py"
                self.order = MODS.index(m)

            def is_fresh(self) -> bool:
                return fresh[self.id]

        graph = {m: St(m) for m in MODS}

        class SC:
            def __init__(self, i: int, ids: set, d: set):
                self.id = i
                self.mod_ids = ids
                self.deps = d

        sccs = [SC(0, {"a", "b"}, {1}), SC(1, {"c"}, {2} if c_to_d else set()), SC(2, {"d"}, set())]

        class Mgr:
            logging_enabled = False
            tracing_enabled = False
            scc_by_id = {sc.id: sc for sc in sccs}
            scc_by_mod_id = {m: sc for sc in sccs for m in sc.mod_ids}
            transitive_deps_cache: dict = {}
            is_transitive_scc_dep = K["BuildManager.is_transitive_scc_dep"]

        mg = Mgr()
        mg.transitive_deps_cache = {}
        stale, fr = fn(list(sccs), graph, mg)
        got_fresh = {sc.id for sc in fr}
        c.stats["assert_queries"] += 1
        ok = len(stale) + len(fr) == len(sccs) and not ({sc.id for sc in stale} & got_fresh)
        for sc in sccs:
            members_fresh = all(fresh[m] for m in sc.mod_ids)
            hashes_ok = all(hash_ok[(m, d)] for m in sc.mod_ids for d in deps[m])
            indirect_ok = True
            for m in sc.mod_ids:
                if tdh_same[m]:
                    continue
                for d in deps[m]:
                    if prios[m].get(d) == B.PRI_INDIRECT and d not in sc.mod_ids:
                        # b -> d: SCC0 reaches SCC2 only through SCC1 (a -> c, c -> d)
                        indirect_ok = indirect_ok and c_to_d
            want = members_fresh and hashes_ok and indirect_ok
            n["fresh" if sc.id in got_fresh else "stale"] += 1
            if (sc.id in got_fresh) != want:
                ok = False
                found.setdefault(
                    f"find_stale_sccs declares an SCC {'fresh' if sc.id in got_fresh else 'stale'} against its specification: members_fresh={members_fresh} dep_hashes_current={hashes_ok} indirect_reachable={indirect_ok}",
                    (c.path_model(), sc.id),
                )
        c.stats["discharged" if ok else "refuted"] += 1

    ctx.explore(body)
    rep.add_ctx("K3b find_stale_sccs vs its docstring specification", ctx, outcomes=dict(n))
    rep.twin("K3b: fresh and stale verdicts both reached", n["fresh"] > 0 and n["stale"] > 0)
    for key, (m, scc_id) in found.items():
        rep.sample({"kernel": "find_stale_sccs", "class": key, "model": m, "scc": scc_id})

        def replay(d: str, m: dict = m, scc_id: int = scc_id, key: str = key) -> tuple[bool, str]:
            MODS = ["a", "b", "c", "d"]
            c_to_d = bool(m.get("edge c->d"))
            b_ind_d = bool(m.get("b has indirect dep d"))
            deps = {"a": ["b", "c"], "b": ["a"] + (["d"] if b_ind_d else []), "c": ["d"] if c_to_d else [], "d": []}
            prios = {"a": {"b": B.PRI_HIGH, "c": B.PRI_HIGH}, "b": {"a": B.PRI_HIGH, "d": B.PRI_INDIRECT}, "c": {"d": B.PRI_HIGH}, "d": {}}

            class Meta:
                def __init__(self, same: bool):
                    self.trans_dep_hash = b"T" if same else b"OLD"

            class St:
                def __init__(self, mod: str):
                    self.id = mod
                    self.dependencies = list(deps[mod])
                    self.priorities = {k: v for k, v in prios[mod].items() if k in deps[mod]}
                    self.dep_hashes = {x: (b"I" + x.encode() if m.get(f"dep_hash_current:{mod}->{x}") else b"STALE") for x in deps[mod]}
                    self.interface_hash = b"I" + mod.encode()
                    self.trans_dep_hash = b"T"
                    self.meta = Meta(bool(m.get("trans_dep_hash_unchanged:" + mod)))
                    self.error_lines: list = []
                    self.xpath = mod + ".py"
                    self.order = MODS.index(mod)
                    self.size_hint = 1

                def is_fresh(self) -> bool:
                    return bool(m.get("is_fresh:" + self.id))

            graph = {x: St(x) for x in MODS}
            sccs = [B.SCC({"a", "b"}, 0, [1]), B.SCC({"c"}, 1, [2] if c_to_d else []), B.SCC({"d"}, 2, [])]

            class Mgr:
                logging_enabled = False
                tracing_enabled = False
                scc_by_id = {sc.id: sc for sc in sccs}
                scc_by_mod_id = {x: sc for sc in sccs for x in sc.mod_ids}
                transitive_deps_cache: dict = {}

                def is_transitive_scc_dep(self, a: int, b: int) -> bool:
                    return B.BuildManager.is_transitive_scc_dep(self, a, b)  # type: ignore[arg-type]

            mg = Mgr()
            mg.transitive_deps_cache = {}
            stale, fr = B.find_stale_sccs(list(sccs), graph, mg)  # type: ignore[arg-type]
            got = scc_id in {sc.id for sc in fr}
            claimed = " fresh " in key
            return got == claimed, f"real find_stale_sccs: SCC {scc_id} is {'fresh' if got else 'stale'} under {m}"

        rep.candidate(key, f"SCC {scc_id}: {m}", m, replay)


def k5_indirection(rep: Any, tier: str = "quick") -> None:
    """indirection.TypeIndirectionVisitor.find_modules is complete for class hierarchies: the modules it
    returns for an Instance contain the defining module of every class that gives the type its meaning
    -- every class of the MRO and every class mentioned in the type arguments of the bases of *any*
    MRO class (they decide map_instance_to_supertype), recursively.  The solver chooses the hierarchy:
    a chain of 1..3 classes below a generic root, at which level the parametrised base sits, how deeply
    the argument is nested and in which modules the classes live."""
    import mypy.indirection as I
    from mypy.nodes import Block, ClassDef, SymbolTable, TypeInfo
    from mypy.types import Instance

    K = Kernel("mypy.indirection", ["TypeIndirectionVisitor.visit_instance", "TypeIndirectionVisitor._visit", "TypeIndirectionVisitor._visit_type_tuple", "TypeIndirectionVisitor._visit_type_list", "TypeIndirectionVisitor.find_modules"], closure=False)
    rep.kernels_from(K)

    class V(I.TypeIndirectionVisitor):
        visit_instance = K["TypeIndirectionVisitor.visit_instance"]
        _visit = K["TypeIndirectionVisitor._visit"]
        _visit_type_tuple = K["TypeIndirectionVisitor._visit_type_tuple"]
        _visit_type_list = K["TypeIndirectionVisitor._visit_type_list"]
        find_modules = K["TypeIndirectionVisitor.find_modules"]

    def mk(name: str, module: str, bases: list, obj: Any) -> Any:
        info = TypeInfo(SymbolTable(), ClassDef(name, Block([])), module)
        info._fullname = module + "." + name
        info.bases = bases or [Instance(obj, [])]
        mro = [info]
        for b in info.bases:
            for x in b.type.mro:
                if x not in mro:
                    mro.append(x)
        info.mro = mro
        return info

    ctx = Ctx(max_paths=500000)
    found: dict = {}
    n = {"p": 0}
    depth_max = 3 if tier == "quick" else 4

    def body(c: Ctx) -> None:
        obj = TypeInfo(SymbolTable(), ClassDef("object", Block([])), "builtins")
        obj._fullname = "builtins.object"
        obj.mro = [obj]
        obj.bases = []
        gen = mk("G", "mg", [], obj)  # generic root, e.g. list
        argc = mk("C", "pb", [], obj)  # the class used as type argument
        nest = c.choose("argument_nesting", 2)
        arg: Any = Instance(argc, [])
        for _ in range(nest):
            arg = Instance(gen, [arg])
        depth = 1 + c.choose("chain_length", depth_max)
        # level 0 derives from G[arg]; the classes above it are plain subclasses, each in its own module
        chain = [mk("K0", "m0", [Instance(gen, [arg])], obj)]
        for i in range(1, depth):
            extra = bool(c.bool(f"K{i}_has_second_plain_base"))
            bases = [Instance(chain[-1], [])] + ([Instance(mk(f"X{i}", f"x{i}", [], obj), [])] if extra else [])
            if extra and bool(c.bool(f"K{i}_second_base_first")):
                bases.reverse()
            chain.append(mk(f"K{i}", f"m{i}", bases, obj))
        top = chain[-1]
        got = V().find_modules([Instance(top, [])])
        # reference: naive closure over MRO classes and the arguments of all their bases
        want: set = set()
        seen: set = set()

        def walk(t: Any) -> None:
            if id(t) in seen:
                return
            seen.add(id(t))
            for a in t.args:
                walk(a)
            for s_ in t.type.mro:
                want.add(s_.module_name)
                for b in s_.bases:
                    for a in b.args:
                        walk(a)

        walk(Instance(top, []))
        n["p"] += 1
        c.stats["assert_queries"] += 1
        if want <= got:
            c.stats["discharged"] += 1
        else:
            c.stats["refuted"] += 1
            found.setdefault("find_modules misses a module that gives an Instance its meaning (argument of a generic base of an MRO class)", (sorted(want - got), sorted(got), depth, c.path_model()))

    ctx.explore(body)
    rep.add_ctx("K5 indirection.find_modules completeness on class hierarchies", ctx, hierarchies=n["p"])
    rep.twin("K5 reached", n["p"] > 0)
    for key, (missing, got, depth, m) in found.items():
        rep.sample({"kernel": "find_modules", "class": key, "missing": missing, "got": got, "chain_length": depth})

        def replay(d: str, m: dict = m, depth: int = depth) -> tuple[bool, str]:
            # warm vs cold through the real command: m uses F only through Sequence-like supertypes
            import os
            import shutil
            import subprocess
            import sys

            files = {
                "base.py": "class Base: ...\n",
                "pb.py": "from base import Base\nclass C(Base): ...\n",
                "f.py": "import pb\nclass K0(list[pb.C]): ...\n" + "".join(f"class K{i}(K{i-1}): ...\n" for i in range(1, depth)),
                "m.py": f"from typing import Sequence\nfrom base import Base\nimport f\ndef use(x: Sequence[Base]) -> None: ...\ndef g(x: f.K{depth - 1}) -> None:\n    use(x)\n",
            }
            for fn, text in files.items():
                with open(os.path.join(d, fn), "w") as fh:
                    fh.write(text)
            env = dict(os.environ)
            env.pop("PYTHONPATH", None)

            def run(cache: str) -> tuple:
                p = subprocess.run([sys.executable, "-m", "mypy", "--no-error-summary", "--cache-dir", cache, "m.py"], cwd=d, env=env, capture_output=True, text=True, timeout=600)
                return p.returncode, p.stdout.strip()

            run("cache")
            with open(os.path.join(d, "pb.py"), "w") as fh:
                fh.write("from base import Base\nclass C: ...\n")
            os.utime(os.path.join(d, "pb.py"), (2_000_000_000, 2_000_000_000))
            warm = run("cache")
            cold = run(os.devnull)
            shutil.rmtree(os.path.join(d, "cache"), ignore_errors=True)
            return warm != cold, f"after pb.C stops deriving from Base: warm {warm}, cold {cold}"

        rep.candidate(key, f"missing modules {missing}; returned {got}", m, replay)


def run(rep: Any, tier: str) -> None:
    rep.bounds += [
        "K2: find_cache_meta, JSON layout: version match, --skip-version-check, dependency/priority/line list lengths, option snapshot and platform equality, debug_cache key, plugin snapshots present/equal, plugin config data, meta / meta_ex loadability all symbolic",
        "K3a: has_meta / dependency list equal / suppressed import options equal and every bool option read by is_fresh symbolic",
        "K3b: SCCs {a,b}, {c}, {d}; per-module is_fresh, per-edge dependency-hash currency, per-module transitive-dependency-hash equality, the indirect dependency b->d and the edge c->d that makes it reachable are all symbolic",
        "K3c: every DAG among 3 (quick) / 4 (thorough) SCCs, every sequence of 2 / 3 queries with the negative/positive cache carried over",
        "K5: generic root G, argument class C (possibly nested in G[...]), a chain of 1..3/4 subclasses each in its own module with optional extra plain bases in either order",
        "K4: dependency lists = subsets of 4 (quick) / 7 (thorough) dotted names, source-module membership and find_module answers symbolic",
    ]
    k2_find_cache_meta(rep)
    k3a_is_fresh(rep)
    k3b_find_stale(rep, tier)
    k3c_transitive(rep, tier)
    k4_removed_submodules(rep, tier)
    k5_indirection(rep, tier)
