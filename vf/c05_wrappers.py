"""C05 K-slots: the C slot wrappers mypyc emits around native dunder methods (tp_hash, sq_length,
nb_bool, sq_contains).

The wrapper text is produced by the real mypyc.codegen.emitwrapper generators for the ClassIR of a
small class (built by the real pipeline), compiled with clang to LLVM IR together with CPy.h and
translated to z3 bit-vectors.  The native method, CPyTagged_AsSsize_t, PyErr_Occurred and the
dec-ref helper are uninterpreted calls with their contracts.  Obligations = what CPython does
with the same method in interpreted code (Objects/typeobject.c slot_tp_hash, slot_sq_length,
slot_nb_bool, slot_sq_contains).
"""

from __future__ import annotations

import shutil
import time
from typing import Any

import z3

from vf import llvm2smt as L
from vf import mypycir, symx
from vf.report import scratch

SOURCE = '''
class A:
    def __init__(self, x: int) -> None:
        self.x = x
    def __hash__(self) -> int:
        return self.x
    def __len__(self) -> int:
        return self.x
    def __bool__(self) -> bool:
        return self.x > 0
    def __contains__(self, o: object) -> bool:
        return self.x > 0
'''


def wrapper_texts() -> tuple[str, dict]:
    from mypyc.codegen import emitwrapper as EW
    from mypyc.codegen.emit import Emitter, EmitterContext
    from mypyc.namegen import NameGenerator

    mod = mypycir.build_module_ir(SOURCE)
    cl = [c for c in mod.classes if c.name == "A"][0]
    ctx = EmitterContext(NameGenerator([["__main__"]]), False)
    names: dict = {}
    text = '#include <Python.h>\n#include "CPy.h"\n'
    text += "extern CPyTagged CPyDef_A_____hash__(PyObject*);\nextern CPyTagged CPyDef_A_____len__(PyObject*);\nextern char CPyDef_A_____bool__(PyObject*);\nextern char CPyDef_A_____contains__(PyObject*, PyObject*);\n"
    for meth, gen in (("__hash__", EW.generate_hash_wrapper), ("__len__", EW.generate_len_wrapper), ("__bool__", EW.generate_bool_wrapper), ("__contains__", EW.generate_contains_wrapper)):
        em = Emitter(ctx)
        names[meth] = gen(cl, cl.get_method(meth), em)
        text += "".join(em.fragments).replace("static ", "", 1) + "\n"
    return text, names


def run(rep: Any, tier: str) -> None:
    import mypyc.codegen.emitwrapper as EWM

    rep.kernel("mypyc.codegen.emitwrapper", symx.source_hash(EWM.__file__))
    text, names = wrapper_texts()
    work = scratch("c05w-")
    try:
        ir = L.compile_ir(text, work, opt="-O1")
    finally:
        shutil.rmtree(work, ignore_errors=True)
    funcs = L.parse_module(ir)
    for n in names.values():
        rep.kernel("emitted C:" + n, L.func_hash(funcs[n]))
    stats = {"obligations": 0, "discharged": 0, "solver_s": 0.0}
    failures: list = []

    def prove(label: str, hyps: list, goal: Any, vars_: dict, key: str) -> None:
        s = z3.Solver()
        s.set("timeout", 60000)
        for h in hyps:
            s.add(h)
        s.add(z3.Not(goal))
        t = time.time()
        r = str(s.check())
        stats["solver_s"] += time.time() - t
        stats["obligations"] += 1
        if r == "unsat":
            stats["discharged"] += 1
        elif r == "sat":
            m = s.model()
            failures.append((key, label, {k: symx.z3_to_py(m.eval(v, model_completion=True)) for k, v in vars_.items()}))
        else:
            rep.error(f"inconclusive: slot wrapper obligation {label}")

    def execute(name: str, nargs: int) -> tuple:
        """Runs the wrapper with an explicit model of CPython's error indicator: a z3 Bool that the
        stubs update under the path condition of each call (native call: set iff it returns its error
        value; CPyTagged_AsSsize_t / PyLong_AsSsize_t: may set it for a boxed int only; PyErr_Clear /
        PyErr_SetString reset / set it; PyErr_Occurred reads it)."""
        st: dict = {"err": z3.BoolVal(False), "raised_by_wrapper": z3.BoolVal(False), "native": None, "as": None, "as_err": None, "fallback": None}

        def native(width: int, errval: int):
            def stub(ex: Any, args: list, pc: Any, res: Any, mem: Any) -> Any:
                r = z3.BitVec("native_result", width)
                st["native"] = r
                st["err"] = z3.If(pc, r == errval, st["err"])
                res.events.append(L.Event("call", pc, "native", args, r))
                return r

            return stub

        def as_ssize(ex: Any, args: list, pc: Any, res: Any, mem: Any) -> Any:
            r = z3.BitVec("AsSsize_t_result", 64)
            e = z3.Bool("AsSsize_t_sets_OverflowError")
            st["as"], st["as_err"] = r, e
            x = args[0]
            # contract: a short tagged int converts exactly and cannot fail; a failure returns -1
            res.axioms.append(z3.Implies((x & 1) == 0, z3.And(r == (x >> 1), z3.Not(e))))
            res.axioms.append(z3.Implies(e, r == -1))
            st["err"] = z3.If(pc, z3.Or(st["err"], e), st["err"])
            return r

        def occurred(ex: Any, args: list, pc: Any, res: Any, mem: Any) -> Any:
            return z3.If(st["err"], z3.BitVecVal(0x7000, 64), z3.BitVecVal(0, 64))

        def clear(ex: Any, args: list, pc: Any, res: Any, mem: Any) -> Any:
            st["err"] = z3.If(pc, z3.BoolVal(False), st["err"])
            return None

        def setstring(ex: Any, args: list, pc: Any, res: Any, mem: Any) -> Any:
            st["err"] = z3.If(pc, z3.BoolVal(True), st["err"])
            st["raised_by_wrapper"] = z3.Or(st["raised_by_wrapper"], pc)
            return None

        def indirect(ex: Any, args: list, pc: Any, res: Any, mem: Any) -> Any:
            # the only function pointer the wrappers call is PyLong_Type.tp_hash: never -1, never fails
            r = z3.BitVec("long_hash_result", 64)
            st["fallback"] = pc
            res.axioms.append(r != -1)
            return r

        noop = lambda ex, args, pc, res, mem: None  # noqa: E731
        stubs = {
            "CPyDef_A_____hash__": native(64, 1),
            "CPyDef_A_____len__": native(64, 1),
            "CPyDef_A_____bool__": native(8, 2),
            "CPyDef_A_____contains__": native(8, 2),
            "CPyTagged_AsSsize_t": as_ssize,
            "PyLong_AsSsize_t": as_ssize,
            "PyErr_Occurred": occurred,
            "PyErr_Clear": clear,
            "PyErr_SetString": setstring,
            "CPyTagged_DecRef": noop,
            "__indirect__": indirect,
        }
        ex = L.Executor(funcs, stubs, arith="bv")
        res = ex.run(name, [z3.BitVec(f"arg{i}", 64) for i in range(nargs)])
        return res, st

    twins = {}
    # ---- tp_hash / sq_length: native returns a tagged int
    for meth, slot in (("__hash__", "tp_hash"), ("__len__", "sq_length")):
        res, st = execute(names[meth], 1)
        R = res.ret
        n, asv, as_err = st["native"], st["as"], st["as_err"]
        if n is None or asv is None:
            rep.error(f"slot wrapper {meth}: expected helper calls not found in the IR")
            continue
        hyps = list(res.axioms)
        short = (n & 1) == 0
        v = n >> 1  # arithmetic shift: value of a short tagged int
        vs = {"native_result": n, "AsSsize_t_result": asv, "AsSsize_t_sets_OverflowError": as_err}
        # the slot protocol: -1 is returned exactly when an exception is set
        prove(f"{slot}: returns -1 exactly when it leaves an exception set", hyps, (R == -1) == st["err"], vs, f"{slot} wrapper: -1 without an exception set, or an exception set without -1")
        prove(f"{slot}: the native error is passed on", hyps + [n == 1], z3.And(R == -1, st["err"]), vs, f"{slot} wrapper: native error not reported")
        if meth == "__hash__":
            prove("tp_hash: a short hash value v comes back as v, and as -2 for v == -1", hyps + [short], R == z3.If(v == -1, z3.BitVecVal(-2, 64), v), vs, "tp_hash wrapper: short hash value mangled")
            # CPython (slot_tp_hash): a hash that does not fit Py_ssize_t is reduced with int's own hash, never an error
            prove("tp_hash: a successfully computed hash never makes hash() fail (CPython reduces big ints)", hyps + [n != 1], z3.Not(st["err"]), vs, "tp_hash wrapper: hash() fails for a hash value that does not fit Py_ssize_t (CPython reduces it)")
        else:
            prove("sq_length: a short non-negative length comes back unchanged", hyps + [short, v >= 0], z3.And(R == v, z3.Not(st["err"])), vs, "sq_length wrapper: short length mangled")
            # CPython (slot_sq_length): a negative result raises ValueError
            prove("sq_length: a negative __len__ result makes the slot fail with an exception set (ValueError)", hyps + [short, v < 0], z3.And(R == -1, st["err"]), vs, "sq_length wrapper: negative __len__ result returned without an exception (SystemError instead of ValueError)")
        twins[slot] = True
    # ---- nb_bool / sq_contains: native returns 0 / 1 / 2 (error)
    for meth, slot, nargs in (("__bool__", "nb_bool", 1), ("__contains__", "sq_contains", 2)):
        res, st = execute(names[meth], nargs)
        R = res.ret
        n = st["native"]
        vs = {"native_result": n}
        R32 = R if R.size() == 32 else z3.Extract(31, 0, R)
        prove(f"{slot}: the native error value 2 becomes -1", [n == 2], z3.And(R32 == -1, st["err"]), vs, f"{slot} wrapper: native error not reported")
        prove(f"{slot}: 0 / 1 are passed on", [z3.ULE(n, 1)], z3.And(R32 == z3.ZeroExt(24, n), z3.Not(st["err"])), vs, f"{slot} wrapper: truth value mangled")
        twins[slot] = True

    rep.section("K-slots emitted slot wrappers vs CPython's slot protocol", obligations=stats["obligations"], discharged=stats["discharged"], solver_s=round(stats["solver_s"], 2), wrappers=sorted(names.values()))
    rep.add_counts(obligations=stats["obligations"], discharged=stats["discharged"], queries=stats["obligations"], solver_s=stats["solver_s"], paths=stats["obligations"])
    rep.twin("K-slots: four wrappers analysed", len(twins) == 4)
    rep.bounds.append("K-slots: wrappers for __hash__/__len__ (int result) and __bool__/__contains__ (bool result) of one class; every 64-bit native result, helper result and error state")
    rep.assumptions.append("K-slots: CPyTagged_AsSsize_t of a short tagged int is its value and sets no error; a successful native call leaves no error pending; reference counting of the result is C06's subject")
    seen: set = set()
    for key, label, model in failures:
        if key in seen:
            continue
        seen.add(key)
        rep.sample({"kernel": "slot wrappers", "class": key, "obligation": label, "model": model})
        rep.candidate(key, f"{label}: {model}", model, replay_slot(key))


REPLAY_SRC = SOURCE + "\ndef mk(x: int) -> A:\n    return A(x)\n"


def replay_slot(key: str):
    def replay(d: str) -> tuple[bool, str]:
        import vf.mypyc_replay as R

        if "tp_hash" in key and "does not fit" in key:
            exprs = ["hash(A(2**70))", "hash(A(-2**70))"]
        elif "tp_hash" in key:
            exprs = ["hash(A(-1))", "hash(A(5))", "hash(A(-2))"]
        elif "sq_length" in key and "negative" in key:
            exprs = ["len(A(-1))", "len(A(-5))"]
        elif "sq_length" in key:
            exprs = ["len(A(0))", "len(A(7))"]
        elif "nb_bool" in key:
            exprs = ["bool(A(0))", "bool(A(1))"]
        else:
            exprs = ["3 in A(0)", "3 in A(1)"]
        old = R.DRIVER
        R.DRIVER = old.replace("a, b = run(getattr(C, fn)), run(ns[fn])", "a, b = run(lambda *xs: eval(fn, {'A': C.A})), run(lambda *xs: eval(fn, {'A': ns['A']}))")
        try:
            bad, log = R.build_and_compare(REPLAY_SRC, [(e, []) for e in exprs], d)
        finally:
            R.DRIVER = old
        return bad, log

    return replay
