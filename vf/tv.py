"""Translation validation of mypyc-compiled functions against Python semantics (C05, C15/K2).

For each source function the final IR (real pipeline) is executed by vf/irsem.py on symbolic
argument words and, on the same path, the *Python source itself* is executed on symx proxies
holding the values those words denote (pysem = Python's own int semantics incl. the exceptions
it raises).  One SMT obligation per path: same value (canonical tagged word / exact fixed-width
value) or same exception type.
"""

from __future__ import annotations

import random
from typing import Any

import z3

from vf import irsem, mypycir, symx
from vf.irsem import IRUnsupportedOp, Machine
from vf.symx import Ctx, PathAbort, SymBool, SymInt, Unsupported

FIXED = {"i64": (64, True), "i32": (32, True), "i16": (16, True), "u8": (8, False)}


def trange(t: str) -> tuple:
    bits, signed = FIXED[t]
    return (-(2 ** (bits - 1)), 2 ** (bits - 1) - 1) if signed else (0, 2**bits - 1)


class Prog:
    def __init__(self, name: str, src: str, params: list[tuple[str, str]], ret: str, tag: str = ""):
        self.name = name
        self.src = src
        self.params = params  # (name, type) with type in int/bool/i64/i32/i16/u8
        self.ret = ret
        self.tag = tag


def s_range(*args: Any) -> Any:
    """range() whose bounds may be symbolic: the trip count is decided by forking (limit 8)"""
    if all(isinstance(a, int) and not isinstance(a, bool) for a in args):
        yield from range(*args)
        return
    start, stop = (0, args[0]) if len(args) == 1 else (args[0], args[1])
    if len(args) == 3 or symx.is_sym(start):
        raise Unsupported("range with symbolic start/step")
    i = start
    n = 0
    while bool(i < stop):
        if n >= 8:
            raise PathAbort()
        yield i
        i += 1
        n += 1


def py_namespace() -> dict:
    ident = lambda x=0: x  # noqa: E731
    return {"i64": ident, "i32": ident, "i16": ident, "u8": ident, "__builtins__": {"bool": symx.s_bool, "int": symx.s_int, "abs": abs, "range": s_range, "True": True, "False": False, "ZeroDivisionError": ZeroDivisionError, "ValueError": ValueError, "OverflowError": OverflowError}}


def _record(c: Ctx, n_cex: int, found: list, p: "Prog", what: str) -> None:
    """A failed obligation is a finding only if the solver produced a counterexample; `unknown` is
    counted by Ctx.check as inconclusive and leaves no counterexample."""
    if len(c.cex) > n_cex:
        found.append((p, c.cex[-1].model, what))


class TracedList:
    """Spec-side stand-in for a list[int] argument of symbolic length: item stores are observable events."""

    def __init__(self, n: Any, events: list):
        self.n = n
        self.events = events

    def __setitem__(self, idx: Any, v: Any) -> None:
        i = idx if symx.is_sym(idx) else SymInt(z3.IntVal(int(idx)))
        if bool(symx.SymBool(z3.Or(i.t < -self.n.t, i.t >= self.n.t))):
            raise IndexError("list assignment index out of range")
        self.events.append((z3.If(i.t < 0, i.t + self.n.t, i.t), symx.to_z3int(v)))


def check_program(p: Prog, fn_ir: Any, found: list, stats: dict, timeout_ms: int = 30000, max_paths: int = 3000) -> Ctx:
    ns = py_namespace()
    src = "\n".join(l for l in p.src.splitlines() if not l.startswith(("from mypy_extensions", "from typing")))
    exec(compile(src, "<spec>", "exec"), ns)
    pyfn = ns[p.name]
    ctx = Ctx(timeout_ms=timeout_ms, max_paths=max_paths)

    def body(c: Ctx) -> None:
        m = Machine(c)
        n_cex = len(c.cex)
        words = []
        vals = []
        fits_all = []
        for nm, ty in p.params:
            if ty == "int":
                w = z3.Int("w_" + nm)
                c.vars["w_" + nm] = w
                c.solver.add(m.invariant(w))
                v = z3.Int("v_" + nm)
                c.vars["v_" + nm] = v
                c.solver.add(v == m.val(w))
                words.append(w)
                vals.append(SymInt(v))
            elif ty == "list":
                words.append(z3.Int("w_" + nm))  # an opaque object word
                ln = c.int("len_" + nm, 0, 1 << 40)
                c.list_len = ln.t  # type: ignore[attr-defined]
                c.ir_events = []  # type: ignore[attr-defined]
                c.spec_events = []  # type: ignore[attr-defined]
                vals.append(TracedList(ln, c.spec_events))  # type: ignore[attr-defined]
            elif ty == "bool":
                bvar = c.bool("v_" + nm)
                words.append(z3.If(bvar.t, z3.IntVal(1), z3.IntVal(0)))
                vals.append(bvar)
            else:
                lo, hi = trange(ty)
                v = c.int("v_" + nm, lo, hi)
                words.append(v.t)
                vals.append(v)
        # --- compiled
        try:
            comp = irsem.run_function(c, fn_ir, words)
        except IRUnsupportedOp as e:
            stats["unsupported"][str(e)[:60]] = stats["unsupported"].get(str(e)[:60], 0) + 1
            raise PathAbort()
        # --- Python semantics of the source on the denoted values
        try:
            spec: tuple = ("value", pyfn(*vals))
        except (PathAbort, Unsupported):
            raise
        except (ZeroDivisionError, ValueError, OverflowError, IndexError) as e:
            spec = ("raises", type(e).__name__)
        stats["paths"] += 1
        label = f"{p.name}: compiled = interpreted"
        if hasattr(c, "ir_events"):
            ie, se = c.ir_events, c.spec_events  # type: ignore[attr-defined]
            if len(ie) != len(se):
                c.stats["assert_queries"] += 1
                c.stats["refuted"] += 1
                found.append((p, c.path_model(), f"compiled performs {len(ie)} list stores, the interpreter {len(se)}"))
                return
            if ie:
                ok_ev = c.check(z3.And(*[z3.And(a_[0] == b_[0], a_[1] == b_[1]) for a_, b_ in zip(ie, se)]), label + " (list stores: same slots, same values, same order)")
                if not ok_ev:
                    _record(c, n_cex, found, p, "compiled stores into a different list slot (or a different value) than the interpreter")
                    return
        if spec[0] == "raises":
            if comp[0] == "raises":
                ok = comp[1] == spec[1]
                c.stats["assert_queries"] += 1
                c.stats["discharged" if ok else "refuted"] += 1
                if not ok:
                    found.append((p, c.path_model(), f"interpreter raises {spec[1]}, compiled raises {comp[1]}"))
            else:
                c.stats["assert_queries"] += 1
                c.stats["refuted"] += 1
                found.append((p, c.path_model(), f"interpreter raises {spec[1]}, compiled returns a value"))
            return
        sv = spec[1]
        if p.ret in FIXED:
            lo, hi = trange(p.ret)
            svz = symx.to_z3int(sv)
            fits = z3.And(svz >= lo, svz <= hi)
            # also every parameter conversion is in range by construction; intermediate results of
            # one-operation functions are the result itself
            if comp[0] == "raises":
                # allowed only when the exact result does not fit (documented OverflowError)
                ok = c.check(z3.Not(fits), label + " (exception only when the exact result does not fit)")
                if not ok:
                    _record(c, n_cex, found, p, f"compiled raises {comp[1]} although the exact result fits")
                return
            w = comp[1]
            if p.ret == "u8":
                goal = w == svz % 256
            else:
                goal = z3.Implies(fits, w == svz)
            ok = c.check(goal, label)
            if not ok:
                _record(c, n_cex, found, p, "compiled value differs from the exact result")
            return
        if comp[0] == "raises":
            c.stats["assert_queries"] += 1
            c.stats["refuted"] += 1
            found.append((p, c.path_model(), f"compiled raises {comp[1]}, interpreter returns a value"))
            return
        w = comp[1]
        if p.ret == "bool":
            goal = w == z3.If(symx.to_z3bool(sv), z3.IntVal(1), z3.IntVal(0))
        else:
            svz = symx.to_z3int(sv)
            fits = z3.And(svz >= irsem.SHORT_MIN, svz <= irsem.SHORT_MAX)
            goal = z3.And(m.val(w) == svz, z3.If(fits, w == 2 * svz, w % 2 != 0))
        ok = c.check(goal, label)
        if not ok:
            _record(c, n_cex, found, p, "compiled value differs from the interpreter's")

    try:
        ctx.explore(body)
    except symx.BudgetExceeded:
        stats["budget"] += 1
    return ctx


# ---------------------------------------------------------------------------------------
# corpora

BINOPS = ["+", "-", "*", "//", "%", "&", "|", "^", "<<", ">>"]
CMPS = ["==", "!=", "<", "<=", ">", ">="]


def one_op_programs() -> list[Prog]:
    out: list[Prog] = []
    n = 0
    for op in BINOPS:
        n += 1
        out.append(Prog(f"f{n}", f"def f{n}(a: int, b: int) -> int:\n    return a {op} b\n", [("a", "int"), ("b", "int")], "int", f"int {op} int"))
    for op in CMPS:
        n += 1
        out.append(Prog(f"f{n}", f"def f{n}(a: int, b: int) -> bool:\n    return a {op} b\n", [("a", "int"), ("b", "int")], "bool", f"int {op} int"))
    for op in ("-", "~", "+"):
        n += 1
        out.append(Prog(f"f{n}", f"def f{n}(a: int) -> int:\n    return {op}a\n", [("a", "int")], "int", f"{op}int"))
    for lit in (0, 1, -1, 2, 3, 7, -5, 64, 2**31, 2**62 - 1, -(2**62)):
        for op in ("+", "-", "*", "//", "%", "<<", ">>", "&"):
            if op in ("<<", ">>") and not (0 <= lit <= 64):
                continue
            n += 1
            out.append(Prog(f"f{n}", f"def f{n}(a: int) -> int:\n    return a {op} {lit}\n", [("a", "int")], "int", f"int {op} {lit}"))
            if op in ("-", "//", "%", "<<") and abs(lit) < 100:
                n += 1
                out.append(Prog(f"f{n}", f"def f{n}(a: int) -> int:\n    return {lit} {op} a\n", [("a", "int")], "int", f"{lit} {op} int"))
    # mixed bool / int operands
    for op in ["+", "-", "*", "//", "%", "&", "|", "^", "<<", ">>"]:
        for pa, pb in (("bool", "int"), ("int", "bool"), ("bool", "bool")):
            if pa == pb == "bool" and op in ("&", "|", "^"):
                continue  # bool op bool stays a bool: covered by comparisons of the generated corpus
            n += 1
            out.append(Prog(f"f{n}", f"def f{n}(a: {pa}, b: {pb}) -> int:\n    return a {op} b\n", [("a", pa), ("b", pb)], "int", f"{pa} {op} {pb}"))
    for t in FIXED:
        for op in ["+", "-", "*", "//", "%", "&", "|", "^"]:
            n += 1
            out.append(Prog(f"f{n}", f"from mypy_extensions import {t}\ndef f{n}(a: {t}, b: {t}) -> {t}:\n    return a {op} b\n", [("a", t), ("b", t)], t, f"{t} {op} {t}"))
        for op in CMPS:
            n += 1
            out.append(Prog(f"f{n}", f"from mypy_extensions import {t}\ndef f{n}(a: {t}, b: {t}) -> bool:\n    return a {op} b\n", [("a", t), ("b", t)], "bool", f"{t} {op} {t}"))
        for op in ("-", "~"):
            n += 1
            out.append(Prog(f"f{n}", f"from mypy_extensions import {t}\ndef f{n}(a: {t}) -> {t}:\n    return {op}a\n", [("a", t)], t, f"{op}{t}"))
        for sh in (1, 3):
            for op in ("<<", ">>"):
                n += 1
                out.append(Prog(f"f{n}", f"from mypy_extensions import {t}\ndef f{n}(a: {t}) -> {t}:\n    return a {op} {sh}\n", [("a", t)], t, f"{t} {op} {sh}"))
        # mixed bool / fixed-width operands (bool is promoted to the fixed-width type)
        for op in ["+", "-", "*", "//", "%", "&", "|", "^"]:
            n += 1
            out.append(Prog(f"f{n}", f"from mypy_extensions import {t}\ndef f{n}(a: bool, b: {t}) -> {t}:\n    return a {op} b\n", [("a", "bool"), ("b", t)], t, f"bool {op} {t}"))
            n += 1
            out.append(Prog(f"f{n}", f"from mypy_extensions import {t}\ndef f{n}(a: {t}, b: bool) -> {t}:\n    return a {op} b\n", [("a", t), ("b", "bool")], t, f"{t} {op} bool"))
        for op in CMPS:
            n += 1
            out.append(Prog(f"f{n}", f"from mypy_extensions import {t}\ndef f{n}(a: bool, b: {t}) -> bool:\n    return a {op} b\n", [("a", "bool"), ("b", t)], "bool", f"bool {op} {t}"))
        # conversions
        n += 1
        out.append(Prog(f"f{n}", f"from mypy_extensions import {t}\ndef f{n}(a: {t}) -> int:\n    return a\n", [("a", t)], "int", f"{t} -> int"))
        n += 1
        out.append(Prog(f"f{n}", f"from mypy_extensions import {t}\ndef f{n}(a: int) -> {t}:\n    return {t}(a)\n", [("a", "int")], t, f"int -> {t}"))
    return out


def assign_programs() -> list[Prog]:
    """Tuple assignments whose later targets depend on earlier ones (evaluation order of targets)."""
    shapes = [
        ("i, a[i + 1] = x, y", "i"),
        ("a[i], i = x, y", "i"),
        ("i, a[i] = x, y", "i"),
        ("a[i], a[j] = x, y", "i"),
        ("i, j, a[i + j] = x, y, x", "i + j"),
        ("j, a[j - 1], i = x, y, x", "i + j"),
        ("i = x\n    a[i] = y\n    a[i + 1] = x", "i"),
    ]
    out = []
    for k, (stmt, ret) in enumerate(shapes):
        src = f"from typing import List\ndef as{k}(a: List[int], i: int, j: int, x: int, y: int) -> int:\n    {stmt}\n    return {ret}\n"
        out.append(Prog(f"as{k}", src, [("a", "list"), ("i", "int"), ("j", "int"), ("x", "int"), ("y", "int")], "int", f"assignment order: {stmt.splitlines()[0]}"))
    return out


def gen_programs(seed: int, count: int, loops: bool = False) -> list[Prog]:
    rng = random.Random(seed + (7919 if loops else 0))
    out: list[Prog] = []

    def expr(d: int, vs: list[str]) -> str:
        r = rng.random()
        if d == 0 or r < 0.25:
            return rng.choice(vs) if rng.random() < 0.7 else str(rng.choice([0, 1, 2, 3, -1, 5, 10, 100, -7]))
        if r < 0.75:
            op = rng.choice(["+", "-", "*", "//", "%", "&", "|", "^", "+", "-"])
            return f"({expr(d - 1, vs)} {op} {expr(d - 1, vs)})"
        if r < 0.82:
            return f"(-{expr(d - 1, vs)})"
        if r < 0.88:
            return f"({expr(d - 1, vs)} << {rng.choice([0, 1, 2, 5])})"
        return f"({expr(d - 1, vs)} if {cond(d - 1, vs)} else {expr(d - 1, vs)})"

    def cond(d: int, vs: list[str]) -> str:
        r = rng.random()
        if d == 0 or r < 0.55:
            if rng.random() < 0.2:
                return f"{expr(0, vs)} {rng.choice(CMPS)} {expr(0, vs)} {rng.choice(CMPS)} {expr(0, vs)}"
            return f"{expr(max(d - 1, 0), vs)} {rng.choice(CMPS)} {expr(max(d - 1, 0), vs)}"
        if r < 0.7:
            return f"(not {cond(d - 1, vs)})"
        return f"({cond(d - 1, vs)} {rng.choice(['and', 'or'])} {cond(d - 1, vs)})"

    def block(d: int, vs: list[str], ind: str, must_return: bool) -> list[str]:
        lines: list[str] = []
        locs = list(vs)
        for _ in range(rng.randint(0, 2)):
            r = rng.random()
            if r < 0.5:
                nm = f"t{len(locs)}"
                lines.append(f"{ind}{nm} = {expr(d, locs)}")
                locs.append(nm)
            elif r < 0.75 and len(locs) > len(vs):
                lines.append(f"{ind}{rng.choice(locs[len(vs):])} {rng.choice(['+=', '-=', '*='])} {expr(max(d - 1, 0), locs)}")
            elif d > 0 and r < 0.87 and loops:
                k = rng.random()
                nm = f"t{len(locs)}"
                lines.append(f"{ind}{nm} = {expr(0, locs)}")
                locs.append(nm)
                iv = f"i{len(locs)}"
                if k < 0.4:
                    lines.append(f"{ind}for {iv} in range({rng.choice([1, 2, 3])}):")
                elif k < 0.7:
                    lines.append(f"{ind}for {iv} in range({rng.choice(locs)} % {rng.choice([2, 3])}):")
                else:
                    lines.append(f"{ind}{iv} = 0")
                    lines.append(f"{ind}while {iv} < {rng.choice([1, 2, 3])}:")
                    lines.append(f"{ind}    {iv} += 1")
                inner = locs + [iv]
                lines.append(f"{ind}    {nm} {rng.choice(['+=', '-=', '*=', '='])} {expr(1, inner)}")
                if rng.random() < 0.4:
                    lines.append(f"{ind}    if {cond(0, inner)}:")
                    lines.append(f"{ind}        {rng.choice(['break', 'continue', nm + ' += 1'])}")
            elif d > 0:
                lines.append(f"{ind}if {cond(d, locs)}:")
                lines += block(d - 1, locs, ind + "    ", rng.random() < 0.5) or [f"{ind}    pass"]
                if rng.random() < 0.4:
                    lines.append(f"{ind}elif {cond(d - 1, locs)}:")
                    lines += block(d - 1, locs, ind + "    ", rng.random() < 0.5) or [f"{ind}    pass"]
                if rng.random() < 0.5:
                    lines.append(f"{ind}else:")
                    lines += block(d - 1, locs, ind + "    ", rng.random() < 0.5) or [f"{ind}    pass"]
        if must_return:
            lines.append(f"{ind}return {expr(d, locs)}")
        return lines

    for i in range(count):
        np_ = rng.randint(1, 3)
        vs = ["a", "b", "c"][:np_]
        body = block(2, vs, "    ", True)
        name = f"{'gl' if loops else 'g'}{i}"
        src = f"def {name}({', '.join(v + ': int' for v in vs)}) -> int:\n" + "\n".join(body) + "\n"
        out.append(Prog(name, src, [(v, "int") for v in vs], "int", "generated"))
    return out


def build_all(progs: list[Prog]) -> dict:
    """name -> FuncIR; programs are built in batches (one module per batch)"""
    out: dict = {}
    B = 40
    for i in range(0, len(progs), B):
        batch = progs[i : i + B]
        imports = sorted({l for p in batch for l in p.src.splitlines() if l.startswith("from mypy_extensions")})
        src = "\n".join(imports) + "\n" + "\n".join("\n".join(l for l in p.src.splitlines() if not l.startswith("from mypy_extensions")) for p in batch) + "\n"
        try:
            mod = mypycir.build_module_ir(src)
            for f in mod.functions:
                out[f.name] = f
        except Exception:
            for p in batch:  # isolate the failing program
                try:
                    mod = mypycir.build_module_ir(p.src)
                    for f in mod.functions:
                        out[f.name] = f
                except Exception:
                    pass
    return out


def render_args(p: Prog, model: dict) -> "list | None":
    args = []
    for nm, ty in p.params:
        if ty == "list":
            n = model.get("len_" + nm)
            if n is None or int(n) > 64:
                return None
            args.append([0] * int(n))
            continue
        v = model.get("v_" + nm)
        if v is None:
            return None
        args.append(bool(v) if ty == "bool" else int(v))
    return args
