"""Shared harness for the constant-folding kernels (C12/K4 and C20).

Kernels (re-read from /repo on every run, builtins re-pointed at symx shims):
  mypy.constant_fold.{constant_fold_binary_op, constant_fold_binary_int_op,
                      constant_fold_binary_float_op, constant_fold_unary_op}
  mypyc.irbuild.constant_fold.constant_fold_binary_op_extended
"""

from __future__ import annotations

import operator
import os
import subprocess
import sys
from typing import Any

import z3

from vf import symx
from vf.symx import Ctx, Kernel, PathAbort, SymBool, SymComplex, SymFloat, SymInt, SymSeqRepeat, Unsupported

BIN_OPS = ["+", "-", "*", "/", "//", "%", "**", "<<", ">>", "&", "|", "^", "@"]
UN_OPS = ["-", "~", "+", "not"]
KINDS = ["int", "bool", "float", "str", "bytes", "complex"]

PYOPS = {
    "+": operator.add,
    "-": operator.sub,
    "*": operator.mul,
    "/": operator.truediv,
    "//": operator.floordiv,
    "%": operator.mod,
    "**": operator.pow,
    "<<": operator.lshift,
    ">>": operator.rshift,
    "&": operator.and_,
    "|": operator.or_,
    "^": operator.xor,
    "@": operator.matmul,
}
PYUNOPS = {"-": operator.neg, "~": operator.invert, "+": operator.pos}

# A folding step may make its result at most this many bits / items larger than its largest
# operand.  Then n lines of source produce at most (text size + n * COST_LIMIT) bits: linear.
# Without such a bound a few characters (1 << 10**11, 9**9**9) or a short chain of Final
# names (A1 = A0 * A0; A2 = A1 * A1; ...) cost unbounded time and memory.
COST_LIMIT = 2**24
CHAIN = 45  # replay amplification: the step is iterated this often through Final names


def load_kernels() -> tuple[Kernel, Kernel]:
    k1 = Kernel(
        "mypy.constant_fold",
        ["constant_fold_binary_int_op", "constant_fold_binary_float_op", "constant_fold_binary_op", "constant_fold_unary_op"],
    )
    # the mypyc variant imports the mypy functions by name: re-point them at the rewritten ones
    k2 = Kernel(
        "mypyc.irbuild.constant_fold",
        ["constant_fold_binary_op_extended"],
        extra_globals={
            "constant_fold_binary_op": k1["constant_fold_binary_op"],
            "constant_fold_unary_op": k1["constant_fold_unary_op"],
        },
    )
    return k1, k2


def mk(ctx: Ctx, name: str, kind: str) -> Any:
    if kind == "int":
        return ctx.int(name)
    if kind == "bool":
        return ctx.bool(name)
    if kind == "float":
        return ctx.float(name)
    if kind == "str":
        return symx.SymStr(str, ctx.int(name + "_len", 0, 2**62), name)
    if kind == "bytes":
        return symx.SymStr(bytes, ctx.int(name + "_len", 0, 2**62), name)
    if kind == "complex":
        return 1j
    raise AssertionError(kind)


def render_int(v: int) -> str:
    return f"({v})" if abs(v) < 10**3000 else f"({hex(v)})"


def render(kind: str, name: str, model: dict[str, Any], prelude: "list[str] | None" = None) -> str:
    """Python source text of an operand (as nested constant expressions where a literal
    cannot express the value; very long strings are built by a doubling chain of Final
    names appended to `prelude`)."""
    if kind in ("int",):
        v = model.get(name, 0)
        return render_int(v)
    if kind == "bool":
        return "True" if model.get(name) else "False"
    if kind == "float":
        v = model.get(name, 0.0)
        if isinstance(v, str):
            return "0.0"
        if v != v:
            return "(1e999 - 1e999)"
        if v == float("inf"):
            return "1e999"
        if v == float("-inf"):
            return "(-1e999)"
        return f"({v!r})"
    if kind in ("str", "bytes"):
        n = int(model.get(name + "_len", 2))
        pre = "b" if kind == "bytes" else ""
        if n <= 5000 or prelude is None:
            return pre + "'" + "a" * min(n, 5000) + "'"
        # doubling chain: S_k has length 1000 * 2**k
        base = f"_{name}S"
        prelude.append(f"{base}0: Final = {pre}'{'a' * 1000}'")
        k = 0
        while 1000 * 2**k < n:
            prelude.append(f"{base}{k + 1}: Final = {base}{k} + {base}{k}")
            k += 1
        return f"{base}{k}"
    if kind == "complex":
        return "1j"
    raise AssertionError(kind)


def concrete(kind: str, name: str, model: dict[str, Any]) -> Any:
    return eval(render(kind, name, model))


def spec_binary(op: str, l: Any, r: Any) -> tuple[str, Any]:
    """Reference semantics: evaluate the Python operator itself on the (proxy) operands.
    Returns ('value', v) or ('raises', exception type name)."""
    try:
        return "value", PYOPS[op](l, r)
    except (PathAbort, Unsupported):
        raise
    except (ZeroDivisionError, OverflowError, ValueError, TypeError, MemoryError) as e:
        return "raises", type(e).__name__


def spec_unary(op: str, v: Any) -> tuple[str, Any]:
    try:
        if op == "not":
            return "value", symx.Not(symx.s_bool(v)) if symx.is_sym(v) else (not v)
        return "value", PYUNOPS[op](v)
    except (PathAbort, Unsupported):
        raise
    except (ZeroDivisionError, OverflowError, ValueError, TypeError) as e:
        return "raises", type(e).__name__


def run_mypy_on(src: str, d: str, timeout: int = 40, mem_gb: int = 6, name: str = "prog.py") -> tuple[str, int, str, str]:
    """Run the real mypy on a one-file program.  Returns (status, rc, out, err) with status in
    ok / internal-error / timeout."""
    path = os.path.join(d, name)
    with open(path, "w") as f:
        f.write(src)
    cmd = f"ulimit -v {mem_gb * 1024 * 1024}; exec {sys.executable} -m mypy --no-incremental --cache-dir=/dev/null --no-error-summary {name}"
    env = dict(os.environ)
    env.pop("PYTHONPATH", None)
    try:
        p = subprocess.run(["bash", "-c", cmd], cwd=d, capture_output=True, text=True, timeout=timeout, env=env)
    except subprocess.TimeoutExpired:
        return "timeout", -1, "", ""
    bad = "INTERNAL ERROR" in p.stderr + p.stdout or "Traceback" in p.stderr + p.stdout or p.returncode not in (0, 1, 2)
    return ("internal-error" if bad else "ok"), p.returncode, p.stdout, p.stderr
