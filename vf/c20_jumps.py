"""C20 K6: jump statements (`break`, `continue`, `return`, `yield`, `await`) at every position of a small
nest of control constructs produce diagnostics, never an internal failure, and the blocking "outside
loop / outside function" errors agree with CPython's compiler.

Two cooperating pieces of mypy's own state decide this: the semantic analyser's `loop_depth` /
function-scope bookkeeping (which raises the blocking error) and the binder's `break_frames` /
`continue_frames` stacks (which the checker indexes without a guard because the analyser has promised
that the statement is inside a loop).  The solver chooses a nest of up to three constructs out of
for / for-else / while / while-else / if / try-except / try-finally / try-else / with / def / class /
match, the branch of each construct that holds the next level, and the jump statement at the innermost
position; the program goes through the real `mypy.build.build` in-process (all passes).

Oracle: (a) no exception other than CompileError escapes and no diagnostic mentions INTERNAL ERROR;
(b) mypy reports a blocking error about the jump exactly when CPython's `compile()` rejects the
program (SyntaxError: 'break' outside loop, 'continue' not properly in loop, 'return' outside function,
'yield' outside function, 'await' outside function/async).
"""

from __future__ import annotations

import os
import subprocess
import sys
from typing import Any

from vf.symx import Ctx

# construct -> list of (branch label, template); {B} is where the next level goes, other suites get `pass`
CONSTRUCTS: dict[str, list[tuple[str, str]]] = {
    "for": [("body", "for i in range(3):\n{B}")],
    "for-else": [("body", "for i in range(3):\n{B}\nelse:\n    pass"), ("else", "for i in range(3):\n    pass\nelse:\n{B}")],
    "while": [("body", "while cond():\n{B}")],
    "while-else": [("body", "while cond():\n{B}\nelse:\n    pass"), ("else", "while cond():\n    pass\nelse:\n{B}")],
    "if": [("then", "if cond():\n{B}"), ("else", "if cond():\n    pass\nelse:\n{B}")],
    "try-except": [("try", "try:\n{B}\nexcept Exception:\n    pass"), ("except", "try:\n    pass\nexcept Exception:\n{B}")],
    "try-else": [("else", "try:\n    pass\nexcept Exception:\n    pass\nelse:\n{B}")],
    "try-finally": [("try", "try:\n{B}\nfinally:\n    pass"), ("finally", "try:\n    pass\nfinally:\n{B}")],
    "with": [("body", "with ctx():\n{B}")],
    "def": [("body", "def inner{N}() -> Any:\n{B}")],
    "class": [("body", "class Inner{N}:\n{B}")],
    "match": [("case", "match cond():\n    case True:\n{B2}\n    case _:\n        pass")],
}
JUMPS = ["break", "continue", "return 1", "yield 1", "x = 1"]
PRELUDE = "from typing import Any\nimport contextlib\ndef cond() -> bool: ...\ndef ctx() -> contextlib.AbstractContextManager[None]: ...\n"


def indent(txt: str, n: int = 1) -> str:
    return "\n".join(("    " * n + ln) if ln else ln for ln in txt.split("\n"))


def render(levels: list[tuple[str, int]], jump: str, in_function: bool) -> str:
    body = jump
    for depth, (name, br) in reversed(list(enumerate(levels))):
        tmpl = CONSTRUCTS[name][br][1].replace("{N}", str(depth))
        if "{B2}" in tmpl:
            body = tmpl.replace("{B2}", indent(body, 2))
        else:
            body = tmpl.replace("{B}", indent(body))
    if in_function:
        body = "def outer() -> Any:\n" + indent(body)
    return PRELUDE + body + "\n"


_CACHE: dict = {}


def mypy_verdict(src: str) -> tuple[str, tuple]:
    import mypy.build as B
    from mypy.errors import CompileError
    from mypy.modulefinder import BuildSource
    from mypy.options import Options

    o = Options()
    o.incremental = True
    o.cache_dir = _CACHE["dir"]
    o.python_version = (3, 12)
    o.allow_empty_bodies = True
    o.show_traceback = True
    try:
        res = B.build([BuildSource(None, "jp", src)], o)
        return "ok", tuple(res.errors)
    except CompileError as e:
        return "blocker", tuple(e.messages)
    except SystemExit as e:  # report_internal_error exits with status 2
        return "internal", (f"SystemExit({e.code})",)
    except Exception as e:  # noqa: BLE001
        return "internal", (f"{type(e).__name__}: {e}",)


def cpython_rejects(src: str) -> "str | None":
    try:
        compile(src, "jp.py", "exec")
        return None
    except SyntaxError as e:
        return str(e.msg)


def _partition(arg: tuple) -> tuple:
    first, tier = arg
    import contextlib
    import io
    import shutil

    from vf.report import scratch

    _CACHE["dir"] = scratch("c20j-")
    names = sorted(CONSTRUCTS)
    max_depth = 2 if tier == "quick" else 3
    ctx = Ctx(max_paths=1_000_000)
    found: dict = {}
    n = {"programs": 0, "blockers": 0, "accepted": 0}

    def body(c: Ctx) -> None:
        depth = 1 + c.choose("depth", max_depth)
        levels = []
        for d in range(depth):
            nm = first if d == 0 else names[c.choose(f"construct{d}", len(names))]
            br = c.choose(f"branch{d}", len(CONSTRUCTS[nm])) if len(CONSTRUCTS[nm]) > 1 else 0
            levels.append((nm, br))
        jump = JUMPS[c.choose("jump", len(JUMPS))]
        in_function = bool(c.bool("inside_function"))
        src = render(levels, jump, in_function)
        cp = cpython_rejects(src)
        if cp is not None and not any(k in cp for k in ("outside", "not properly in loop")):
            return  # the generator produced something else CPython refuses (not expected)
        with contextlib.redirect_stdout(io.StringIO()), contextlib.redirect_stderr(io.StringIO()):
            kind, msgs = mypy_verdict(src)
        n["programs"] += 1
        shape = " > ".join(f"{nm}/{CONSTRUCTS[nm][br][0]}" for nm, br in levels) + f" > {jump}" + (" (inside a function)" if in_function else " (module level)")
        c.stats["assert_queries"] += 2
        internal = kind == "internal" or any("INTERNAL ERROR" in m for m in msgs)
        if internal:
            c.stats["refuted"] += 1
            key = f"internal failure for `{jump.split()[0]}` in {levels[-1][0]}/{CONSTRUCTS[levels[-1][0]][levels[-1][1]][0]}"
            found.setdefault(key, (src, shape, msgs[:2]))
        else:
            c.stats["discharged"] += 1
        jump_blocker = kind == "blocker" and any(("outside" in m or "not properly in loop" in m) for m in msgs)
        # mypy reports some of these as ordinary (non-blocking) errors; what must agree with CPython is
        # that the program is rejected with a message about the jump
        jump_error = jump_blocker or any(("outside" in m) and ("error" in m) for m in msgs)
        n["blockers" if jump_error else "accepted"] += 1
        if (cp is not None) == jump_error or internal:
            c.stats["discharged"] += 1
        else:
            c.stats["refuted"] += 1
            key = (f"`{jump.split()[0]}` accepted by mypy although CPython refuses it" if cp else f"`{jump.split()[0]}` refused by mypy although CPython compiles it") + f" in {levels[-1][0]}/{CONSTRUCTS[levels[-1][0]][levels[-1][1]][0]}"
            found.setdefault(key, (src, shape, msgs[:2] + ((cp,) if cp else ())))

    try:
        ctx.explore(body)
    finally:
        shutil.rmtree(_CACHE["dir"], ignore_errors=True)
    return dict(ctx.stats), ctx.exhausted, n, found


def run(rep: Any, tier: str) -> None:
    import multiprocessing as mp

    import mypy.binder
    import mypy.build  # noqa: F401
    import mypy.semanal

    from vf import symx

    rep.kernel("mypy.semanal", symx.source_hash(mypy.semanal.__file__))
    rep.kernel("mypy.binder", symx.source_hash(mypy.binder.__file__))
    names = sorted(CONSTRUCTS)
    max_depth = 2 if tier == "quick" else 3
    with mp.get_context("fork").Pool(min(12, len(names))) as pool:
        results = pool.map(_partition, [(nm, tier) for nm in names])
    ctx = Ctx()
    ctx.exhausted = True
    found: dict = {}
    n = {"programs": 0, "blockers": 0, "accepted": 0}
    for st, exh, nn, fnd in results:
        for k, v in st.items():
            if isinstance(v, (int, float)):
                ctx.stats[k] += v
        ctx.exhausted = ctx.exhausted and exh
        for k in n:
            n[k] += nn[k]
        for k, v in fnd.items():
            found.setdefault(k, v)
    rep.add_ctx("K6 jump statements in nests of control constructs through the real build", ctx, outcomes=dict(n), partitions=len(names))
    rep.twin("K6: programs with and without a refused jump reached", n["blockers"] > 0 and n["accepted"] > 0)
    rep.bounds.append(f"K6: nests of 1..{max_depth} constructs out of {', '.join(names)} (every branch), innermost statement one of {JUMPS}, at module level or inside a function")
    for key, (src, shape, msgs) in found.items():
        rep.sample({"kernel": "jumps", "class": key, "shape": shape, "messages": list(msgs)})
        rep.candidate("jumps: " + key, f"{shape}: {list(msgs)}", {"shape": shape}, make_replay(src))


def make_replay(src: str) -> Any:
    def replay(d: str) -> tuple[bool, str]:
        with open(os.path.join(d, "jp.py"), "w") as f:
            f.write(src)
        with open(os.path.join(d, "replay.sh"), "w") as f:
            f.write('#!/bin/bash\ncd "$(dirname "$0")"\n/verif/.venv/bin/python -m mypy --no-incremental --allow-empty-bodies jp.py; echo "exit status $?"\n/verif/.venv/bin/python -c "compile(open(\'jp.py\').read(), \'jp.py\', \'exec\')"\n')
        env = dict(os.environ)
        env.pop("PYTHONPATH", None)
        p = subprocess.run([sys.executable, "-m", "mypy", "--no-incremental", "--cache-dir", os.devnull, "--allow-empty-bodies", "jp.py"], cwd=d, capture_output=True, text=True, env=env, timeout=600)
        out = p.stdout + p.stderr
        cp = cpython_rejects(src)
        internal = "INTERNAL ERROR" in out or "Traceback" in out or p.returncode not in (0, 1, 2)
        refused = "outside" in out or "not properly in loop" in out
        bad = internal or ((cp is not None) != refused)
        return bad, f"mypy exit {p.returncode}: {out.strip()[-300:]}; CPython: {cp or 'compiles'}"

    return replay
