"""E4b: ownership bounded model checking of final mypyc FuncIR (C06, static half).

The CFG (loops peeled K times) is turned into passive form: per value an integer count of owned
references `own[v]` and a flag `err[v]` (the value is the error value / NULL / undefined), merged
by ITE over edge conditions.  Branch outcomes are free booleans, except IS_ERROR branches which
are tied to the error flag of the tested value; every op that can fail gets a fresh error flag.
The transfer function is read off the IR's own metadata (Op.stolen(), is_borrowed, error_kind,
IncRef/DecRef(is_xdec), Assign, Return, LoadErrorValue).

Obligations (one SMT query each):
  * at every Return: every tracked value has own == 0 after the returned reference is handed over
  * after every decrement (DecRef or steal): own >= 0 (no double free)
"""

from __future__ import annotations

from typing import Any

import z3


class Finding:
    def __init__(self, kind: str, fn: str, value: str, where: str, path: list, detail: str):
        self.kind = kind
        self.fn = fn
        self.value = value
        self.where = where
        self.path = path
        self.detail = detail


def vname(v: Any, names: dict) -> str:
    return names.get(v, getattr(v, "name", None) or repr(v))


def cfg_back_edges(fn: Any) -> tuple:
    from mypyc.ir.ops import ControlOp

    succ: dict = {}
    inblocks = set(fn.blocks)
    for b in fn.blocks:
        t = b.ops[-1]
        # a target that is not a block of the function (dead code already dropped) is no successor
        succ[b] = [x for x in t.targets() if x in inblocks] if isinstance(t, ControlOp) else []
    back: set = set()
    color: dict = {}
    u = fn.blocks[0]
    stack = [(u, iter(succ[u]))]
    color[u] = 1
    while stack:
        node, it = stack[-1]
        for v in it:
            if color.get(v, 0) == 0:
                color[v] = 1
                stack.append((v, iter(succ[v])))
                break
            elif color.get(v) == 1:
                back.add((node, v))
        else:
            color[node] = 2
            stack.pop()
    return succ, back


def check_function(fn: Any, K: int = 2, timeout_ms: int = 20000) -> dict:
    from mypyc.ir.ops import (
        ERR_MAGIC,
        ERR_NEVER,
        Assign,
        AssignMulti,
        BasicBlock,
        Branch,
        ControlOp,
        DecRef,
        Goto,
        IncRef,
        Integer,
        LoadErrorValue,
        Op,
        Register,
        RegisterOp,
        Return,
        Unborrow,
        Unreachable,
        Value,
    )
    from mypyc.ir.pprint import generate_names_for_ir

    blocks = fn.blocks
    names = generate_names_for_ir(fn.arg_regs, blocks)
    idx = {b: i for i, b in enumerate(blocks)}
    # ---- successors and back edges
    succ, back = cfg_back_edges(fn)
    # ---- tracked values
    tracked: list = []
    seen: set = set()

    def track(v: Any) -> None:
        if isinstance(v, (Register, Op)) and not isinstance(v, (Integer,)) and v not in seen:
            try:
                rc = v.type.is_refcounted
            except Exception:
                rc = False
            if rc:
                seen.add(v)
                tracked.append(v)

    for r in fn.arg_regs:
        track(r)
    for b in blocks:
        for op in b.ops:
            if not isinstance(op, ControlOp) and not op.is_void:
                track(op)
            if isinstance(op, (Assign, AssignMulti)):
                track(op.dest)
            for s in op.sources():
                track(s)
    # ---- unrolled acyclic graph in topological order
    nodes = [(b, c) for c in range(K + 1) for b in blocks]
    order: list = []
    indeg: dict = {n: 0 for n in nodes}
    edges_out: dict = {n: [] for n in nodes}
    cut = 0
    for b, c in nodes:
        for ti, t in enumerate(succ[b]):
            if (b, t) in back:
                if c < K:
                    edges_out[(b, c)].append((ti, (t, c + 1)))
                else:
                    cut += 1
            else:
                edges_out[(b, c)].append((ti, (t, c)))
    for n in nodes:
        for _, m in edges_out[n]:
            indeg[m] += 1
    ready = [n for n in nodes if indeg[n] == 0]
    while ready:
        n = ready.pop()
        order.append(n)
        for _, m in edges_out[n]:
            indeg[m] -= 1
            if indeg[m] == 0:
                ready.append(m)
    if len(order) != len(nodes):
        return {"status": "irreducible", "obligations": 0, "discharged": 0, "findings": [], "queries": 0, "solver_s": 0.0}
    # ---- passive-form symbolic execution
    incoming: dict = {n: [] for n in nodes}  # list of (cond, state)
    entry = (blocks[0], 0)
    zero = z3.IntVal(0)
    init_state = {v: (zero, z3.BoolVal(False)) for v in tracked}
    # attribute initialisation in __init__: per attribute of self "may already hold a value"
    self_reg = fn.arg_regs[0] if (getattr(fn, "class_name", None) and fn.name == "__init__" and fn.arg_regs) else None
    init_attrs: dict = {}
    if self_reg is not None:
        for b_ in blocks:
            for op_ in b_.ops:
                if type(op_).__name__ == "SetAttr" and op_.obj is self_reg:
                    init_attrs[op_.attr] = z3.BoolVal(False)
        try:
            cl_ = self_reg.type.class_ir
            for a_ in list(init_attrs):
                if any(a_ in getattr(base_, "attrs_with_defaults", set()) for base_ in cl_.mro):
                    init_attrs[a_] = z3.BoolVal(True)  # set by the class-body defaults before __init__ runs
        except AttributeError:
            pass
    incoming[entry].append((z3.BoolVal(True), init_state, dict(init_attrs)))
    obligations: list = []  # (kind, cond, value, where)
    fresh = [0]
    branch_vars: list = []
    decomposed: set = set()
    opflags: dict = {}

    def newbool(tag: str) -> Any:
        fresh[0] += 1
        return z3.Bool(f"{tag}!{fresh[0]}")

    for n in order:
        b, c = n
        ins = incoming[n]
        if not ins:
            continue
        cond = z3.simplify(z3.Or(*[i[0] for i in ins])) if len(ins) > 1 else ins[0][0]
        state: dict = {}
        for v in tracked:
            o = ins[0][1][v][0]
            e = ins[0][1][v][1]
            for ic, ist, _ in ins[1:]:
                if ist[v][0] is not o:
                    o = z3.If(ic, ist[v][0], o)
                if ist[v][1] is not e:
                    e = z3.If(ic, ist[v][1], e)
            state[v] = (o, e)
        adef: dict = {}
        for a_ in init_attrs:
            t_ = ins[0][2].get(a_, z3.BoolVal(False)) if isinstance(ins[0][2], dict) else z3.BoolVal(False)
            for ic, _, iad in ins[1:]:
                t2_ = iad.get(a_, z3.BoolVal(False)) if isinstance(iad, dict) else z3.BoolVal(False)
                if t2_ is not t_:
                    t_ = z3.If(ic, t2_, t_)
            adef[a_] = t_

        def dec(v: Any, amount: Any, where: str) -> None:
            if v in state:
                o, e = state[v]
                o2 = o - amount
                state[v] = (o2, e)
                obligations.append(("negative", cond, v, where, o2))

        for oi, op in enumerate(b.ops):
            where = f"L{idx[b]}#{oi} (iter {c}): {type(op).__name__}"
            if isinstance(op, Return):
                v = op.value
                if v in state:
                    o, e = state[v]
                    state[v] = (o - z3.If(e, 0, 1), e)
                for tv in tracked:
                    obligations.append(("leak-or-imbalance", cond, tv, where, state[tv][0]))
                continue
            if isinstance(op, Unreachable):
                continue
            if isinstance(op, Goto):
                incoming_target = [m for ti, m in edges_out[n] if ti == 0]
                for m in incoming_target:
                    incoming[m].append((cond, dict(state), dict(adef)))
                continue
            if isinstance(op, Branch):
                if op.op == Branch.IS_ERROR and op.value in state:
                    cv = state[op.value][1]
                elif op.op == Branch.IS_ERROR and (op.value, c) in opflags:
                    cv = opflags[(op.value, c)]
                elif op.op == Branch.IS_ERROR:
                    cv = z3.Bool(f"iserr_L{idx[b]}_{c}")
                else:
                    cv = z3.Bool(f"br_L{idx[b]}_{c}")
                if op.negated:
                    cv = z3.Not(cv)
                for ti, m in edges_out[n]:
                    ec = z3.And(cond, cv if ti == 0 else z3.Not(cv))
                    incoming[m].append((ec, dict(state), dict(adef)))
                continue
            # ---- ordinary ops
            if self_reg is not None and init_attrs:
                tn = type(op).__name__
                if tn == "SetAttr" and op.obj is self_reg:
                    if getattr(op, "is_init", False):
                        # an initialising store does not release the previous value: it must not exist
                        obligations.append(("init-overwrite", cond, op, where + f" (attribute {op.attr})", z3.If(adef[op.attr], z3.IntVal(1), z3.IntVal(0))))
                    adef[op.attr] = z3.BoolVal(True)
                elif tn in ("Call", "MethodCall", "CallC", "PrimitiveOp") and any(a_ is self_reg for a_ in op.sources()):
                    base_init = tn == "Call" and getattr(op.fn, "class_name", None) and op.fn.name == "__init__"
                    leak_ = True
                    maybe_: "set | None" = None
                    if base_init:
                        try:
                            bcl_ = op.fn.sig.args[0].type.class_ir
                            leak_ = bool(bcl_.init_self_leak)
                            maybe_ = {a2 for base_ in bcl_.mro for a2 in base_.attributes}
                        except AttributeError:
                            leak_ = True
                    for a_ in list(adef):
                        if leak_ or maybe_ is None or a_ in maybe_:
                            adef[a_] = z3.Or(adef[a_], newbool(f"attrset_{a_}"))
                elif tn == "Assign" and (op.src is self_reg or op.dest is self_reg):
                    for a_ in list(adef):
                        adef[a_] = z3.Or(adef[a_], newbool(f"attrset_{a_}"))
            if isinstance(op, IncRef):
                if op.src in state:
                    o, e = state[op.src]
                    state[op.src] = (o + 1, e)
                continue
            if isinstance(op, DecRef):
                src = op.src
                if type(src).__name__ == "LoadMem" and src.is_borrowed and any(type(o2).__name__ == "SetMem" and o2.dest is src.src for o2 in b.ops[oi + 1 :]):
                    # the reference owned by a memory slot is released because the slot is overwritten
                    # later in this block (vec item assignment): not a release of a local reference
                    continue
                if op.src in state:
                    o, e = state[op.src]
                    amount = z3.If(e, 0, 1) if op.is_xdec else z3.IntVal(1)
                    dec(op.src, amount, where)
                continue
            for s in op.stolen():
                if s in state:
                    # handing over the error value (NULL / undefined) transfers no reference
                    dec(s, z3.If(state[s][1], 0, 1), where)
            if isinstance(op, Assign):
                d = op.dest
                if d in state:
                    se = state[op.src][1] if op.src in state else z3.BoolVal(False)
                    o, _ = state[d]
                    state[d] = (o + z3.If(se, 0, 1), se)
                continue
            if isinstance(op, AssignMulti):
                d = op.dest
                if d in state:
                    o, _ = state[d]
                    state[d] = (o + 1, z3.BoolVal(False))
                continue
            if isinstance(op, LoadErrorValue):
                if op in state:
                    o, _ = state[op]
                    state[op] = (o, z3.BoolVal(True))
                continue
            if isinstance(op, Unborrow):
                # `unborrow` of a borrowed component of an aggregate (tuple struct): the components
                # take over the aggregate's reference.  The refcount transform strips the
                # `keep_alive steal t` that marks this in earlier IR, so the hand-over is inferred:
                # the first unborrow of a component of t in a block consumes t's reference.
                src = op.src
                agg = getattr(src, "src", None)
                if agg is not None and agg in state and (n, agg) not in decomposed:
                    decomposed.add((n, agg))
                    dec(agg, z3.If(state[agg][1], 0, 1), where + " (aggregate handed over to its components)")
                if op in state:
                    o, _ = state[op]
                    state[op] = (o + 1, z3.BoolVal(False))
                continue
            ek = getattr(op, "error_kind", ERR_NEVER)
            e = z3.Bool(f"err_{vname(op, names)}_{c}") if (ek == ERR_MAGIC and not op.is_void) else z3.BoolVal(False)
            if ek == ERR_MAGIC and not op.is_void:
                opflags[(op, c)] = e
            # out-parameters: a register whose address is passed to a call receives an owned
            # reference from the callee unless the call fails (CPy_YieldFromErrorHandle & co.)
            for a_ in op.sources():
                if type(a_).__name__ == "LoadAddress" and isinstance(getattr(a_, "src", None), Register) and a_.src in state:
                    o_, _ = state[a_.src]
                    state[a_.src] = (o_ + z3.If(e, 0, 1), e)
            if op in state:
                o, _ = state[op]
                if op.is_borrowed:
                    state[op] = (o, e)
                else:
                    state[op] = (o + z3.If(e, 0, 1), e)
    # ---- discharge
    import time

    s = z3.Solver()
    s.set("timeout", timeout_ms)
    findings: list = []
    discharged = 0
    queries = 0
    solver_s = 0.0
    seen_keys: set = set()
    for kind, cond, v, where, term in obligations:
        bad = term < 0 if kind == "negative" else term != 0  # init-overwrite: term is 1 where the attribute may hold a value
        f = z3.simplify(z3.And(cond, bad))
        if z3.is_false(f):
            discharged += 1
            continue
        queries += 1
        t = time.time()
        r = str(s.check(f))
        solver_s += time.time() - t
        if r == "unsat":
            discharged += 1
        elif r == "sat":
            m = s.model()
            val = m.eval(term, model_completion=True)
            key = (kind, vname(v, names), where.split(" (iter")[0])
            if key in seen_keys:
                continue
            seen_keys.add(key)
            decisions = sorted((str(d), z3.is_true(m[d])) for d in m.decls() if str(d).startswith(("br_", "err_", "iserr_")))
            if kind == "init-overwrite":
                findings.append(Finding("leak of the old attribute value (store marked as initialiser although the attribute may already be set)", fn.name, "self." + v.attr, where, decisions, f"initialising SetAttr at {where} on a path where self was visible to other code before"))
                continue
            findings.append(Finding("double-free" if kind == "negative" else ("leak" if val.as_long() > 0 else "over-release"), fn.name, vname(v, names), where, decisions, f"owned count {val} at {where}"))
        else:
            findings.append(Finding("inconclusive", fn.name, vname(v, names), where, [], "solver timeout"))
    return {"status": "ok", "obligations": len(obligations), "discharged": discharged, "findings": findings, "queries": queries, "solver_s": solver_s, "blocks": len(blocks), "values": len(tracked), "loop_cuts": cut}


def simulate(fn: Any, decisions: dict, K: int = 2, max_steps: int = 5000) -> list:
    """Independent concrete ownership simulator: follows one path (branch outcomes and error flags
    from `decisions`, default False) and reports imbalances.  Used to replay solver models."""
    from mypyc.ir.ops import ERR_MAGIC, Assign, AssignMulti, Branch, ControlOp, DecRef, Goto, IncRef, Integer, LoadErrorValue, Op, Register, Return, Unborrow, Unreachable
    from mypyc.ir.pprint import generate_names_for_ir

    names = generate_names_for_ir(fn.arg_regs, fn.blocks)
    idx = {b: i for i, b in enumerate(fn.blocks)}
    _, back_edges = cfg_back_edges(fn)
    own: dict = {}
    err: dict = {}
    opflag: dict = {}
    problems: list = []

    def rc(v: Any) -> bool:
        try:
            return isinstance(v, (Register, Op)) and not isinstance(v, Integer) and v.type.is_refcounted
        except Exception:
            return False

    def give(v: Any, k: int) -> None:
        if rc(v):
            own[v] = own.get(v, 0) + k
            if own[v] < 0:
                problems.append(f"{vname(v, names)} released more often than acquired (count {own[v]})")

    b = fn.blocks[0]
    c = 0
    visits: dict = {}
    steps = 0
    while steps < max_steps:
        steps += 1
        visits[b] = visits.get(b, 0) + 1
        decomposed: set = set()
        nxt = None
        for oi, op in enumerate(b.ops):
            if isinstance(op, Return):
                if rc(op.value) and not err.get(op.value, False):
                    give(op.value, -1)
                for v, k in own.items():
                    if k != 0:
                        problems.append(f"{vname(v, names)} has owned count {k} at return in L{idx[b]}")
                return problems
            if isinstance(op, Unreachable):
                return problems
            if isinstance(op, Goto):
                nxt = op.label
                break
            if isinstance(op, Branch):
                if op.op == Branch.IS_ERROR:
                    if rc(op.value):
                        cv = err.get(op.value, False)
                    elif op.value in opflag:
                        cv = opflag[op.value]
                    else:
                        cv = decisions.get(f"iserr_L{idx[b]}_{c}", False)
                else:
                    cv = decisions.get(f"br_L{idx[b]}_{c}", False)
                if op.negated:
                    cv = not cv
                nxt = op.true if cv else op.false
                break
            if isinstance(op, IncRef):
                give(op.src, 1)
                continue
            if isinstance(op, DecRef):
                src = op.src
                if type(src).__name__ == "LoadMem" and src.is_borrowed and any(type(o2).__name__ == "SetMem" and o2.dest is src.src for o2 in b.ops[oi + 1 :]):
                    continue
                if not (op.is_xdec and err.get(src, False)):
                    give(src, -1)
                continue
            for s_ in op.stolen():
                if rc(s_) and not err.get(s_, False):
                    give(s_, -1)
            if isinstance(op, Assign):
                se = err.get(op.src, False) if rc(op.src) else False
                if rc(op.dest):
                    give(op.dest, 0 if se else 1)
                    err[op.dest] = se
                continue
            if isinstance(op, AssignMulti):
                give(op.dest, 1)
                continue
            if isinstance(op, LoadErrorValue):
                err[op] = True
                continue
            if isinstance(op, Unborrow):
                agg = getattr(op.src, "src", None)
                if agg is not None and rc(agg) and agg not in decomposed:
                    decomposed.add(agg)
                    if not err.get(agg, False):
                        give(agg, -1)
                give(op, 1)
                err[op] = False
                continue
            e = decisions.get(f"err_{vname(op, names)}_{c}", False) if (getattr(op, "error_kind", 0) == ERR_MAGIC and not op.is_void) else False
            if getattr(op, "error_kind", 0) == ERR_MAGIC and not op.is_void:
                opflag[op] = e
            for a_ in op.sources():
                if type(a_).__name__ == "LoadAddress" and isinstance(getattr(a_, "src", None), Register) and rc(a_.src):
                    if not e:
                        give(a_.src, 1)
                    err[a_.src] = e
            if rc(op):
                err[op] = e
                if not op.is_borrowed and not e:
                    give(op, 1)
        if nxt is None:
            return problems
        if (b, nxt) in back_edges:
            c += 1
            if c > K:
                return problems
        b = nxt
    return problems
