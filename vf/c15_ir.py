"""C15/K2: lowered mypyc IR of one-operation functions for every operator x operand type."""

from __future__ import annotations

import multiprocessing as mp
from typing import Any

from vf import tv


def _work(chunk: list) -> tuple:
    irs = tv.build_all(chunk)
    found: list = []
    stats = {"unsupported": {}, "paths": 0, "budget": 0}
    agg = {"paths": 0, "assert_queries": 0, "discharged": 0, "refuted": 0, "inconclusive": 0, "unknown_branches": 0, "solver_s": 0.0, "branch_queries": 0, "programs": 0, "nobuild": 0, "skipped": 0, "not_exhausted": 0}
    for p in chunk:
        if p.name not in irs:
            agg["nobuild"] += 1
            continue
        n_un = sum(stats["unsupported"].values())
        c = tv.check_program(p, irs[p.name], found, stats)
        for k in ("paths", "assert_queries", "discharged", "refuted", "inconclusive", "unknown_branches", "solver_s", "branch_queries"):
            agg[k] += c.stats[k]
        if sum(stats["unsupported"].values()) > n_un:
            agg["skipped"] += 1
        elif c.stats["inconclusive"] or c.stats["unknown_branches"] or not c.exhausted:
            agg["undecided"] = agg.get("undecided", 0) + 1
            agg.setdefault("undecided_names", []).append(p.name + ": " + p.src.strip().splitlines()[-1].strip()[:80])
        else:
            agg["programs"] += 1
        if not c.exhausted:
            agg["not_exhausted"] += 1
    return agg, stats, [(p.name, p.src, p.params, p.ret, p.tag, model, what) for p, model, what in found]


def run_corpus(rep: Any, progs: list, section: str, key_prefix: str) -> None:
    from vf import mypyc_replay

    chunks = [progs[i::14] for i in range(14) if progs[i::14]]
    with mp.get_context("fork").Pool(len(chunks)) as pool:
        results = pool.map(_work, chunks)
    tot: dict = {}
    unsup: dict = {}
    found = []
    undecided_names: list = []
    for agg, stats, fnd in results:
        undecided_names += agg.pop("undecided_names", [])
        for k, v in agg.items():
            tot[k] = tot.get(k, 0) + v
        for k, v in stats["unsupported"].items():
            unsup[k] = unsup.get(k, 0) + v
        found += fnd
    und = tot.get("undecided", 0)
    generated = any(p.tag == "generated" for p in progs)
    # randomly generated programs whose queries the solver could not decide within its budget are
    # excluded from the claim and listed; everything else that is undecided stays an error
    tolerated = generated and und * 10 <= max(tot["programs"], 1)
    rep.add_counts(tot["assert_queries"], tot["discharged"], queries=tot["assert_queries"] + tot["branch_queries"], solver_s=tot["solver_s"], paths=tot["paths"], inconclusive=0 if tolerated else tot["inconclusive"] + tot["unknown_branches"])
    rep.section(section, programs_validated=tot["programs"], programs_undecided_excluded_from_the_claim=und, undecided=undecided_names[:20], programs_skipped_unsupported_ir=tot["skipped"], programs_not_built=tot["nobuild"], paths=tot["paths"], obligations=tot["assert_queries"], discharged=tot["discharged"], unsupported_reasons=unsup, solver_s=round(tot["solver_s"], 1))
    rep.extra["programs"] = rep.extra.get("programs", 0) + tot["programs"]
    rep.extra["disagreements_checked"] = rep.extra.get("disagreements_checked", 0) + len(found)
    rep.twin(section + ": programs validated", tot["programs"] >= min(11, max(1, (len(progs) + 1) // 2)) and tot["discharged"] >= min(11, len(progs)))
    if (tot["inconclusive"] or tot["unknown_branches"] or tot["not_exhausted"]) and not tolerated:
        rep.error(f"{section}: {tot['inconclusive']} inconclusive queries, {tot['unknown_branches']} unknown branches, {tot['not_exhausted']} programs over budget")
    if progs:
        rep.sample({"section": section, "example_program": progs[0].src, "validated": tot["programs"]})
    seen = set()
    for name, src, params, ret, tag, model, what in found:
        key = f"{key_prefix} {tag if tag != 'generated' else name}: {what}"
        if key in seen:
            continue
        seen.add(key)
        p = tv.Prog(name, src, params, ret, tag)
        args = tv.render_args(p, model)
        rep.sample({"program": src, "args": args, "what": what})

        def replay(d: str, p: Any = p, args: Any = args) -> tuple[bool, str]:
            if args is None:
                return False, "no concrete arguments in the model"
            return mypyc_replay.build_and_compare(p.src, [(p.name, args)], d)

        rep.candidate(key, f"{what} for arguments {args}: {src.strip().splitlines()[-1].strip()}", model, replay)


def run(rep: Any, tier: str) -> None:
    import mypyc.irbuild.ll_builder as LB
    import mypyc.lower.int_ops as LI
    import mypyc.primitives.int_ops as PI

    from vf import symx

    for m in (LB, LI, PI):
        rep.kernel(m.__name__, symx.source_hash(m.__file__))
    rep.bounds.append("K2: one-operation functions for + - * // % & | ^ << >> comparisons, unary ops on int (incl. literal operands at representation boundaries) and on i64/i32/i16/u8, conversions int <-> fixed width; all argument values (tagged words under the canonical-form invariant / full fixed-width ranges)")
    rep.assumptions.append("K2: runtime helpers are contracts (vf/irsem.py CONTRACTS): exact Python arithmetic on the denoted values with the exception they set; bitwise results on two symbolic operands are uninterpreted (same symbol on both sides)")
    run_corpus(rep, tv.one_op_programs(), "K2 one-operation functions (mypyc IR vs Python semantics)", "mypyc IR")
