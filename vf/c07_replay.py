"""C07 W4: import errors recorded by the coordinator are replayed in a worker under the options of
the module they belong to.

`build_worker.worker.load_states` (from /repo's source on every run) is executed on a duck graph of
2-3 modules that one worker receives as a batch.  Solver-chosen per module: whether the module's own
options disable the recorded error's code (an inline `# mypy: disable-error-code=...` or a per-module
config section), whether it arrives with serialised raw data or has to be parsed, whether the
coordinator recorded an import error for it, and whether the import line carries a
`# type: ignore`; solver-chosen for the batch: the order of the modules.  `manager.errors` is a real
`Errors` object (its filtering consults `Errors.options`, i.e. the options installed by the last
`set_file`), parsing is a stub that, like `State.parse_file`, installs the parsed module's file and
options.

Oracle (what the sequential build does in `module_not_found`, which files the error under the importing
module with that module's options): the replayed error is shown iff its module's own options leave the
code enabled and no ignore comment covers the line -- independent of the other modules of the batch
and of the batch order.
"""

from __future__ import annotations

import itertools
from typing import Any

from vf.symx import Ctx, Kernel


class _GC:
    @staticmethod
    def collect() -> None:
        pass

    disable = enable = freeze = collect


def run(rep: Any, tier: str) -> None:
    import mypy.build  # noqa: F401
    from mypy import errorcodes as codes
    from mypy.errors import ErrorInfo, Errors
    from mypy.options import Options

    K = Kernel("mypy.build_worker.worker", ["load_states"], closure=False, extra_globals={"gc": _GC})
    rep.kernels_from(K)
    load_states = K["load_states"]
    n_mod = 2 if tier == "quick" else 3
    ids = ["ma", "mb", "mc"][:n_mod]
    perms = list(itertools.permutations(ids))
    ctx = Ctx(max_paths=500000)
    found: dict = {}
    n = {"runs": 0, "shown": 0, "dropped": 0, "mixed_batches": 0}

    def body(c: Ctx) -> None:
        order = list(perms[c.choose("batch_order", len(perms))])
        base = Options()
        errors = Errors(base)
        cfg = {}
        for m in ids:
            cfg[m] = {
                "disabled": bool(c.bool(f"{m}_disables_code")),
                "raw": bool(c.bool(f"{m}_has_raw_data")),
                "err": bool(c.bool(f"{m}_has_import_error")),
                "ignore": bool(c.bool(f"{m}_import_line_ignored")),
            }

        class Imp:
            line = 2

        class Tree:
            def __init__(self, m: str) -> None:
                self.imports = [Imp()]
                self.ignored_lines = {2: ["import-not-found"]} if cfg[m]["ignore"] else {}

        class Opt:
            """per-module options: clone_for_module returns the module's real Options"""

            def __init__(self, m: str) -> None:
                self.m = m

            def clone_for_module(self, mid: str) -> Any:
                o = Options()
                if cfg[mid]["disabled"]:
                    o.disabled_error_codes = {codes.IMPORT_NOT_FOUND}
                return o

        class St:
            def __init__(self, m: str) -> None:
                self.id = m
                self.xpath = m + ".py"
                self.options = Opt(m)
                self.tree: Any = None
                self.manager = mgr

            def parse_file(self, raw_data: Any = None) -> None:
                # State.parse_file: installs the file and its options, records the ignored lines
                errors.set_file(self.xpath, self.id, self.options)
                self.tree = Tree(self.id)
                errors.set_file_ignored_lines(self.xpath, self.tree.ignored_lines, False)
                errors.set_skipped_lines(self.xpath, set())

        class Mgr:
            def __init__(self) -> None:
                self.errors = errors

            def parse_all(self, states: list, post_parse: bool = True) -> None:
                for s in states:
                    s.parse_file()

        mgr = Mgr()
        graph = {m: St(m) for m in ids}
        import_errors = {}
        for m in ids:
            if cfg[m]["err"]:
                import_errors[m] = [
                    ErrorInfo(
                        import_ctx=[], local_ctx=(None, None), line=2, column=0, end_line=2, end_column=8, severity="error",
                        message=f'Cannot find implementation or library stub for module named "nosuch_{m}"', code=codes.IMPORT_NOT_FOUND,
                        blocker=False, only_once=False, module=m, target=m, origin_span=[2],
                    )
                ]
        mod_data = {m: (b"", object() if cfg[m]["raw"] else None) for m in ids}
        load_states(order, graph, mgr, import_errors, mod_data)
        n["runs"] += 1
        if len({cfg[m]["disabled"] for m in ids}) > 1 and sum(cfg[m]["err"] for m in ids) >= 1:
            n["mixed_batches"] += 1
        for m in ids:
            if not cfg[m]["err"]:
                continue
            shown = any(i.severity == "error" and i.code is codes.IMPORT_NOT_FOUND for i in errors.error_info_map.get(m + ".py", []))
            want = not cfg[m]["disabled"] and not cfg[m]["ignore"]
            n["shown" if shown else "dropped"] += 1
            c.stats["assert_queries"] += 1
            if shown == want:
                c.stats["discharged"] += 1
            else:
                c.stats["refuted"] += 1
                key = ("a replayed import error is shown although its module disables the code" if shown else "a replayed import error is dropped although its module leaves the code enabled") + " (filtered under another module's options)"
                found.setdefault(key, (m, dict(cfg), order))
        # errors filed under the wrong file
        for m in ids:
            if not cfg[m]["err"] and errors.error_info_map.get(m + ".py"):
                c.stats["assert_queries"] += 1
                c.stats["refuted"] += 1
                found.setdefault("a replayed import error is filed under another module", (m, dict(cfg), order))

    ctx.explore(body)
    rep.add_ctx(f"W4 worker.load_states replays recorded import errors ({n_mod} modules per batch)", ctx, outcomes=dict(n))
    rep.twin("W4: shown and dropped replays and batches with differing per-module settings reached", n["shown"] > 0 and n["dropped"] > 0 and n["mixed_batches"] > 0)
    rep.bounds.append(f"W4: a batch of {n_mod} modules in every order; per module: code disabled by its own options or not, raw data or parse, 0/1 recorded import error, ignore comment on the import line or not")
    for key, (m, cfg, order) in found.items():
        rep.sample({"kernel": "load_states", "class": key, "module": m, "modules": cfg, "batch_order": order})
        rep.candidate("replay: " + key, f"module {m} in batch {order} with {cfg}", {"module": m, "order": order, "cfg": {k: v for k, v in cfg.items()}}, make_replay())


def make_replay() -> Any:
    def replay(d: str) -> tuple[bool, str]:
        """sequential vs -n 2 real runs on an import cycle whose members differ in an inline
        disable-error-code comment, under several hash seeds (batch order follows set order)"""
        import os
        import shutil
        import subprocess
        import sys
        import tempfile

        files = {
            "a.py": '# mypy: disable-error-code="import-not-found"\nimport nosuch_a\nimport b\n',
            "b.py": "import nosuch_b\nimport a\n",
        }
        for k, v in files.items():
            with open(os.path.join(d, k), "w") as f:
                f.write(v)
        outs = {}
        env = dict(os.environ)
        env.pop("PYTHONPATH", None)
        for mode in (["seq"], ["-n", "2"]):
            for seed in ("1", "2", "3", "4"):
                work = tempfile.mkdtemp(prefix="c07w4-")
                try:
                    for k, v in files.items():
                        with open(os.path.join(work, k), "w") as f:
                            f.write(v)
                    env["PYTHONHASHSEED"] = seed
                    flags = [] if mode == ["seq"] else mode
                    p = subprocess.run([sys.executable, "-m", "mypy", "--no-error-summary", "--cache-dir", os.path.join(work, "cache")] + flags + ["a.py", "b.py"], cwd=work, capture_output=True, text=True, env=env, timeout=600)
                    outs[(" ".join(mode), seed)] = (p.returncode, tuple(sorted(p.stdout.strip().splitlines())))
                finally:
                    shutil.rmtree(work, ignore_errors=True)
        distinct = set(outs.values())
        with open(os.path.join(d, "replay.txt"), "w") as f:
            for k, v in sorted(outs.items()):
                f.write(f"{k}: {v}\n")
        return len(distinct) > 1, f"{len(distinct)} distinct (status, diagnostics) over sequential and -n 2 runs: {sorted(distinct)[:3]}"

    return replay
