"""E3: LLVM IR (clang -O1 -S -emit-llvm of the real lib-rt sources) -> z3 terms.

Loop-free functions only (fails closed on a back edge).  Every SSA value becomes a z3
bit-vector term, phi nodes become ITEs over edge conditions, calls go to registered stubs
(uninterpreted functions = "the slow path, contract trusted"), nsw/nuw/exact flags, shift
amounts and division preconditions become separate no-UB obligations.

mul / sdiv / srem / udiv / urem can be abstracted (mode "axiom"): the result is a fresh
bit-vector constrained by integer-level axioms, which keeps z3 from bit-blasting 64-bit
multipliers and dividers (probed: bit-blasted floor division is `unknown` after minutes).
"""

from __future__ import annotations

import hashlib
import os
import re
import subprocess
from typing import Any, Callable

import z3

PY_INC = "/root/.pyenv/versions/3.12.1/include/python3.12"


class IRUnsupported(Exception):
    pass


def compile_ir(shim_src: str, workdir: str, repo: str = "/repo", opt: str = "-O1", extra: "list[str] | None" = None) -> str:
    c = os.path.join(workdir, "shim.c")
    ll = os.path.join(workdir, "shim.ll")
    with open(c, "w") as f:
        f.write(shim_src)
    cmd = ["clang", opt, "-S", "-emit-llvm", "-fno-discard-value-names", f"-I{PY_INC}", f"-I{repo}/mypyc/lib-rt", f"-I{repo}/mypyc/lib-rt/internal", "-Wno-everything", c, "-o", ll] + (extra or [])
    p = subprocess.run(cmd, capture_output=True, text=True)
    if p.returncode != 0:
        raise IRUnsupported("clang failed: " + p.stderr[-800:])
    with open(ll) as f:
        return f.read()


# ---------------------------------------------------------------------------------------
# parsing


class Instr:
    def __init__(self, dest: "str | None", op: str, text: str):
        self.dest = dest
        self.op = op
        self.text = text


class Block:
    def __init__(self, label: str):
        self.label = label
        self.instrs: list[Instr] = []


class Func:
    def __init__(self, name: str, ret: str, params: list[tuple[str, str]]):
        self.name = name
        self.ret = ret
        self.params = params
        self.blocks: list[Block] = []
        self.text = ""


_DEF = re.compile(r"^define\s+(?:[\w\(\)]+\s+)*?(void|i\d+|double|float|ptr|\{[^}]*\}|%[\w.]+)\s+@([\w.]+)\((.*?)\)\s*[^{]*\{\s*$")


_PTR = re.compile(r"(?:%[\w.]+|i\d+|double|float|void|ptr|\{[^{}]*\}|\[[^\[\]]*\])(?:\s*\([^()]*\))?\*+")


def parse_module(text: str) -> dict[str, Func]:
    funcs: dict[str, Func] = {}
    cur: "Func | None" = None
    blk: "Block | None" = None
    for raw in text.splitlines():
        # clang 14 prints typed pointers: normalise every pointer type to `ptr`
        raw = _PTR.sub("ptr", raw)
        line = raw.split(" ; ")[0].rstrip() if not raw.lstrip().startswith(";") else ""
        line = re.sub(r"(, ![\w.]+ ![\w.]+)+$", "", line)  # trailing metadata attachments (!prof, !tbaa, ...)
        if cur is None:
            if raw.startswith("define"):
                m = _DEF.match(raw.strip())
                if not m:
                    # a definition we cannot parse is only a problem if someone asks for it
                    nm = re.search(r"@([\w.]+)\(", raw)
                    if nm:
                        funcs[nm.group(1)] = Func(nm.group(1), "?", [])
                        cur = funcs[nm.group(1)]
                        cur.ret = "?unparsed"
                        blk = None
                    continue
                ret, name, params = m.group(1), m.group(2), m.group(3)
                ps: list[tuple[str, str]] = []
                if params.strip():
                    for i, p in enumerate(_split_args(params)):
                        toks = p.split()
                        ty = toks[0]
                        nm2 = toks[-1] if toks[-1].startswith("%") else f"%{i}"
                        ps.append((ty, nm2))
                cur = Func(name, ret, ps)
                funcs[name] = cur
                blk = Block("entry")
                cur.blocks.append(blk)
                cur.text = raw + "\n"
            continue
        cur.text += raw + "\n"
        if raw.startswith("}"):
            cur = None
            blk = None
            continue
        if cur.ret == "?unparsed":
            continue
        s = line.strip()
        if not s:
            continue
        m = re.match(r"^([\w.\-]+):", s)
        if m and not s.startswith("%"):
            if blk is not None and len(cur.blocks) == 1 and not blk.instrs:
                blk.label = m.group(1)  # the entry block carries an explicit label
                continue
            blk = Block(m.group(1))
            cur.blocks.append(blk)
            continue
        assert blk is not None
        dest = None
        body = s
        m = re.match(r"^(%[\w.\-]+)\s*=\s*(.*)$", s)
        if m:
            dest, body = m.group(1), m.group(2)
        body = re.sub(r"^(tail |musttail |notail )", "", body)
        op = body.split()[0]
        blk.instrs.append(Instr(dest, op, body))
    # the entry block's implicit label is the next unnamed number after the params
    for f in funcs.values():
        if f.blocks and f.ret != "?unparsed":
            n = len(f.params)
            if all(p[1] == f"%{i}" for i, p in enumerate(f.params)):
                f.blocks[0].label = str(n)
    return funcs


def _split_args(s: str) -> list[str]:
    out, depth, cur = [], 0, ""
    for ch in s:
        if ch in "([{<":
            depth += 1
        elif ch in ")]}>":
            depth -= 1
        if ch == "," and depth == 0:
            out.append(cur.strip())
            cur = ""
        else:
            cur += ch
    if cur.strip():
        out.append(cur.strip())
    return out


def width(ty: str) -> int:
    if ty == "ptr":
        return 64
    m = re.match(r"^i(\d+)$", ty)
    if not m:
        raise IRUnsupported("type " + ty)
    return int(m.group(1))


# ---------------------------------------------------------------------------------------
# symbolic execution


class Event:
    def __init__(self, kind: str, cond: Any, name: str, args: list, result: Any = None):
        self.kind = kind  # call | ub
        self.cond = cond
        self.name = name
        self.args = args
        self.result = result


class Result:
    def __init__(self) -> None:
        self.ret: Any = None
        self.ret_cases: list[tuple[Any, Any]] = []
        self.events: list[Event] = []
        self.axioms: list[Any] = []
        self.unreachable: list[Any] = []
        self.n_instr = 0
        self.mem: Any = None


def _sx(x: Any, to: int) -> Any:
    return z3.SignExt(to - x.size(), x) if to > x.size() else x


def _zx(x: Any, to: int) -> Any:
    return z3.ZeroExt(to - x.size(), x) if to > x.size() else x


class Executor:
    def __init__(self, funcs: dict[str, Func], stubs: "dict[str, Callable[..., Any]]", arith: str = "bv", inline: bool = True):
        self.funcs = funcs
        self.stubs = stubs
        self.arith = arith  # "bv" or "axiom"
        self.inline = inline
        self.fresh = 0

    def newvar(self, w: int, tag: str) -> Any:
        self.fresh += 1
        return z3.BitVec(f"{tag}!{self.fresh}", w)

    def run(self, name: str, args: list, mem: Any = None, pathcond: Any = None, res: "Result | None" = None, depth: int = 0) -> Result:
        f = self.funcs.get(name)
        if f is None or f.ret == "?unparsed" or not f.blocks:
            raise IRUnsupported(f"function {name} not available in the IR")
        if depth > 6:
            raise IRUnsupported("call depth")
        top = res is None
        res = res or Result()
        if mem is not None:
            res.mem = mem
        env: dict[str, Any] = {}
        for (ty, nm), a in zip(f.params, args):
            env[nm] = a
        labels = [b.label for b in f.blocks]
        idx = {l: i for i, l in enumerate(labels)}
        # edge conditions: (src, dst) -> cond
        incoming: dict[str, list[tuple[str, Any]]] = {l: [] for l in labels}
        blockcond: dict[str, Any] = {labels[0]: pathcond if pathcond is not None else z3.BoolVal(True)}
        memat: dict[str, Any] = {labels[0]: res.mem}
        rets: list[tuple[Any, Any]] = []
        for b in f.blocks:
            if b.label not in blockcond:
                ins = incoming[b.label]
                if not ins:
                    continue  # unreachable block
                blockcond[b.label] = z3.simplify(z3.Or(*[c for _, c in ins]))
                # memory merge
                m0 = None
                for src, c in ins:
                    ms = memat.get("out:" + src)
                    m0 = ms if m0 is None else z3.If(c, ms, m0)
                memat[b.label] = m0
            pc = blockcond[b.label]
            curmem = memat.get(b.label)
            for ins_ in b.instrs:
                res.n_instr += 1
                t = ins_.text
                op = ins_.op
                if op == "phi":
                    m = re.match(r"phi\s+(\S+)\s+(.*)$", t)
                    assert m
                    ty = m.group(1)
                    pairs = re.findall(r"\[\s*([^,\]]+)\s*,\s*%([\w.\-]+)\s*\]", m.group(2))
                    val = None
                    for v, lbl in pairs:
                        ec = [c for s_, c in incoming[b.label] if s_ == lbl]
                        if not ec:
                            continue
                        vt = self.val(v, ty, env)
                        val = vt if val is None else z3.If(z3.Or(*ec), vt, val)
                    if val is None:
                        raise IRUnsupported("phi without live incoming edge")
                    env[ins_.dest] = val  # type: ignore[index]
                elif op in ("add", "sub", "mul", "sdiv", "udiv", "srem", "urem", "shl", "lshr", "ashr", "and", "or", "xor"):
                    m = re.match(rf"{op}\s+((?:nsw |nuw |exact |disjoint )*)(\S+)\s+([^,]+),\s*(.+)$", t)
                    assert m, t
                    flags, ty = m.group(1).split(), m.group(2)
                    a, b2 = self.val(m.group(3).strip(), ty, env), self.val(m.group(4).strip(), ty, env)
                    env[ins_.dest] = self.binop(op, flags, ty, a, b2, pc, res)  # type: ignore[index]
                elif op == "icmp":
                    m = re.match(r"icmp\s+(?:samesign\s+)?(\w+)\s+(\S+)\s+([^,]+),\s*(.+)$", t)
                    assert m, t
                    pred, ty = m.group(1), m.group(2)
                    a, b2 = self.val(m.group(3).strip(), ty, env), self.val(m.group(4).strip(), ty, env)
                    env[ins_.dest] = self.icmp(pred, ty, a, b2)  # type: ignore[index]
                elif op == "select":
                    m = re.match(r"select\s+i1\s+([^,]+),\s*(\S+)\s+([^,]+),\s*(\S+)\s+(.+)$", t)
                    assert m, t
                    cnd = self.val(m.group(1).strip(), "i1", env)
                    a, b2 = self.val(m.group(3).strip(), m.group(2), env), self.val(m.group(5).strip(), m.group(4), env)
                    env[ins_.dest] = z3.If(self.truth(cnd), a, b2)  # type: ignore[index]
                elif op in ("zext", "sext", "trunc", "ptrtoint", "inttoptr", "bitcast"):
                    m = re.match(rf"{op}\s+(?:nneg |nuw |nsw )*(\S+)\s+(.+?)\s+to\s+(\S+)$", t)
                    assert m, t
                    a = self.val(m.group(2).strip(), m.group(1), env)
                    env[ins_.dest] = self.cast(op, a, width(m.group(1)), width(m.group(3)))  # type: ignore[index]
                elif op == "freeze":
                    m = re.match(r"freeze\s+(\S+)\s+(.+)$", t)
                    assert m
                    env[ins_.dest] = self.val(m.group(2).strip(), m.group(1), env)  # type: ignore[index]
                elif op == "call":
                    m = re.match(r"call\s+(?:[\w\(\)]+\s+)*?(void|i\d+|double|ptr|\{[^}]*\})\s+(?:\([^)]*\)\s+)?@([\w.]+)\((.*)\)", t)
                    indirect = None
                    if not m:
                        # call through a function pointer held in a register: an uninterpreted call of (pointer, args)
                        m = re.match(r"call\s+(?:[\w\(\)]+\s+)*?(void|i\d+|double|ptr)\s+(?:\([^)]*\)\s+)?(%[\w.\-]+)\((.*)\)", t)
                        if not m or "__indirect__" not in self.stubs:
                            raise IRUnsupported("call: " + t)
                        indirect = self.val(m.group(2), "ptr", env)
                    rty, callee, argstr = m.group(1), m.group(2), m.group(3)
                    cargs = []
                    for a_ in _split_args(argstr):
                        toks = a_.split()
                        aty = toks[0]
                        gm = re.search(r"(@[\w.]+)", a_)
                        if gm and ("getelementptr" in a_ or "bitcast" in a_ or toks[-1].startswith("@")):
                            cargs.append(self.global_value(gm.group(1), "ptr"))  # constant expression over a global
                        else:
                            cargs.append(self.val(toks[-1], aty, env))
                    if indirect is not None:
                        callee, cargs = "__indirect__", [indirect] + cargs
                    rv = self.call(callee, rty, cargs, pc, res, depth, curmem)
                    if isinstance(rv, tuple) and rv and isinstance(rv[0], str) and rv[0] == "__mem__":
                        curmem, rv = rv[1], rv[2]
                        res.mem = curmem
                    if ins_.dest is not None:
                        env[ins_.dest] = rv
                elif op == "extractvalue":
                    m = re.match(r"extractvalue\s+\{[^}]*\}\s+(%[\w.\-]+),\s*(\d+)$", t)
                    assert m, t
                    env[ins_.dest] = env[m.group(1)][int(m.group(2))]  # type: ignore[index]
                elif op == "getelementptr":
                    m = re.match(r"getelementptr\s+(?:inbounds |nuw |nusw )*(\S+),\s*ptr\s+([^,]+)((?:,\s*i\d+\s+[^,]+)+)$", t)
                    if not m:
                        raise IRUnsupported("gep: " + t)
                    elty = m.group(1)
                    base = self.val(m.group(2).strip(), "ptr", env)
                    idxs = re.findall(r"(i\d+)\s+([^,]+)", m.group(3))
                    if len(idxs) != 1:
                        if all(v.strip() == "0" for _, v in idxs):
                            env[ins_.dest] = base  # type: ignore[index]  # a cast to the first member: same address
                            continue
                        raise IRUnsupported("multi-index gep: " + t)
                    scale = {"i8": 1, "i16": 2, "i32": 4, "i64": 8, "ptr": 8, "double": 8}.get(elty)
                    if scale is None:
                        raise IRUnsupported("gep element type " + elty)
                    iv = _sx(self.val(idxs[0][1].strip(), idxs[0][0], env), 64)
                    env[ins_.dest] = base + iv * scale  # type: ignore[index]
                elif op == "load":
                    m = re.match(r"load\s+(\S+),\s*ptr\s+([^,]+)", t)
                    assert m, t
                    ptok = m.group(2).strip()
                    if ptok.startswith("@"):
                        # load of a global (e.g. PyExc_ZeroDivisionError): an opaque constant per global
                        env[ins_.dest] = self.global_value(ptok, m.group(1))  # type: ignore[index]
                        continue
                    cm = re.match(r"load\s+(\S+),\s*ptr\s+((?:bitcast|getelementptr)\b.*@[\w.]+.*?\))\s*(?:,\s*align.*)?$", t)
                    if cm:
                        # load of a field of a global (e.g. PyLong_Type.tp_hash): an opaque constant per field expression
                        env[ins_.dest] = self.global_value("field:" + re.sub(r"\s+", " ", cm.group(2)), cm.group(1))  # type: ignore[index]
                        continue
                    if curmem is None:
                        raise IRUnsupported("load without a memory model: " + t)
                    p = self.val(ptok, "ptr", env)
                    nbytes = width(m.group(1)) // 8
                    bytes_ = [z3.Select(curmem, p + k) for k in range(nbytes)]
                    env[ins_.dest] = z3.Concat(*reversed(bytes_)) if nbytes > 1 else bytes_[0]  # type: ignore[index]
                elif op == "store":
                    m = re.match(r"store\s+(\S+)\s+([^,]+),\s*ptr\s+([^,]+)", t)
                    assert m, t
                    if curmem is None:
                        raise IRUnsupported("store without a memory model: " + t)
                    v = self.val(m.group(2).strip(), m.group(1), env)
                    p = self.val(m.group(3).strip(), "ptr", env)
                    for k in range(v.size() // 8):
                        curmem = z3.Store(curmem, p + k, z3.Extract(8 * k + 7, 8 * k, v))
                    res.mem = curmem
                elif op == "br":
                    m = re.match(r"br\s+i1\s+([^,]+),\s*label\s+%([\w.\-]+),\s*label\s+%([\w.\-]+)", t)
                    if m:
                        cnd = self.truth(self.val(m.group(1).strip(), "i1", env))
                        for lbl, ec in ((m.group(2), cnd), (m.group(3), z3.Not(cnd))):
                            if idx[lbl] <= idx[b.label]:
                                raise IRUnsupported(f"back edge {b.label}->{lbl} (loop) in {name}")
                            incoming[lbl].append((b.label, z3.And(pc, ec)))
                    else:
                        m = re.match(r"br\s+label\s+%([\w.\-]+)", t)
                        assert m, t
                        lbl = m.group(1)
                        if idx[lbl] <= idx[b.label]:
                            raise IRUnsupported(f"back edge {b.label}->{lbl} (loop) in {name}")
                        incoming[lbl].append((b.label, pc))
                    memat["out:" + b.label] = curmem
                elif op == "switch":
                    m = re.match(r"switch\s+(\S+)\s+([^,]+),\s*label\s+%([\w.\-]+)\s*\[(.*)\]", t)
                    if not m:
                        raise IRUnsupported("switch: " + t)
                    v = self.val(m.group(2).strip(), m.group(1), env)
                    cases = re.findall(r"(\S+)\s+(-?\d+),\s*label\s+%([\w.\-]+)", m.group(4))
                    nots = []
                    for cty, cv, lbl in cases:
                        ec = v == int(cv)
                        nots.append(z3.Not(ec))
                        incoming[lbl].append((b.label, z3.And(pc, ec)))
                    incoming[m.group(3)].append((b.label, z3.And(pc, *nots)))
                    memat["out:" + b.label] = curmem
                elif op == "ret":
                    m = re.match(r"ret\s+(\S+)(?:\s+(.+))?$", t)
                    assert m, t
                    if m.group(1) == "void":
                        rets.append((pc, None))
                    else:
                        rets.append((pc, self.val(m.group(2).strip(), m.group(1), env)))
                    memat["out:" + b.label] = curmem
                    memat.setdefault("rets", []).append((pc, curmem))
                elif op == "unreachable":
                    res.unreachable.append(pc)
                else:
                    raise IRUnsupported(f"instruction {op}: {t}")
        val = None
        for pc, v in rets:
            if v is None:
                continue
            val = v if val is None else z3.If(pc, v, val)
        out = res if top else Result()
        if not top:
            out = res
        res_ret = val
        # merged memory at return
        rm = None
        for pc, m_ in memat.get("rets", []):
            rm = m_ if rm is None else z3.If(pc, m_, rm)
        if top:
            res.ret = res_ret
            res.ret_cases = rets
            res.mem = rm
            return res
        r2 = Result()
        r2.ret = res_ret
        r2.mem = rm
        return r2

    def global_value(self, name: str, ty: str) -> Any:
        h = int(hashlib.sha256(name.encode()).hexdigest()[:10], 16)
        self.globals_seen = getattr(self, "globals_seen", {})
        self.globals_seen[h * 16 + 0x1000_0000_0000] = name
        v = h * 16 + 0x1000_0000_0000
        return z3.IntVal(v) if self.arith == "int" else z3.BitVecVal(v, width(ty))

    # -- domain hooks (bit-vector domain)
    def icmp(self, pred: str, ty: str, a: Any, b: Any) -> Any:
        cmpf = {"eq": lambda x, y: x == y, "ne": lambda x, y: x != y, "slt": lambda x, y: x < y, "sle": lambda x, y: x <= y, "sgt": lambda x, y: x > y, "sge": lambda x, y: x >= y, "ult": z3.ULT, "ule": z3.ULE, "ugt": z3.UGT, "uge": z3.UGE}[pred]
        return z3.If(cmpf(a, b), z3.BitVecVal(1, 1), z3.BitVecVal(0, 1))

    def truth(self, c: Any) -> Any:
        return c == 1

    def cast(self, op: str, a: Any, wfrom: int, wto: int) -> Any:
        if op == "zext":
            return _zx(a, wto)
        if op == "sext":
            return _sx(a, wto)
        if op == "trunc":
            return z3.Extract(wto - 1, 0, a)
        return a

    # -- values
    def val(self, tok: str, ty: str, env: dict[str, Any]) -> Any:
        tok = tok.strip()
        if tok.startswith("%"):
            if tok not in env:
                raise IRUnsupported("use of undefined value " + tok)
            return env[tok]
        if tok in ("undef", "poison"):
            return self.newvar(width(ty), "undef")
        if tok == "true":
            return z3.BitVecVal(1, 1)
        if tok == "false":
            return z3.BitVecVal(0, 1)
        if tok == "null":
            return z3.BitVecVal(0, 64)
        if re.match(r"^-?\d+$", tok):
            return z3.BitVecVal(int(tok), width(ty))
        if tok.startswith("@"):
            # address of a global: an opaque distinct constant
            h = int(hashlib.sha256(tok.encode()).hexdigest()[:12], 16)
            return z3.BitVecVal(0x7000_0000_0000 + h * 16, 64)
        raise IRUnsupported("operand " + tok)

    # -- arithmetic
    def binop(self, op: str, flags: list[str], ty: str, a: Any, b: Any, pc: Any, res: Result) -> Any:
        w = a.size()

        def ub(cond_ok: Any, what: str) -> None:
            res.events.append(Event("ub", z3.And(pc, z3.Not(cond_ok)), what, [a, b]))

        if op == "add":
            r = a + b
            if "nsw" in flags:
                ub(z3.BVAddNoOverflow(a, b, True) if True else None, "add nsw overflow")
                ub(z3.BVAddNoUnderflow(a, b), "add nsw underflow")
            if "nuw" in flags:
                ub(z3.BVAddNoOverflow(a, b, False), "add nuw overflow")
            return r
        if op == "sub":
            r = a - b
            if "nsw" in flags:
                ub(z3.BVSubNoOverflow(a, b), "sub nsw overflow")
                ub(z3.BVSubNoUnderflow(a, b, True), "sub nsw underflow")
            if "nuw" in flags:
                ub(z3.BVSubNoUnderflow(a, b, False), "sub nuw underflow")
            return r
        if op == "mul":
            if self.arith == "axiom" and w >= 32:
                r = self.newvar(w, "mul")
                ai, bi, ri = z3.BV2Int(a, True), z3.BV2Int(b, True), z3.BV2Int(r, True)
                # r = a*b mod 2^w  <=>  exists k. a*b = r + k*2^w
                k = z3.Int(f"mulk!{self.fresh}")
                res.axioms.append(ai * bi == ri + k * (2**w))
                if "nsw" in flags:
                    res.events.append(Event("ub", z3.And(pc, k != 0), "mul nsw overflow", [a, b]))
                return r
            r = a * b
            if "nsw" in flags:
                ub(z3.And(z3.BVMulNoOverflow(a, b, True), z3.BVMulNoUnderflow(a, b)), "mul nsw overflow")
            if "nuw" in flags:
                ub(z3.BVMulNoOverflow(a, b, False), "mul nuw overflow")
            return r
        if op in ("sdiv", "srem"):
            ub(b != 0, f"{op} by zero")
            ub(z3.Not(z3.And(a == z3.BitVecVal(1 << (w - 1), w), b == z3.BitVecVal(-1, w))), f"{op} INT_MIN by -1")
            if self.arith == "axiom" and w >= 32:
                q = self.newvar(w, "sdivq")
                r_ = self.newvar(w, "sdivr")
                ai, bi, qi, ri = (z3.BV2Int(x, True) for x in (a, b, q, r_))
                absb = z3.If(bi >= 0, bi, -bi)
                absr = z3.If(ri >= 0, ri, -ri)
                # C truncating division: a = q*b + r, |r| < |b|, r has the sign of a (or is 0)
                res.axioms.append(z3.Implies(z3.And(bi != 0, z3.Not(z3.And(ai == -(2 ** (w - 1)), bi == -1))), z3.And(ai == qi * bi + ri, absr < absb, z3.Or(ri == 0, (ri > 0) == (ai > 0)))))
                return q if op == "sdiv" else r_
            return (a / b) if op == "sdiv" else z3.SRem(a, b)
        if op in ("udiv", "urem"):
            ub(b != 0, f"{op} by zero")
            return z3.UDiv(a, b) if op == "udiv" else z3.URem(a, b)
        if op in ("shl", "lshr", "ashr"):
            ub(z3.ULT(b, w), f"{op} amount >= width")
            if op == "shl":
                r = a << b
                if "nsw" in flags:
                    ub((r >> b) == a, "shl nsw overflow")
                if "nuw" in flags:
                    ub(z3.LShR(r, b) == a, "shl nuw overflow")
                return r
            if op == "lshr":
                if "exact" in flags:
                    ub((z3.LShR(a, b) << b) == a, "lshr exact")
                return z3.LShR(a, b)
            if "exact" in flags:
                ub(((a >> b) << b) == a, "ashr exact")
            return a >> b
        if op == "and":
            return a & b
        if op == "or":
            if "disjoint" in flags:
                ub((a & b) == 0, "or disjoint")
            return a | b
        if op == "xor":
            return a ^ b
        raise IRUnsupported(op)

    # -- calls
    def call(self, callee: str, rty: str, args: list, pc: Any, res: Result, depth: int, mem: Any) -> Any:
        m = re.match(r"llvm\.(sadd|ssub|smul|uadd|usub|umul)\.with\.overflow\.i(\d+)$", callee)
        if m:
            kind, w = m.group(1), int(m.group(2))
            a, b = args
            signed = kind[0] == "s"
            if kind.endswith("add"):
                r = a + b
                ok = z3.And(z3.BVAddNoOverflow(a, b, signed), z3.BVAddNoUnderflow(a, b)) if signed else z3.BVAddNoOverflow(a, b, False)
            elif kind.endswith("sub"):
                r = a - b
                ok = z3.And(z3.BVSubNoOverflow(a, b), z3.BVSubNoUnderflow(a, b, True)) if signed else z3.BVSubNoUnderflow(a, b, False)
            else:
                r = a * b
                ok = z3.And(z3.BVMulNoOverflow(a, b, True), z3.BVMulNoUnderflow(a, b)) if signed else z3.BVMulNoOverflow(a, b, False)
            return (r, z3.If(ok, z3.BitVecVal(0, 1), z3.BitVecVal(1, 1)))
        m = re.match(r"llvm\.(smax|smin|umax|umin|abs)\.i(\d+)$", callee)
        if m:
            k = m.group(1)
            a = args[0]
            if k == "abs":
                return z3.If(a < 0, -a, a)
            b = args[1]
            return {"smax": z3.If(a > b, a, b), "smin": z3.If(a < b, a, b), "umax": z3.If(z3.UGT(a, b), a, b), "umin": z3.If(z3.ULT(a, b), a, b)}[k]
        if callee.startswith("llvm.expect") or callee.startswith("llvm.assume") or callee.startswith("llvm.lifetime") or callee.startswith("llvm.dbg"):
            return args[0] if args else None
        if callee in self.stubs:
            return self.stubs[callee](self, args, pc, res, mem)
        if self.inline and callee in self.funcs and self.funcs[callee].blocks and self.funcs[callee].ret != "?unparsed":
            sub = self.run(callee, args, mem=mem, pathcond=pc, res=res, depth=depth + 1)
            if mem is not None:
                return ("__mem__", sub.mem, sub.ret)
            return sub.ret
        raise IRUnsupported(f"call to {callee} has no stub and no body")


def uf_stub(name: str, ret_width: int = 64) -> Callable[..., Any]:
    """Slow-path callee: an uninterpreted function of its arguments; the call is recorded."""

    def stub(ex: Executor, args: list, pc: Any, res: Result, mem: Any) -> Any:
        f = z3.Function(name, *[a.sort() for a in args], z3.BitVecSort(ret_width))
        r = f(*args)
        res.events.append(Event("call", pc, name, args, r))
        return r

    return stub


def func_hash(f: Func) -> str:
    return hashlib.sha256(f.text.encode()).hexdigest()[:16]


# ---------------------------------------------------------------------------------------
# integer domain: every value is a z3 Int holding the *signed* value of the register (i1: 0/1).
# Wrap-around is explicit (mod by constants); multiplication/division are native Int
# operations, so z3's arithmetic solver decides the division kernels that bit-blasting cannot.


def wrap(x: Any, w: int) -> Any:
    if w == 1:
        return x % 2
    return ((x + 2 ** (w - 1)) % (2**w)) - 2 ** (w - 1)


def _mask_and(xu: Any, cu: int, w: int) -> Any:
    """(xu & cu) for an unsigned-view Int xu and a constant mask, as a sum over runs of set bits."""
    out: Any = z3.IntVal(0)
    i = 0
    while i < w:
        if (cu >> i) & 1:
            j = i
            while j < w and (cu >> j) & 1:
                j += 1
            out = out + ((xu % (2**j)) - (xu % (2**i)))
            i = j
        else:
            i += 1
    return out


class IntExecutor(Executor):
    def __init__(self, funcs: dict, stubs: dict, inline: bool = True):
        super().__init__(funcs, stubs, arith="int", inline=inline)
        self.range_axioms: list = []
        self._bitufs: dict = {}

    def newvar(self, w: int, tag: str) -> Any:
        self.fresh += 1
        v = z3.Int(f"{tag}!{self.fresh}")
        if w == 1:
            self.range_axioms.append(z3.And(v >= 0, v <= 1))
        else:
            self.range_axioms.append(z3.And(v >= -(2 ** (w - 1)), v < 2 ** (w - 1)))
        return v

    def val(self, tok: str, ty: str, env: dict) -> Any:
        tok = tok.strip()
        if tok.startswith("%"):
            if tok not in env:
                raise IRUnsupported("use of undefined value " + tok)
            return env[tok]
        if tok in ("undef", "poison"):
            return self.newvar(width(ty), "undef")
        if tok == "true":
            return z3.IntVal(1)
        if tok == "false":
            return z3.IntVal(0)
        if tok == "null":
            return z3.IntVal(0)
        if re.match(r"^-?\d+$", tok):
            w = width(ty)
            v = int(tok)
            if w == 1:
                return z3.IntVal(v % 2)
            v = ((v + 2 ** (w - 1)) % (2**w)) - 2 ** (w - 1)
            return z3.IntVal(v)
        if tok.startswith("@"):
            return self.global_value(tok, "ptr")
        raise IRUnsupported("operand " + tok)

    def icmp(self, pred: str, ty: str, a: Any, b: Any) -> Any:
        w = width(ty)
        if pred[0] == "u":
            a, b = a % (2**w), b % (2**w)
        f = {"eq": lambda x, y: x == y, "ne": lambda x, y: x != y, "slt": lambda x, y: x < y, "sle": lambda x, y: x <= y, "sgt": lambda x, y: x > y, "sge": lambda x, y: x >= y, "ult": lambda x, y: x < y, "ule": lambda x, y: x <= y, "ugt": lambda x, y: x > y, "uge": lambda x, y: x >= y}[pred]
        return z3.If(f(a, b), z3.IntVal(1), z3.IntVal(0))

    def truth(self, c: Any) -> Any:
        return c == 1

    def cast(self, op: str, a: Any, wfrom: int, wto: int) -> Any:
        if op == "zext":
            return a if wfrom == 1 else a % (2**wfrom)
        if op == "sext":
            return z3.If(a == 1, z3.IntVal(-1), z3.IntVal(0)) if wfrom == 1 else a
        if op == "trunc":
            return wrap(a, wto)
        return a

    def _const(self, x: Any) -> "int | None":
        x = z3.simplify(x)
        return x.as_long() if z3.is_int_value(x) else None

    def _bituf(self, name: str, a: Any, b: Any, w: int, res: Result) -> Any:
        f = self._bitufs.setdefault(name, z3.Function("bit" + name, z3.IntSort(), z3.IntSort(), z3.IntSort()))
        r = f(a, b)
        lo = {"and": (a % 2) * (b % 2), "or": z3.If(z3.Or(a % 2 == 1, b % 2 == 1), 1, 0), "xor": (a + b) % 2}[name]
        neg = {"and": z3.And(a < 0, b < 0), "or": z3.Or(a < 0, b < 0), "xor": (a < 0) != (b < 0)}[name]
        res.axioms.append(z3.And(r % 2 == lo, (r < 0) == neg, r >= -(2 ** (w - 1)), r < 2 ** (w - 1)))
        # magnitude lemmas for non-negative operands (true of two's-complement bitwise ops)
        nn = z3.And(a >= 0, b >= 0)
        mx = z3.If(a >= b, a, b)
        mn = z3.If(a >= b, b, a)
        if name == "or":
            res.axioms.append(z3.Implies(nn, z3.And(r >= mx, r <= a + b)))
        elif name == "and":
            res.axioms.append(z3.Implies(nn, z3.And(r >= 0, r <= mn)))
        else:
            res.axioms.append(z3.Implies(nn, z3.And(r >= 0, r <= a + b)))
        return r

    def binop(self, op: str, flags: list, ty: str, a: Any, b: Any, pc: Any, res: Result) -> Any:
        w = width(ty)
        lo, hi = (0, 2) if w == 1 else (-(2 ** (w - 1)), 2 ** (w - 1))

        def ub(cond_ok: Any, what: str) -> None:
            res.events.append(Event("ub", z3.And(pc, z3.Not(cond_ok)), what, [a, b]))

        def inrange(x: Any) -> Any:
            return z3.And(x >= lo, x < hi)

        if w == 1:
            if op == "and":
                return z3.If(z3.And(a == 1, b == 1), z3.IntVal(1), z3.IntVal(0))
            if op == "or":
                return z3.If(z3.Or(a == 1, b == 1), z3.IntVal(1), z3.IntVal(0))
            if op == "xor":
                return z3.If(a != b, z3.IntVal(1), z3.IntVal(0))
            raise IRUnsupported(f"i1 {op}")
        if op in ("add", "sub", "mul"):
            x = {"add": a + b, "sub": a - b, "mul": a * b}[op]
            if "nsw" in flags:
                ub(inrange(x), f"{op} nsw overflow")
            if "nuw" in flags:
                au, bu = a % (2**w), b % (2**w)
                xu = {"add": au + bu, "sub": au - bu, "mul": au * bu}[op]
                ub(z3.And(xu >= 0, xu < 2**w), f"{op} nuw overflow")
            return wrap(x, w)
        if op in ("sdiv", "srem"):
            ub(b != 0, f"{op} by zero")
            ub(z3.Not(z3.And(a == lo, b == -1)), f"{op} INT_MIN by -1")
            q = self.newvar(w, "sdivq")
            r_ = self.newvar(w, "sdivr")
            absb = z3.If(b >= 0, b, -b)
            absr = z3.If(r_ >= 0, r_, -r_)
            res.axioms.append(z3.Implies(z3.And(b != 0, z3.Not(z3.And(a == lo, b == -1))), z3.And(a == q * b + r_, absr < absb, z3.Or(r_ == 0, (r_ > 0) == (a > 0)))))
            self.divs = getattr(self, "divs", [])
            self.divs.append((a, b, q, r_))
            return q if op == "sdiv" else r_
        if op in ("udiv", "urem"):
            ub(b != 0, f"{op} by zero")
            au, bu = a % (2**w), b % (2**w)
            q = self.newvar(w + 1, "udivq")
            r_ = self.newvar(w + 1, "udivr")
            res.axioms.append(z3.Implies(bu != 0, z3.And(au == q * bu + r_, r_ >= 0, r_ < bu, q >= 0)))
            return wrap(q if op == "udiv" else r_, w)
        if op in ("shl", "lshr", "ashr"):
            k = self._const(b)
            ub(z3.And(b >= 0, b < w), f"{op} amount >= width")
            if k is None:
                raise IRUnsupported(f"{op} by a non-constant amount in the integer domain")
            if op == "shl":
                x = a * (2**k)
                if "nsw" in flags:
                    ub(inrange(x), "shl nsw overflow")
                return wrap(x, w)
            if op == "ashr":
                return a / (2**k)
            return wrap((a % (2**w)) / (2**k), w)
        if op in ("and", "or", "xor"):
            ca, cb = self._const(a), self._const(b)
            if ca is not None and cb is None:
                a, b, ca, cb = b, a, cb, ca
            if cb is not None:
                xu = a % (2**w)
                cu = cb % (2**w)
                andv = _mask_and(xu, cu, w)
                if op == "and":
                    return wrap(andv, w)
                if op == "or":
                    return wrap(xu + cu - andv, w)
                return wrap(xu + cu - 2 * andv, w)
            return self._bituf(op, a, b, w, res)
        raise IRUnsupported(op)

    def call(self, callee: str, rty: str, args: list, pc: Any, res: Result, depth: int, mem: Any) -> Any:
        m = re.match(r"llvm\.(sadd|ssub|smul)\.with\.overflow\.i(\d+)$", callee)
        if m:
            kind, w = m.group(1), int(m.group(2))
            a, b = args
            x = {"sadd": a + b, "ssub": a - b, "smul": a * b}[kind]
            r = wrap(x, w)
            return (r, z3.If(x == r, z3.IntVal(0), z3.IntVal(1)))
        if callee.startswith("llvm.expect") or callee.startswith("llvm.assume"):
            return args[0] if args else None
        if callee in self.stubs:
            return self.stubs[callee](self, args, pc, res, mem)
        if self.inline and callee in self.funcs and self.funcs[callee].blocks and self.funcs[callee].ret != "?unparsed":
            sub = self.run(callee, args, mem=mem, pathcond=pc, res=res, depth=depth + 1)
            return sub.ret
        raise IRUnsupported(f"call to {callee} has no stub and no body")


def int_uf_stub(name: str) -> Callable[..., Any]:
    def stub(ex: Executor, args: list, pc: Any, res: Result, mem: Any) -> Any:
        f = z3.Function(name, *[z3.IntSort() for _ in args], z3.IntSort())
        r = f(*args)
        res.events.append(Event("call", pc, name, args, r))
        res.axioms.append(z3.And(r >= -(2**63), r < 2**63))
        return r

    return stub
