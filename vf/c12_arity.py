"""C12 K1: argument binding.  The real argmap.map_actuals_to_formals and
ExpressionChecker.check_argument_count / check_for_extra_actual_arguments / is_duplicate_mapping
run on solver-chosen signatures and call shapes built from real CallableType / TupleType /
TypedDictType objects; the oracle is CPython itself binding the same call to a function with the
same signature.

Bound: only *precise* actuals -- positional, keyword, `*` of a fixed-length tuple, `**` of a
TypedDict whose keys are all required -- so that CPython's outcome is determined by the shapes.
Actuals of unknown length (`*list`, `**dict`) are outside: mypy's rule there is a may-analysis.
"""

from __future__ import annotations

import multiprocessing as mp
from typing import Any

from vf.symx import Ctx, Kernel

NAMES = ["a", "b", "c"]


def signatures(max_formals: int) -> list[list[tuple[str, str]]]:
    """every valid parameter list over NAMES: (kind, name) with kind in POS OPT STAR NAMED NAMED_OPT STAR2"""
    out: list[list[tuple[str, str]]] = []

    def rec(sig: list, stage: int, used: int) -> None:
        out.append(list(sig))
        if used >= max_formals:
            return
        nm = NAMES[used]
        # stage 0: POS allowed; 1: OPT allowed (no POS after OPT); 2: after * or first named; 3: after **
        if stage <= 0:
            rec(sig + [("POS", nm)], 0, used + 1)
        if stage <= 1:
            rec(sig + [("OPT", nm)], 1, used + 1)
            rec(sig + [("STAR", nm)], 2, used + 1)
        if stage <= 2:
            # keyword-only parameters: after `*args`, or after a bare `*` (no ARG_STAR formal at all)
            rec(sig + [("NAMED", nm)], 2, used + 1)
            rec(sig + [("NAMED_OPT", nm)], 2, used + 1)
            rec(sig + [("STAR2", nm)], 3, used + 1)

    rec([], 0, 0)
    return out


def sig_source(sig: list[tuple[str, str]]) -> str:
    ps = []
    star_seen = False
    for k, n in sig:
        if k == "STAR":
            star_seen = True
        if k in ("NAMED", "NAMED_OPT") and not star_seen:
            ps.append("*")  # bare star: the following parameters are keyword-only
            star_seen = True
        ps.append({"POS": n, "OPT": n + "=0", "STAR": "*" + n, "NAMED": n, "NAMED_OPT": n + "=0", "STAR2": "**" + n}[k])
    return "def f(" + ", ".join(ps) + "): pass"


ACTUALS_QUICK = [("POS",), ("NAMED", "a"), ("NAMED", "b"), ("NAMED", "z"), ("STAR", 0), ("STAR", 1), ("STAR", 2), ("STAR2", ()), ("STAR2", ("a",)), ("STAR2", ("b",)), ("STAR2", ("z",)), ("STAR2", ("a", "b"))]
ACTUALS_THOROUGH = ACTUALS_QUICK + [("NAMED", "c"), ("STAR", 3), ("STAR2", ("c",)), ("STAR2", ("b", "c"))]


def call_source(actuals: list[tuple]) -> str:
    parts = []
    for a in actuals:
        if a[0] == "POS":
            parts.append("0")
        elif a[0] == "NAMED":
            parts.append(a[1] + "=0")
        elif a[0] == "STAR":
            parts.append("*" + repr(tuple([0] * a[1])))
        else:
            parts.append("**" + repr({k: 0 for k in a[1]}))
    return "f(" + ", ".join(parts) + ")"


_LAST_ERR: dict = {"msg": ""}


def cpython_outcome(sig: list, actuals: list) -> str:
    """'ok', 'TypeError' or 'SyntaxError' -- CPython binding the call"""
    ns: dict = {}
    exec(sig_source(sig), ns)
    try:
        code = compile(call_source(actuals), "<call>", "eval")
    except SyntaxError:
        return "SyntaxError"
    try:
        eval(code, ns)
    except TypeError as e:
        _LAST_ERR["msg"] = str(e)
        return "TypeError"
    return "ok"


def root_cause(sig: list, actuals: list, msg: str) -> str:
    """canonical description of a falsely accepted call: CPython's complaint with names and counts
    removed, plus the kinds of the actuals that supply the offending name (irrelevant extra actuals
    do not change the class)"""
    import re

    kind = re.sub(r"'[^']*'", "NAME", msg)
    kind = re.sub(r"\b\d+\b", "N", kind)
    kind = re.sub(r"^.*?f\(\) ", "", kind)
    if "positional" in kind:  # "takes N positional argument(s) but N was/were given": one class for singular and plural
        kind = re.sub(r"\barguments?\b", "argument(s)", kind).replace(" was given", " were given")
    m = re.search(r"'([^']*)'", msg)
    if not m or ("multiple values" not in msg and "unexpected keyword" not in msg):
        return kind
    name = m.group(1)
    suppliers = set()
    fnames = [n for _, n in sig]
    # positional supply: POS actuals and * items fill the positional parameters in order
    pos_params = [n for k, n in sig if k in ("POS", "OPT")]
    slot = 0
    for a in actuals:
        if a[0] == "POS":
            if slot < len(pos_params) and pos_params[slot] == name:
                suppliers.add("positional")
            slot += 1
        elif a[0] == "STAR":
            for _ in range(a[1]):
                if slot < len(pos_params) and pos_params[slot] == name:
                    suppliers.add("*tuple")
                slot += 1
        elif a[0] == "NAMED" and a[1] == name:
            suppliers.add("keyword")
        elif a[0] == "STAR2" and name in a[1]:
            suppliers.add("**TypedDict")
    fk = dict((n, k) for k, n in sig).get(name, "no such parameter") if name in fnames else "no such parameter"
    # a keyword that names *args, **kwargs or no parameter at all ends up in **kwargs
    fk = {"POS": "positional-or-keyword", "OPT": "positional-or-keyword", "NAMED": "keyword-only", "NAMED_OPT": "keyword-only"}.get(fk, "none (absorbed by **kwargs)")
    return f"{kind}; the name is supplied by {' + '.join(sorted(suppliers))}; parameter kind {fk}"


_FX: dict = {}


def fixture() -> Any:
    if "fx" not in _FX:
        from mypy.test.typefixture import TypeFixture

        _FX["fx"] = TypeFixture()
    return _FX["fx"]


def mypy_objects(sig: list, actuals: list) -> tuple:
    from mypy import nodes as N
    from mypy.types import AnyType, CallableType, TupleType, TypedDictType, TypeOfAny

    fx = fixture()
    anyt = AnyType(TypeOfAny.special_form)
    kinds = {"POS": N.ARG_POS, "OPT": N.ARG_OPT, "STAR": N.ARG_STAR, "NAMED": N.ARG_NAMED, "NAMED_OPT": N.ARG_NAMED_OPT, "STAR2": N.ARG_STAR2}
    callee = CallableType([anyt] * len(sig), [kinds[k] for k, _ in sig], [n for _, n in sig], anyt, fx.function, name="f")
    a_types: list = []
    a_kinds: list = []
    a_names: list = []
    for a in actuals:
        if a[0] == "POS":
            a_types.append(anyt)
            a_kinds.append(N.ARG_POS)
            a_names.append(None)
        elif a[0] == "NAMED":
            a_types.append(anyt)
            a_kinds.append(N.ARG_NAMED)
            a_names.append(a[1])
        elif a[0] == "STAR":
            a_types.append(TupleType([anyt] * a[1], fx.std_tuple))
            a_kinds.append(N.ARG_STAR)
            a_names.append(None)
        else:
            a_types.append(TypedDictType({k: anyt for k in a[1]}, set(a[1]), set(), fx.std_tuple))
            a_kinds.append(N.ARG_STAR2)
            a_names.append(None)
    return callee, a_types, a_kinds, a_names


class _Msg:
    def __init__(self) -> None:
        self.calls: list = []

    def __getattr__(self, name: str) -> Any:
        def rec(*a: Any, **k: Any) -> None:
            self.calls.append(name)

        return rec


def load() -> tuple:
    KA = Kernel("mypy.argmap", ["map_actuals_to_formals"], closure=False)
    KC = Kernel("mypy.checkexpr", ["ExpressionChecker.check_argument_count", "ExpressionChecker.check_for_extra_actual_arguments", "is_duplicate_mapping", "is_non_empty_tuple"], closure=False)
    KC.ns["is_duplicate_mapping"] = KC["is_duplicate_mapping"]
    KC.ns["is_non_empty_tuple"] = KC["is_non_empty_tuple"]
    return KA, KC


def mypy_outcome(KA: Any, KC: Any, sig: list, actuals: list) -> tuple[bool, list]:
    callee, a_types, a_kinds, a_names = mypy_objects(sig, actuals)
    f2a = KA["map_actuals_to_formals"](a_kinds, a_names, callee.arg_kinds, callee.arg_names, lambda i: a_types[i])

    class Chk:
        @staticmethod
        def in_checked_function() -> bool:
            return True

    class Self:
        msg = _Msg()
        chk = Chk
        check_for_extra_actual_arguments = KC["ExpressionChecker.check_for_extra_actual_arguments"]

        def missing_classvar_callable_note(self, *a: Any) -> None:
            pass

    s = Self()
    s.msg = _Msg()
    ok = KC["ExpressionChecker.check_argument_count"](s, callee, a_types, a_kinds, a_names, f2a, None)
    return bool(ok), s.msg.calls


def explore(arg: tuple) -> tuple:
    sigs, alphabet, max_actuals = arg
    KA, KC = load()
    found: dict = {}
    n = {"ok": 0, "rej": 0, "syntax": 0}
    ctx = Ctx(max_paths=5_000_000, deadline_s=6000)

    def body(c: Ctx) -> None:
        sig = sigs[c.choose("signature", len(sigs))] if len(sigs) > 1 else sigs[0]
        na = c.choose("n_actuals", max_actuals + 1)
        actuals = [alphabet[c.choose(f"actual{i}", len(alphabet))] for i in range(na)]
        want = cpython_outcome(sig, actuals)
        if want == "SyntaxError":
            n["syntax"] += 1
            return
        ok, msgs = mypy_outcome(KA, KC, sig, actuals)
        n["ok" if ok else "rej"] += 1
        c.stats["assert_queries"] += 1
        if ok == (want == "ok"):
            c.stats["discharged"] += 1
        else:
            c.stats["refuted"] += 1
            if ok:
                cls = "accepts a call that CPython rejects: " + root_cause(sig, actuals, _LAST_ERR["msg"])
            else:
                cls = "rejects a call that CPython binds without error: mypy says " + "+".join(sorted(set(msgs))) + "; actual kinds " + "+".join(sorted({a[0] for a in actuals}))
            found.setdefault(cls, (sig, actuals, want, msgs))

    ctx.explore(body)
    return ctx.stats, ctx.exhausted, dict(n), found


def run(rep: Any, tier: str) -> None:
    KA, KC = load()
    rep.kernels_from(KA)
    rep.kernels_from(KC)
    maxf = 2 if tier == "quick" else 3
    sigs = signatures(maxf)
    alphabet = ACTUALS_QUICK if tier == "quick" else ACTUALS_THOROUGH
    max_actuals = 3
    rep.bounds.append(
        f"K1: every valid signature of <= {maxf} parameters (positional, defaulted, *args, keyword-only after *args or a bare *, **kwargs) x every syntactically valid call of <= {max_actuals} actuals from "
        f"{len(alphabet)} precise shapes (positional, keyword a/b/z, * of a tuple of fixed length, ** of a TypedDict with all keys required); the shapes are solver decisions, argument types are Any"
    )
    rep.outside.append("K1: actuals of statically unknown length (*list, **dict), positional-only parameters, ParamSpec, argument *types*")
    parts = [([s], alphabet, max_actuals) for s in sigs]
    with mp.get_context("fork").Pool(14) as pool:
        results = pool.map(explore, parts, chunksize=1)
    tot = Ctx()
    tot.exhausted = True
    counts = {"ok": 0, "rej": 0, "syntax": 0}
    found: dict = {}
    for st, exh, n, fnd in results:
        for k, v in st.items():
            if isinstance(v, (int, float)):
                tot.stats[k] += v
        tot.exhausted = tot.exhausted and exh
        for k in counts:
            counts[k] += n[k]
        for k, v in fnd.items():
            found.setdefault(k, v)
    rep.add_ctx("K1 argument binding vs CPython", tot, signatures=len(sigs), outcomes=counts)
    rep.twin("K1: accepted and rejected calls both reached", counts["ok"] > 0 and counts["rej"] > 0)
    for key, (sig, actuals, want, msgs) in found.items():
        rep.sample({"kernel": "arity", "class": key, "def": sig_source(sig), "call": call_source(actuals), "cpython": want, "mypy_messages": msgs})
        rep.candidate("arity: " + key, f"{sig_source(sig)}  {call_source(actuals)}: CPython {want}, mypy messages {msgs}", {"def": sig_source(sig), "call": call_source(actuals)}, replay_call(sig, actuals, want))


def replay_call(sig: list, actuals: list, want: str):
    def replay(d: str) -> tuple[bool, str]:
        import os
        import subprocess
        import sys

        # a real program: TypedDict values for ** actuals, tuple literals for * actuals
        lines = ["from typing import TypedDict, Any", sig_source(sig).replace("pass", "pass"), ""]
        args = []
        for i, a in enumerate(actuals):
            if a[0] == "POS":
                args.append("0")
            elif a[0] == "NAMED":
                args.append(a[1] + "=0")
            elif a[0] == "STAR":
                lines.append(f"t{i} = {tuple([0] * a[1])!r}" if a[1] != 1 else f"t{i} = (0,)")
                args.append(f"*t{i}")
            else:
                lines.append(f"TD{i} = TypedDict('TD{i}', {{{', '.join(repr(k) + ': int' for k in a[1])}}})")
                lines.append(f"d{i}: TD{i} = {{{', '.join(repr(k) + ': 0' for k in a[1])}}}")
                args.append(f"**d{i}")
        lines.append("f(" + ", ".join(args) + ")")
        prog = "\n".join(lines) + "\n"
        with open(os.path.join(d, "prog.py"), "w") as f:
            f.write(prog)
        env = dict(os.environ)
        env.pop("PYTHONPATH", None)
        p = subprocess.run([sys.executable, "-m", "mypy", "--no-incremental", "--no-error-summary", "--hide-error-context", "prog.py"], cwd=d, capture_output=True, text=True, env=env, timeout=300)
        r = subprocess.run([sys.executable, "prog.py"], cwd=d, capture_output=True, text=True, env=env, timeout=60)
        runtime = "TypeError" if "TypeError" in r.stderr else ("ok" if r.returncode == 0 else "other: " + r.stderr[-200:])
        call_line = len(lines)
        rejected = any(l.startswith(f"prog.py:{call_line}:") and "error:" in l for l in p.stdout.splitlines())
        bad = (runtime == "TypeError" and not rejected) or (runtime == "ok" and rejected)
        return bad, f"program:\n{prog}mypy: {p.stdout.strip()[:400] or '(no diagnostics)'}\nCPython: {runtime}"

    return replay
