"""C20 K5: the AST copier used to re-check function bodies (value-restricted type variables) is total
and faithful.  treetransform.TransformVisitor (run from the real class) copies the analysed tree of
snippets that cover the statement, expression and pattern forms; the solver chooses the snippet.
Obligations: no exception (an assertion in a node constructor surfaces as INTERNAL ERROR in a real
run) and the copy prints exactly like the original (mypy.strconv)."""

from __future__ import annotations

import os
import subprocess
import sys
from typing import Any

from vf.symx import Ctx

PRELUDE = "from typing import Any, AnyStr, TypeVar, Generic, Callable\nclass Tok:\n    __match_args__ = ('kind', 'pos')\n    kind: str\n    pos: int\n    extra: int\n"
SNIPPETS = {
    "match class pattern, keywords only": "match v:\n        case Tok(kind='eof'):\n            pass",
    "match class pattern, positional only": "match v:\n        case Tok('a', 1):\n            pass",
    "match class pattern, positional and keywords": "match v:\n        case Tok('a', extra=2, pos=3):\n            pass",
    "match class pattern, no arguments": "match v:\n        case Tok():\n            pass",
    "match mapping pattern with rest": "match v:\n        case {'k': 1, **rest}:\n            pass",
    "match sequence, star, or, as, value, singleton": "match v:\n        case [1, *xs] | (2 as y) | None | Tok.kind:\n            pass",
    "match guard": "match v:\n        case x if x:\n            pass",
    "comprehensions": "r = [a for a in v if a]; s = {a: b for a, b in v}; t = {a for a in v}; g = (a async for a in v)" if False else "r = [a for a in v if a]\n    s = {a: b for a, b in v}\n    t = {a for a in v}\n    g = (a for a in v)",
    "lambda, conditional, comparison chain, slices": "f = lambda a, *b, c=1, **d: a if a else c\n    w = 1 < v <= 3 != 4\n    z = v[1:2, ::3]",
    "assignment forms": "a = b = v\n    c: int = 1\n    (d, e), *f = v\n    d += 1\n    (g := v)",
    "calls with star args and keywords": "v(1, *v, k=2, **v)",
    "try / with / for-else / while-else": "try:\n        pass\n    except (ValueError, TypeError) as e:\n        raise KeyError from e\n    else:\n        pass\n    finally:\n        pass\n    with v as a, v:\n        pass\n    for i in v:\n        break\n    else:\n        pass\n    while v:\n        continue\n    else:\n        pass",
    "nested function, decorator, global / nonlocal, del, assert": "def inner(a: int = 1, /, b: str = '', *, c: Any = None) -> None:\n        nonlocal v\n        del a\n        assert b, 'm'\n    @staticmethod\n    def dec() -> None: ...",
    "literals and operators": "a = (1, 2.0, 3j, 'x', b'y', ..., [1], {2}, {3: 4}, -v, not v, v @ v, await_ if v else None)" .replace("await_", "v"),
    "f-string and star expr": "a = f'{v!r:>{v}}'\n    b = [*v, *v]",
    "yield forms": "x = yield v\n    yield from v",
}


def program(body: str) -> str:
    return PRELUDE + "def probe(v: Any) -> Any:\n    " + body + "\n"


def run(rep: Any, tier: str) -> None:
    import mypy.build as B
    import mypy.treetransform as TT
    from mypy.modulefinder import BuildSource
    from mypy.options import Options

    from vf import symx

    rep.kernel("mypy.treetransform", symx.source_hash(TT.__file__))
    names = sorted(SNIPPETS)
    ctx = Ctx()
    found: dict = {}
    n = {"p": 0}

    def body(c: Ctx) -> None:
        nm = names[c.choose("construct", len(names))]
        o = Options()
        o.incremental = False
        o.cache_dir = os.devnull
        o.python_version = (3, 12)
        o.preserve_asts = True
        res = B.build([BuildSource(None, "tt", program(SNIPPETS[nm]))], o)
        blockers = [e for e in res.errors if "invalid syntax" in e or "Invalid syntax" in e]
        if blockers:
            raise RuntimeError(f"snippet {nm!r} does not parse: {blockers[:2]}")
        tree = res.files["tt"]
        t = TT.TransformVisitor()
        t.test_only = True
        err = None
        try:
            copy = t.mypyfile(tree)
            same = str(copy) == str(tree)
        except Exception as e:  # noqa: BLE001
            err = f"{type(e).__name__}: {e}"[:120]
            same = False
        n["p"] += 1
        c.stats["assert_queries"] += 1
        if err is None and same:
            c.stats["discharged"] += 1
        else:
            c.stats["refuted"] += 1
            found.setdefault(f"TransformVisitor {'fails' if err else 'changes the tree'} on: {nm}", (nm, err or "the copy prints differently"))

    ctx.explore(body)
    rep.add_ctx("K5 TransformVisitor copies every construct faithfully", ctx, constructs=names)
    rep.twin("K5: constructs copied", n["p"] == len(names))
    rep.bounds.append(f"K5: {len(names)} snippets covering the statement / expression / pattern forms, one function body each")
    for key, (nm, err) in found.items():
        rep.sample({"kernel": "TransformVisitor", "class": key, "detail": err})

        def replay(d: str, nm: str = nm) -> tuple[bool, str]:
            # the copier runs for functions generic over a value-restricted type variable
            prog = PRELUDE + "def probe(v: Any, s: AnyStr) -> Any:\n    " + SNIPPETS[nm] + "\n"
            with open(os.path.join(d, "prog.py"), "w") as f:
                f.write(prog)
            env = dict(os.environ)
            env.pop("PYTHONPATH", None)
            p = subprocess.run([sys.executable, "-m", "mypy", "--no-incremental", "--no-error-summary", "prog.py"], cwd=d, capture_output=True, text=True, env=env, timeout=600)
            out = p.stdout + p.stderr
            return p.returncode not in (0, 1) or "INTERNAL ERROR" in out or "Traceback" in out, f"mypy on a function over AnyStr containing `{nm}`: exit {p.returncode}: {out.strip()[-300:]}"

        rep.candidate("transform: " + key, err, {"construct": nm}, replay)
