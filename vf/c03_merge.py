"""C03 K6: `astmerge.TypeReplaceVisitor` reaches every reference to a replaced class inside a type.

After a fine-grained update `merge_asts` keeps the *old* TypeInfo objects alive and redirects every
reference in the new tree and in the new types to them.  A type that still points at the discarded
TypeInfo is compared by identity with types that point at the kept one: the daemon then reports errors
(`"Literal[Color.RED]"; expected "Literal[Color.RED]"`) that a full check does not.

A module whose declarations mention a class K (and an enum E) at every position a type can hold a
class reference is built by the real front end.  The solver chooses the declaration and which class is
replaced; the real `TypeReplaceVisitor({old: new})` (methods extracted from /repo's source on every
run) is applied to the declared type.  Oracle, independent of the visitor: a reflective walk over the
type object (every slot of every `mypy.types.Type` reachable through Type objects, lists, tuples and
dicts) must find no reference to the old TypeInfo and as many references to the new one as there were
to the old one before.
"""

from __future__ import annotations

import os
from typing import Any

from vf.symx import Ctx, Kernel

SRC = '''
from typing import (Callable, Generic, TypeVar, Literal, Union, Optional, Type, Tuple, List, Dict,
                    NamedTuple, overload, Final, ClassVar, Protocol, Any)
from typing_extensions import TypedDict, TypeGuard, TypeIs, ParamSpec, TypeVarTuple, Unpack, Concatenate, Required, NotRequired
from enum import Enum

class K: ...
class E(Enum):
    A = 1
    B = 2
T = TypeVar("T")
TB = TypeVar("TB", bound=K)
TV = TypeVar("TV", K, int)
P = ParamSpec("P")
Ts = TypeVarTuple("Ts")
class G(Generic[T]): ...
class GV(Generic[Unpack[Ts]]): ...
class TD(TypedDict):
    x: K
    y: NotRequired[E]
class NT(NamedTuple):
    k: K
    e: E
Alias = List[K]
GAlias = Dict[T, K]
EAlias = Union[E, None]

d_inst: K
d_enum: E
d_arg: G[K]
d_arg2: Dict[str, G[E]]
d_list: List[K]
d_union: Union[K, int]
d_opt: Optional[E]
d_tuple: Tuple[K, int, E]
d_vtuple: Tuple[K, ...]
d_type: Type[K]
d_typeu: Type[Union[K, E]]
d_lit: Literal[E.A]
d_lit2: Union[Literal[E.A], Literal[E.B], None]
d_litg: G[Literal[E.B]]
d_call: Callable[[K], E]
d_call2: Callable[..., K]
d_call3: Callable[[Callable[[E], None]], Callable[[], K]]
d_td: TD
d_nt: NT
d_alias: Alias
d_galias: GAlias[int]
d_galias2: GAlias[E]
d_ealias: EAlias
d_variadic: GV[K, int, E]
d_unpack: Tuple[int, Unpack[Tuple[K, ...]]]
d_final: Final = E.A
d_lkv: Final = E.B
def f_plain(a: K, *args: E, **kw: K) -> E: ...
def f_bound(a: TB) -> TB: ...
def f_values(a: TV) -> TV: ...
def f_guard(a: object) -> TypeGuard[K]: ...
def f_is(a: object) -> TypeIs[E]: ...
def f_pspec(f: Callable[P, K]) -> Callable[P, E]: ...
def f_concat(f: Callable[Concatenate[K, P], int]) -> Callable[P, E]: ...
def f_unpack_kw(**kw: Unpack[TD]) -> None: ...
def f_star(*a: Unpack[Tuple[K, E]]) -> None: ...
def f_lit(a: Literal[E.A]) -> Literal[E.B]: ...
@overload
def f_over(a: K) -> K: ...
@overload
def f_over(a: E) -> E: ...
def f_over(a): ...
class Proto(Protocol):
    def meth(self, a: K) -> E: ...
    attr: Dict[K, E]
class Sub(G[K]):
    cv: ClassVar[List[E]] = []
    def m(self, x: "Sub") -> K: ...
'''


def load() -> Any:
    import mypy.server.astmerge as M
    import ast as _ast

    with open(M.__file__, encoding="utf-8") as f:
        tree = _ast.parse(f.read())
    names = []
    for st in tree.body:
        if isinstance(st, _ast.ClassDef) and st.name == "TypeReplaceVisitor":
            names = ["TypeReplaceVisitor." + x.name for x in st.body if isinstance(x, _ast.FunctionDef)]
    return Kernel("mypy.server.astmerge", names, closure=False)


def walk_refs(t: Any, old: Any, new: Any) -> tuple[int, int, list]:
    """count references to `old` / `new` reachable through Type objects and containers"""
    from mypy.nodes import TypeInfo
    from mypy.types import Type

    seen: set = set()
    n_old = n_new = 0
    where: list = []
    stack: list = [(t, "type")]
    while stack:
        x, path = stack.pop()
        if x is old:
            n_old += 1
            where.append(path)
            continue
        if x is new:
            n_new += 1
            continue
        if isinstance(x, (list, tuple, set, frozenset)):
            for i, y in enumerate(x):
                stack.append((y, f"{path}[{i}]"))
            continue
        if isinstance(x, dict):
            for k, y in x.items():
                stack.append((y, f"{path}[{k!r}]"))
            continue
        if not isinstance(x, Type) or isinstance(x, TypeInfo):
            continue
        if id(x) in seen:
            continue
        seen.add(id(x))
        slots: list = []
        for cls in type(x).__mro__:
            slots += list(getattr(cls, "__slots__", ()))
        slots += list(getattr(x, "__dict__", {}).keys())
        for s in slots:
            if s.startswith("_") or s in ("definition",):
                continue  # caches; `definition` is a cross-reference to a node handled by the node visitor
            try:
                v = getattr(x, s)
            except AttributeError:
                continue
            stack.append((v, f"{path}.{type(x).__name__}.{s}"))
    return n_old, n_new, where


def run(rep: Any, tier: str) -> None:
    import mypy.build as B
    import mypy.server.astmerge as M
    from mypy.modulefinder import BuildSource
    from mypy.nodes import Decorator, FuncDef, OverloadedFuncDef, TypeAlias, TypeInfo, Var
    from mypy.options import Options

    K = load()
    rep.kernels_from(K)

    class KVisitor(M.TypeReplaceVisitor):
        pass

    for name, fn in K.funcs.items():
        setattr(KVisitor, name.split(".", 1)[1], fn)

    o = Options()
    o.incremental = False
    o.cache_dir = os.devnull
    o.python_version = (3, 12)
    o.preserve_asts = True
    from mypy import errorcodes as _ec

    o.disabled_error_codes = {_ec.EMPTY_BODY}
    res = B.build([BuildSource(None, "mm", SRC)], o)
    if res.errors:
        rep.error("K6: the sample module does not type check: " + "; ".join(res.errors[:3]))
        return
    names = res.files["mm"].names
    infos = {"K": names["K"].node, "E": names["E"].node}
    decls: list[tuple[str, Any]] = []

    def add_node(label: str, node: Any) -> None:
        if isinstance(node, Var) and node.type is not None:
            decls.append((label, node.type))
        elif isinstance(node, FuncDef) and node.type is not None:
            decls.append((label, node.type))
        elif isinstance(node, Decorator):
            add_node(label, node.func)
        elif isinstance(node, OverloadedFuncDef) and node.type is not None:
            decls.append((label, node.type))
        elif isinstance(node, TypeAlias):
            decls.append((label + " (alias target)", node.target))
        elif isinstance(node, TypeInfo):
            for b in node.bases:
                decls.append((f"{label} base", b))
            if node.typeddict_type is not None:
                decls.append((f"{label} typeddict_type", node.typeddict_type))
            if node.tuple_type is not None:
                decls.append((f"{label} tuple_type", node.tuple_type))
            for mname, sym in node.names.items():
                if mname.startswith("__") or sym.node is None or isinstance(sym.node, TypeInfo):
                    continue
                add_node(f"{label}.{mname}", sym.node)

    for n_, sym in sorted(names.items()):
        if sym.node is None or n_.startswith("__") or getattr(sym.node, "fullname", "").split(".")[0] != "mm":
            continue
        if n_ in ("K", "E"):
            continue
        add_node(n_, sym.node)

    ctx = Ctx(max_paths=100000)
    found: dict = {}
    n = {"runs": 0, "with_refs": 0, "refs": 0}

    def body(c: Ctx) -> None:
        label, typ = decls[c.choose("declaration", len(decls))]
        which = ["K", "E"][c.choose("replaced_class", 2)]
        old = infos[which]
        new = TypeInfo.__new__(TypeInfo)  # a distinct object standing for the preserved TypeInfo
        if hasattr(old, "__dict__"):
            new.__dict__.update(old.__dict__)
        for cls in type(old).__mro__:
            for s in getattr(cls, "__slots__", ()):
                if hasattr(old, s):
                    try:
                        setattr(new, s, getattr(old, s))
                    except AttributeError:
                        pass
        before_old, _, _ = walk_refs(typ, old, new)
        err = None
        try:
            typ.accept(KVisitor({old: new}))
        except Exception as e:  # noqa: BLE001 - an exception inside merge is an INTERNAL ERROR of the daemon
            err = f"{type(e).__name__}: {e}"
        after_old, after_new, where = walk_refs(typ, old, new)
        n["runs"] += 1
        n["refs"] += before_old
        n["with_refs"] += 1 if before_old else 0
        c.stats["assert_queries"] += 1
        ok = err is None and after_old == 0 and after_new == before_old
        # restore for later paths
        try:
            typ.accept(M.TypeReplaceVisitor({new: old}))
        except Exception:  # noqa: BLE001
            pass
        if ok:
            c.stats["discharged"] += 1
        else:
            c.stats["refuted"] += 1
            kind = sorted({w.rsplit(".", 2)[-2] + "." + w.rsplit(".", 1)[-1] if w.count(".") >= 2 else w for w in where})
            key = f"TypeReplaceVisitor leaves a reference to the replaced class behind in {', '.join(kind) or err}"
            found.setdefault(key, (label, which, where[:4], err))

    ctx.explore(body)
    rep.add_ctx("K6 TypeReplaceVisitor reaches every class reference of a declared type", ctx, declarations=len(decls), outcomes=dict(n))
    rep.twin("K6: declarations with references to the replaced class reached", n["with_refs"] >= 40)
    rep.bounds.append(f"K6: {len(decls)} declared types of one generated module (instances, generic arguments, unions, tuples incl. variadic, Type[...], enum literals, callables incl. ParamSpec/Concatenate/TypeGuard/TypeIs/overloads/bounds/value restrictions, TypedDict, NamedTuple, aliases, class bases and members) x replaced class K or enum E")
    for key, (label, which, where, err) in found.items():
        rep.sample({"kernel": "TypeReplaceVisitor", "class": key, "declaration": label, "replaced": which, "where": where, "exception": err})
        rep.candidate("merge: " + key, f"declaration {label}, replaced class {which}: {where or err}", {"declaration": label, "replaced": which}, make_replay(label, which))


def make_replay(label: str, which: str) -> Any:
    def replay(d: str) -> tuple[bool, str]:
        """end to end: an in-process fine-grained daemon checks a module that declares and uses the
        construct, the module gets an unrelated edit, and the recheck is compared with a fresh build"""
        import subprocess
        import sys

        progs = {
            "E": (
                "from enum import Enum\nfrom typing import Literal, Union, Dict, List, Callable, Type, Tuple\n"
                "class E(Enum):\n    A = 1\n    B = 2\n"
                "def only_a(x: Literal[E.A]) -> None: ...\n"
                "def lits(x: Union[Literal[E.A], None]) -> None: ...\n"
                "def take(x: E, y: List[E], z: Dict[str, E], c: Callable[[E], E], t: Type[E], u: Tuple[E, int]) -> None: ...\n"
                "def ident(e: E) -> E: return e\n"
                "def use() -> None:\n    only_a(E.A)\n    lits(E.A)\n    take(E.A, [E.B], {'k': E.A}, ident, E, (E.A, 1))\n"
            ),
            "K": (
                "from typing import Union, Dict, List, Callable, Type, Tuple, Generic, TypeVar\n"
                "T = TypeVar('T')\nclass K: ...\nclass G(Generic[T]): ...\n"
                "def take(x: K, y: List[K], z: Dict[str, K], c: Callable[[K], K], t: Type[K], u: Tuple[K, int], g: G[K], o: Union[K, None]) -> None: ...\n"
                "def ident(k: K) -> K: return k\n"
                "def use() -> None:\n    gk: G[K] = G()\n    take(K(), [K()], {'k': K()}, ident, K, (K(), 1), gk, K())\n"
            ),
        }
        drv = r'''
import os, sys, tempfile
from mypy import build
from mypy.dmypy_server import Server
from mypy.modulefinder import BuildSource
from mypy.options import Options
src = open(sys.argv[1]).read()
work = tempfile.mkdtemp(); os.chdir(work)
open("m.py", "w").write(src)
def opts():
    o = Options(); o.incremental = False; o.cache_dir = os.devnull; o.python_version = (3, 12)
    return o
o = opts(); o.fine_grained_incremental = True; o.use_fine_grained_cache = False; o.local_partial_types = True
s = Server(o, "st.json")
r1 = s.check([BuildSource("m.py", "m", None)], False, False, 80)
open("m.py", "w").write(src + "\nunrelated = 1\n")
os.utime("m.py", (10**9, 10**9))
r2 = s.check([BuildSource("m.py", "m", None)], False, False, 80)
o2 = opts(); o2.local_partial_types = True
full = build.build([BuildSource("m.py", "m", None)], o2)
print("DAEMON:", r2["out"].strip()); print("FULL:", "\n".join(full.errors).strip())
print("SAME" if r2["out"].strip().splitlines()[:-1] == [e for e in full.errors] or (not full.errors and "Success" in r2["out"]) else "DIFFERENT")
'''
        with open(os.path.join(d, "prog.py"), "w") as f:
            f.write(progs[which])
        with open(os.path.join(d, "replay.py"), "w") as f:
            f.write(drv)
        env = dict(os.environ)
        env.pop("PYTHONPATH", None)
        p = subprocess.run([sys.executable, os.path.join(d, "replay.py"), os.path.join(d, "prog.py")], capture_output=True, text=True, env=env, timeout=600)
        bad = "DIFFERENT" in p.stdout
        if not bad and "SAME" not in p.stdout:
            return False, "replay driver failed: " + p.stderr[-400:]
        if not bad:
            # the construct is not expressible in the fixed end-to-end program: fall back to the unmodified
            # visitor on the same declaration
            return unmodified_api(label, which)
        return bad, p.stdout[-600:]

    return replay


def unmodified_api(label: str, which: str) -> tuple[bool, str]:
    import mypy.build as B
    import mypy.server.astmerge as M
    from mypy.modulefinder import BuildSource
    from mypy.nodes import TypeInfo
    from mypy.options import Options

    o = Options()
    o.incremental = False
    o.cache_dir = os.devnull
    o.python_version = (3, 12)
    res = B.build([BuildSource(None, "mm", SRC)], o)
    names = res.files["mm"].names
    old = names[which].node
    base = label.split(" ")[0].split(".")
    node = names[base[0]].node
    for part in base[1:]:
        node = node.names[part].node
    typ = getattr(node, "type", None) or getattr(node, "target", None) or getattr(getattr(node, "func", None), "type", None)
    if isinstance(node, TypeInfo):
        typ = node.typeddict_type if "typeddict_type" in label else node.tuple_type if "tuple_type" in label else node.bases[0]
    new = TypeInfo.__new__(TypeInfo)
    for cls in type(old).__mro__:
        for sl in getattr(cls, "__slots__", ()):
            if hasattr(old, sl):
                try:
                    setattr(new, sl, getattr(old, sl))
                except AttributeError:
                    pass
    typ.accept(M.TypeReplaceVisitor({old: new}))
    after_old, _, where = walk_refs(typ, old, new)
    return after_old > 0, f"unmodified TypeReplaceVisitor on {label}: {after_old} references to the replaced class remain at {where[:3]}"
