#!/bin/bash
# usage: tools/seed_tests2.sh <name...>
# Confirms "the existing tests still pass" for a seeded change on a scratch worktree of /repo (never in /repo):
# the part of the pinned suite that can see the touched files (all of mypy/test except stubgen/stubtest/pythoneval
# for changes under mypy/, all of mypyc/test for changes under mypyc/), then a re-run in isolation of any test
# that failed outside the known always-failing set (parallel-worker tests miss their start-up deadline under load).
set -u
WT=${SEED_WT:-/tmp/wt_seedtests}
git -C /repo worktree remove --force $WT 2>/dev/null; git -C /repo worktree prune
git -C /repo worktree add --detach $WT HEAD >/dev/null 2>&1 || exit 3
trap 'git -C /repo worktree remove --force $WT; git -C /repo worktree prune' EXIT
KNOWN="testpep561|testDaemonStatusKillRestartRecheck|testYieldThrow|testForIterable"
for n in "$@"; do
  D=/verif/seeded/$n
  P=$D/patch.diff; [ -f $D/patch_rebased.diff ] && P=$D/patch_rebased.diff
  (cd $WT && git checkout -q -- . && git clean -fdq && git apply $P) || { echo "$n: patch does not apply" | tee $D/tests.log; continue; }
  SEL=""
  grep -q '^+++ b/mypyc/' $P && SEL="$SEL mypyc/test"
  if grep -q '^+++ b/mypy/' $P; then
    SEL="$SEL $(cd $WT && ls mypy/test/test*.py | grep -v 'teststubgen\|teststubtest\|testpythoneval\|testpep561\|teststubinfo' | tr '\n' ' ')"
  fi
  echo "SELECTION: $SEL" > $D/tests.log
  (cd $WT && timeout 3000 /venv/bin/python -m pytest -q -p no:cacheprovider --timeout=900 -n ${SEED_JOBS:-12} $SEL 2>&1 | grep -E "^FAILED|^ERROR|passed|failed" >> $D/tests.log)
  BAD=$(grep -E "^FAILED|^ERROR" $D/tests.log | grep -Ev "$KNOWN" | sed 's/^FAILED //; s/^ERROR //; s/ - .*//' | tr '\n' ' ')
  if [ -n "$BAD" ]; then
    echo "RERUN in isolation: $BAD" >> $D/tests.log
    (cd $WT && timeout 1800 /venv/bin/python -m pytest -q -p no:cacheprovider --timeout=900 -n 0 $BAD 2>&1 | grep -E "^FAILED|^ERROR|passed|failed" | sed 's/^/RERUN: /' >> $D/tests.log)
  fi
  echo "$n: $(grep -E 'passed' $D/tests.log | tr '\n' ';' | cut -c1-200)"
done
