#!/bin/bash
# usage: tools/seed_tests.sh <name...>   -- runs the repository's pinned test suite on a scratch worktree
# with each seeded change applied (never in /repo), and records the outcome in seeded/<name>/tests.log
set -u
WT=${SEED_WT:-/tmp/wt_seedtests}
git -C /repo worktree remove --force $WT 2>/dev/null; git -C /repo worktree prune
git -C /repo worktree add --detach $WT HEAD >/dev/null 2>&1 || exit 3
trap 'git -C /repo worktree remove --force $WT; git -C /repo worktree prune' EXIT
for n in "$@"; do
  D=/verif/seeded/$n
  if [ "$n" = "HEAD" ]; then D=/verif/seeded/.head; mkdir -p $D; : > $D/patch.diff; fi
  P=$D/patch.diff; [ -f $D/patch_rebased.diff ] && P=$D/patch_rebased.diff
  (cd $WT && git checkout -q -- . && git clean -fdq && { [ ! -s $P ] || git apply $P; }) || { echo "$n: patch does not apply" | tee $D/tests.log; continue; }
  (cd $WT && timeout 3000 /venv/bin/python -m pytest -q -p no:cacheprovider --timeout=900 -n ${SEED_JOBS:-8} -x --maxfail=60 2>&1 | grep -E "^FAILED|^ERROR|passed|failed" | grep -v "testpep561" > $D/tests.log)
  echo "$n: $(tail -1 $D/tests.log)"
done
