#!/usr/bin/env python3
"""Regenerates /verif/seeded/<name>/meta.json from what is in the directory (README.md of the
sub-agent, eval.log of tools/seed_eval.sh, tests.log of tools/seed_tests.sh) plus the verdict
table below (maintained by hand after each evaluation)."""

import json
import os
import re

ROOT = os.path.join(os.path.dirname(os.path.abspath(__file__)), "..", "seeded")

# name -> (caught by, note)
VERDICT = {
    "C02-1": ("C02 K4", "kernel added after the miss"),
    "C02-2": ("C11 K2b", "sample enriched with boundary shapes"),
    "C03-1": ("C03 K4", "kernel added after the miss"),
    "C03-2": ("C03 K3", "kernel added after the miss"),
    "C04-1": ("C04", "durable-state keys refined by store and fault kind"),
    "C04-2": ("C04", ""),
    "C05-1": ("C05, C15 K2", "mixed-operand one-op programs added after the miss"),
    "C05-2": ("C15 K1", "a C helper: invisible at IR level (C05)"),
    "C05-3": ("C05 K-slots", "slot-wrapper kernel (emitted C -> LLVM IR -> z3) added after the miss; evaluated with patch_rebased.diff because two fix: commits changed the surrounding lines"),
    "C06-1": ("C06", "generated displays of length 10-12 added after the miss"),
    "C06-2": ("C06", "one-branch definition + reference-free raising call shapes added after two misses"),
    "C06-3": ("C06 K-glue", "emitted tp_new ownership kernel (C -> LLVM IR -> z3) added after the miss; replay = real build, reference growth over failed constructions"),
    "C07-1": ("C07", "solver-chosen stale/fresh split added after the miss"),
    "C07-2": ("C07 W1", "worker-side kernel added after the miss"),
    "C09-1": ("C09 K2b", "kernel added after the miss"),
    "C09-2": ("C02 K3a", "kernel added after the miss"),
    "C10-1": ("C10", "find_stale_sccs partitions added after the miss"),
    "C10-2": ("C10 H1", "history kernel for the known-modules memo added after the miss; replay = two builds through mypy.api in one process vs a fresh process"),
    "C11-1": ("C11 K2b", ""),
    "C11-2": ("C11 K2b", ""),
    "C12-1": ("C12 K1", "arity kernel added after the miss"),
    "C12-2": ("C12 K3", "after removing a harness dependency on reverse_op"),
    "C13-1": ("C13 K2", "after adding the JSON rendering"),
    "C13-2": ("C13 K1", "ignore kernel added after the miss"),
    "C14-1": ("C14", ""),
    "C14-2": ("C17 K5 / C14", "parse_all kernel added after the miss; replay = native vs default parser runs on a two-file batch"),
    "C15-1": ("C15 K1", ""),
    "C15-2": ("C15 K2", "after modelling error exits without exception"),
    "C16-1": ("C16 K2", "after modelling gone clients"),
    "C16-2": ("C16 K1a/c", ""),
    "C17-1": ("C17 K4", "kernel added after the miss"),
    "C17-2": ("C17 K2", "second probe option added after the miss"),
    "C18-1": ("C18 D", "root __init__ + uniqueness added after the miss"),
    "C18-2": ("C18 E", "obligation added after the miss"),
    # second round (same protocol, after the strengthening above)
    "C02-3": ("C02 K4", "the sub-agent independently made the same slip as C02-1"),
    "C02-4": ("C02 K5", "indirection kernel added after the miss; replay = warm vs cold runs"),
    "C11-3": ("C11 K2b", ""),
    "C11-4": ("C11 K2c", "set-order kernel added after the miss; replay over 12 hash seeds"),
    "C16-3": ("C16 K1d", ""),
    "C16-4": ("C16 K2", "deep-JSON fault kind added after the miss"),
    "C17-3": ("C17 K2", ""),
    "C17-4": ("C17 K4", ""),
    "C18-3": ("C18 D", ""),
    "C18-4": ("C18 F", "abspath-key check added after the miss"),
    "C03-3": ("C03 K5", "subtype-cache kernel (real TypeState + calculate_mro) added after the miss; replay = in-process daemon vs fresh run"),
    "C03-4": ("C03 K3", "the sub-agent independently made the same slip as C03-2"),
    "C06-4": ("C06", "initialiser-overwrite obligation (per-attribute 'may be set' state in the BMC) and __init__ shapes added after the miss; replay = real build, surviving objects"),
    "C06-5": ("C06", "per-edge fix-up shapes added to the generated corpus after the miss"),
    "C07-3": ("C07 W2", "transaction-discipline kernel for the worker-side phase functions added after the miss"),
    "C07-4": ("C07 W3", "interface-phase flag kernel (real front end on generated classes) added after the miss; replay = sequential vs -n 2 / -n 3 builds"),
    "C09-3": ("C09 K1b", "storage-path kernel with symbolic error-code sets added after the miss; evaluated with patch_rebased.diff (a fix: commit touched the same lines); replay needs a per-module config section"),
    "C09-4": ("C02 K2", "as it stood (find_cache_meta decision kernel)"),
    "C12-3": ("C12 K3", "as it stood"),
    "C12-4": ("C12 K1", "bare-star keyword-only signatures added after the miss"),
    "C13-3": ("C13 K1b", "code-pair matrix over the whole error-code table added after the miss"),
    "C13-4": ("C13 K1c", "module-level ignore scope kernel (fastparse) added after the miss"),
    "C15-3": ("C15 K1d", "GetIntDigits kernel added after the miss; replay = real mypyc build"),
    "C15-4": ("C05, C15 K2", "as it stood (the sub-agent independently re-made the slip of C15-2 for all fixed-width types)"),
    # fourth round (C02 C11 C12 C16 C17 C18): several sub-agents re-made slips of earlier rounds
    "C02-5": ("C02 K4", "as it stood (same slip as C02-1)"),
    "C02-6": ("C11 K2b", "as it stood (same slip as C11-1: falsy Final values in the JSON writer)"),
    "C11-5": ("C11 K2b", "as it stood (same slip as C11-3)"),
    "C11-6": ("C11 K2b", "the check crashed (exit 2) on the AssertionError raised by the real fix-up; exceptions of the real round trip are now findings -> VIOLATION"),
    "C12-5": ("C12 K3", "as it stood"),
    "C12-6": ("C12 K1", "as it stood (same idea as C12-4)"),
    "C16-5": ("C16 K1a/K1c", "the check crashed (exit 2): the byte-buffer stand-in had no slice deletion; added -> VIOLATION"),
    "C16-6": ("C16 K2", "as it stood (same slip as C16-4)"),
    "C17-5": ("C17 K4", "as it stood (same slip as C17-1/C17-4)"),
    "C17-6": ("C17 K2", "as it stood (same slip as C17-2)"),
    "C18-5": ("C18 D", "as it stood (same slip as C18-3)"),
    "C18-6": ("C18 E", "as it stood"),
    # fifth round
    "C03-5": ("C03 K6", "TypeReplaceVisitor completeness kernel added after the miss; replay = in-process daemon vs fresh build"),
    "C07-5": ("C07 W4", "load_states replay kernel added after the miss"),
    "C09-5": ("C09 K1b", "as it stood"),
    "C10-5": ("C10 S2", "option-snapshot set-order kernel added after the miss; replayed over 48 hash seeds"),
    "C13-5": ("C13 K1d", "missed by the quick tier of K1 (no sub-code in its option pool); code-state matrix over the whole code table added"),
    "C14-5": ("C14 K3", "Context.set_line kernel added after the miss"),
    "C15-5": ("C15 K3", "float floor-division kernel (clang IR -> z3, uninterpreted rounding then Float64, witness realised at divisor 1.0 and replayed on a real mypyc build) added after the miss; a first version ended with exit 2"),
    "C20-5": ("C20 K6", "jump-placement kernel added after the miss; replay = real mypy (INTERNAL ERROR)"),
    # third round
    "C04-3": ("C04", "as it stood (new durable-state keys for the sqlite store)"),
    "C04-4": ("C04", "as it stood (the sub-agent independently re-made the slip of C04-2)"),
    "C05-4": ("C05", "list stores as ordered (slot, value) events added to the translation validation after the miss; replay = real build, list contents compared"),
    "C05-5": (None, "separate compilation mode (cross-group attribute defaults): build modes are outside the claim"),
    "C06-6": ("C06", "as it stood (same slip as C06-5)"),
    "C06-7": ("C06 K-glue", "call-wrapper ownership kernel (emitted C -> LLVM IR -> z3) added after the miss; replay = real build"),
    "C10-3": ("C10 S1", "best_matches kernel added after the sub-agent's report (the check as it stood did not cover it)"),
    "C10-4": ("C10 H2", "guard-stack kernel added after the sub-agent's report; replay = two orders of the file arguments"),
    "C20-3": ("C20 K5", "TransformVisitor fidelity kernel added after the sub-agent's report; replay = real mypy on a function over AnyStr"),
    "C20-4": ("C20 K4b", "visitor sweep on recursive aliases added after the sub-agent's report; replay = mypy --cache-fine-grained"),
    "C14-3": ("C13 K1c, C14 K6", "C13 K1c as it stood (same slip as C13-4); the parser-differential kernel K6 added to C14 afterwards also reports it"),
    "C14-4": ("C14", "as it stood (Errors.report clamps)"),
    "C20-1": ("C20 K4", "recursion kernel (dangerous_comparison on recursive alias types from a real build) added after the miss; replay = real mypy --strict-equality"),
    "C20-2": ("C20 K3", "daemon work-list kernel added after the miss; replay = real daemon under a time limit vs a fresh run"),
}

ALLOWED_FAIL = ("testpep561", "testDaemonStatusKillRestartRecheck", "testYieldThrow", "testForIterable")


def main() -> None:
    for name in sorted(os.listdir(ROOT)):
        d = os.path.join(ROOT, name)
        if not os.path.isdir(d) or name.startswith("."):
            continue
        readme = ""
        for fn in ("README.md", "readme.md", "NOTES.md"):
            if os.path.exists(os.path.join(d, fn)):
                readme = open(os.path.join(d, fn), encoding="utf-8", errors="replace").read()
                break
        ev = []
        if os.path.exists(os.path.join(d, "eval.log")):
            ev = [l.rstrip()[:400] for l in open(os.path.join(d, "eval.log"), encoding="utf-8", errors="replace") if l.strip()]
        tests = None
        tl = os.path.join(d, "tests.log")
        if os.path.exists(tl):
            lines = [l.rstrip() for l in open(tl, encoding="utf-8", errors="replace") if l.strip()]
            main = [l for l in lines if not l.startswith(("RERUN", "SELECTION"))]
            rerun = [l[len("RERUN: "):] for l in lines if l.startswith("RERUN: ")]
            selection = next((l[len("SELECTION: "):] for l in lines if l.startswith("SELECTION: ")), None)
            summary = next((l for l in reversed(main) if re.search(r"\d+ passed", l)), "")
            unexpected = [l for l in main if l.startswith(("FAILED", "ERROR")) and not any(a in l for a in ALLOWED_FAIL)]
            rerun_summary = next((l for l in reversed(rerun) if re.search(r"\d+ (passed|failed)", l)), "")
            rerun_failed = [l for l in rerun if l.startswith(("FAILED", "ERROR"))]
            rerun2 = [l for l in lines if l.startswith("RERUN2: ")]
            if rerun2 and all("passed" in l and "failed" not in l.split("(")[0] for l in rerun2):
                rerun_failed = []  # the tests that failed again in the first (loaded) re-run passed when re-run on an idle machine
                rerun_summary = rerun_summary + " | second attempt on an idle machine: " + rerun2[-1][len("RERUN2: "):]
            ok = bool(summary) and (not unexpected or (bool(rerun_summary) and not rerun_failed))
            tests = {
                "command": ("tools/seed_tests2.sh: the part of the pinned suite that can see the touched files (" + (selection[:120] + " ...)" if selection else "") if selection else "tools/seed_tests.sh: the whole pinned suite (pytest -n 8)") + " on a scratch worktree of /repo with the patch applied",
                "summary": summary,
                "failures_outside_the_known_always_failing_set": unexpected,
                "rerun_of_those_in_isolation": rerun_summary or None,
                "passes_existing_tests": ok,
            }
        caught, note = VERDICT.get(name, (None, "not evaluated yet"))
        meta = {
            "name": name,
            "property": name.split("-")[0],
            "source": "independent sub-agent given only the property text and a scratch worktree",
            "needs": readme[:1800],
            "confirmed_by_me": {
                "demo": "demo.sh exits 0 on the clean tree and non-zero with patch.diff applied (tools/seed_eval.sh; first two lines of evaluation_log)",
                "tests": tests,
            },
            "evaluation_log": ev,
            "caught_by": caught,
            "note": note,
        }
        with open(os.path.join(d, "meta.json"), "w") as f:
            json.dump(meta, f, indent=1)
    print("meta.json written for", len(os.listdir(ROOT)), "directories")


if __name__ == "__main__":
    main()
