#!/bin/bash
# usage: tools/seed_rerun.sh <name...>  -- re-runs, in isolation and with the patch applied on a scratch worktree,
# the tests that failed outside the known always-failing set in an earlier (loaded) run; appends RERUN lines.
set -u
WT=${SEED_WT:-/tmp/wt_seedrerun}
git -C /repo worktree remove --force $WT 2>/dev/null; git -C /repo worktree prune
git -C /repo worktree add --detach $WT HEAD >/dev/null 2>&1 || exit 3
trap 'git -C /repo worktree remove --force $WT; git -C /repo worktree prune' EXIT
KNOWN="testpep561|testDaemonStatusKillRestartRecheck|testYieldThrow|testForIterable"
for n in "$@"; do
  D=/verif/seeded/$n
  grep -q "^RERUN" $D/tests.log && continue
  BAD=$(grep -E "^FAILED|^ERROR" $D/tests.log | grep -Ev "$KNOWN" | sed 's/^FAILED //; s/^ERROR //; s/ - .*//' | tr '\n' ' ')
  [ -z "$BAD" ] && continue
  P=$D/patch.diff; [ -f $D/patch_rebased.diff ] && P=$D/patch_rebased.diff
  (cd $WT && git checkout -q -- . && git clean -fdq && git apply $P) || { echo "RERUN: patch does not apply on HEAD" >> $D/tests.log; continue; }
  echo "RERUN in isolation: $BAD" >> $D/tests.log
  (cd $WT && timeout 1800 /venv/bin/python -m pytest -q -p no:cacheprovider --timeout=900 -n 0 $BAD 2>&1 | grep -E "^FAILED|^ERROR|passed|failed" | sed 's/^/RERUN: /' >> $D/tests.log)
  echo "$n: $(grep '^RERUN: ' $D/tests.log | tail -1)"
done
