#!/bin/bash
# usage: tools/seed_eval.sh <mutant dir (with patch.diff, demo.sh)> <name> <check ids...>
# Applies the seeded change to /repo, runs the demo and the given checks, and always reverts.
set -u
SRC="$1"; NAME="$2"; shift 2
DST=/verif/seeded/$NAME
mkdir -p "$DST"
cp -r "$SRC"/. "$DST"/
cd /repo
if [ -n "$(git status --short)" ]; then echo "REPO NOT CLEAN"; exit 3; fi
echo "== demo on clean tree"; bash "$DST/demo.sh" /repo > "$DST/demo_clean.log" 2>&1; echo "demo clean rc=$?" | tee -a "$DST/eval.log"
git apply "$DST/patch.diff" || { echo "PATCH DOES NOT APPLY" | tee -a "$DST/eval.log"; exit 3; }
trap 'cd /repo && git checkout -- . && git clean -fdq mypy mypyc 2>/dev/null' EXIT
echo "== demo with patch"; bash "$DST/demo.sh" /repo > "$DST/demo_patched.log" 2>&1; echo "demo patched rc=$?" | tee -a "$DST/eval.log"
for c in "$@"; do
  echo "== check $c with patch"
  (cd /verif && timeout 3000 bin/check $c --tier quick > "$DST/check_$c.log" 2>&1; echo "check $c rc=$?" | tee -a "$DST/eval.log"; grep -h "^VIOLATION\|^KNOWN-FINDING\|^HARNESS-ERROR" "$DST/check_$c.log" | cut -c1-300 | tee -a "$DST/eval.log")
done
