#!/bin/bash
cd /verif
: > /tmp/verif_quick_all.log
for c in C02 C03 C05 C06 C07 C09 C10 C11 C12 C13 C14 C15 C16 C17 C18 C20 C04; do
  s=$(date +%s)
  VERIF_SEED=${1:-1} timeout 3600 bin/check $c --tier quick > /tmp/verif_quick_$c.log 2>&1
  echo "$c rc=$? wall=$(( $(date +%s) - s ))s $(tail -1 /tmp/verif_quick_$c.log | cut -c1-200)" >> /tmp/verif_quick_all.log
done
