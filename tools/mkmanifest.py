#!/usr/bin/env python3
"""Regenerates /verif/MANIFEST.json from the table below (keeps it schema-valid)."""
import json
import os

HERE = os.path.dirname(os.path.dirname(os.path.abspath(__file__)))

NA = {
    "C01": "whole type checker over programs x executions; no scalar decision kernel is a necessary condition of soundness by itself and symbolic execution of the checker on a symbolic program is out of reach of every engine present (DESIGN.md 4/C01)",
    "C08": "laws quantify over heap graphs of Type/TypeInfo objects; the visitors branch on object class, not on scalars, so a solver has nothing to range over but an enumerated universe, which is enumeration - a different technique (DESIGN.md 4/C08)",
    "C19": "whole-tool text generation (stubgen) judged by two other whole tools (mypy, stubtest); no scalar decision kernel carries the property (DESIGN.md 4/C19)",
}

PENDING = "check planned in DESIGN.md but not built yet in this session"

# id -> dict(level, text, note, technique, design, thorough)
CHECKS = {}


def check(pid, category, text, note, technique, design, thorough=True, engine="symx"):
    CHECKS[pid] = dict(category=category, text=text, note=note, technique=technique, design=design, thorough=thorough, engine=engine)


check(
    "C20",
    "other",
    "bounded symbolic verification of the constant-folding kernels: for every operator x operand-kind combination the real folding functions are executed on symbolic operands (z3 Int / Float64 / symbolic-length strings); obligations: no exception can escape for any operand value (totality) and every big-int/sequence operation grows its result by at most 2**24 bits/items over its largest operand (so cost is linear in the text). (K2) the two deferral loops of semantic analysis (semanal_main.process_top_level_function / process_top_levels) run from source against an oracle for semantic_analyze_target whose answers are solver-chosen at every call under the analyzer's no-deferral-in-final-iteration contract: they return within MAX_ITERATIONS rounds, never trip their assertions, report a hang only when the cap stopped them. (K3) the daemon's import-following update (Server.fine_grained_increment_follow_imports / find_reachable_changed_modules / direct_imports) on solver-chosen import graphs with cycles, root sets and changed files terminates and processes every reachable changed module exactly once. (K4b) nine type visitors and six type relations return on every recursive alias (pair); (K5) treetransform.TransformVisitor copies 16 construct snippets without exception and print-identically; (K4) ExpressionChecker.dangerous_comparison returns (no RecursionError) for every ordered pair of recursive alias types over set/frozenset/list/tuple/dict/Mapping/unions, built by the real front end. Narrow: folding kernels, deferral loops, the daemon work-list and the strict-equality recursion only - the scalar part of 'never an internal failure or hang'. (K6) jump statements (break/continue/return/yield) at every position of nests of up to 2/3 control constructs through the real build: no internal failure, and the blocking 'outside loop/function' errors agree with CPython's compile().",
    "trusted: z3, the pysem raise-condition table in vf/symx.py (validated against CPython on boundary values at start-up), bit_length/pow as axiomatised uninterpreted functions; outside the claim: crashes from program structure, daemon mode",
    "symbolic execution of real Python source with z3 (decision-replay), exhaustive path exploration per operator/kind",
    "DESIGN.md 4/C20",
)

check(
    "C12",
    "other",
    "bounded symbolic verification of the decision functions that mirror CPython rules: reachability (consider_sys_version_info / consider_sys_platform / infer_condition_value: expression shapes enumerated, every int/str parameter and the target version symbolic; a definite answer must equal the runtime value), constant folding (folded value = the Python operator's value, for every operand), argument binding (the real argmap.map_actuals_to_formals and ExpressionChecker.check_argument_count on solver-chosen signatures x precise call shapes, oracle = CPython binding the same call), method resolution order (the real mro.calculate_mro/linearize_hierarchy/merge on TypeInfos for every hierarchy of 5/6 classes with ordered base lists of <= 3 earlier classes, oracle = CPython's type()). Counterexamples are replayed with the real mypy command against CPython before being reported.",
    "trusted: z3, pysem table, the runtime model sys.version_info=(major, minor, micro>=0, 'final', serial>=0); bitwise/float-libm operators uninterpreted; known findings: open-ended version_info comparisons; duplicate keywords through **TypedDict (known_findings.json)",
    "symbolic execution of real Python source with z3 (decision-replay) + replay against CPython",
    "DESIGN.md 4/C12",
)

check(
    "C13",
    "other",
    "bounded symbolic verification of the exit-status chain: the real Errors.format_messages_default, util.count_stats and the status expressions extracted from main.main and dmypy_server on every run are executed on symbolic diagnostics (bounded strings as bit-vector character arrays); obligation: status 0 iff no error-severity diagnostic, 2 iff blockers. (K1) ignore / error-code exactness: the real Errors.add_error_info/is_ignored_error/is_error_code_enabled/generate_unused_ignore_errors and the gate State.generate_unused_ignore_notes driven through the Errors API with solver-chosen errors (line, code, sub-code, blocker), ignore comments (bare, coded, parent codes, several codes, unused-ignore), code states and --warn-unused-ignores; an error is shown iff blocker or enabled and unmatched, unused-ignore appears iff switched on and the comment (or a listed code) suppressed nothing; (K1b) every (error code, ignore code) pair of the real code table; (K1c) the scope of an ignore comment at the top of a module in fastparse (first statement kind, decorators, comment position solver-chosen). (K1d) enabling/disabling codes: every real error code and (sub-code, parent) pair x global and per-module none/enable/disable/both through the real process_error_codes / apply_changes / is_error_code_enabled against the documented rules. (K1e) ignore-without-code generation and its gate on two lines (comment kind, errors present, skipped line, code enabled, warn-unused-ignores, whole-file ignore solver-chosen). (K3) sort_messages / sort_within_context / remove_duplicates on 3/4 records with symbolic line, column, priority, message and code: exact removal, notes follow their parents, order.",
    "trusted: z3; file names contain no ':'; --pretty source lines outside the bound; message text printable ASCII up to the stated length",
    "symbolic execution of real Python source with z3 over bounded bit-vector strings",
    "DESIGN.md 4/C13",
)

check(
    "C02",
    "other",
    "bounded symbolic verification of the freshness-decision kernels: build.validate_meta is executed on a duck-typed manager with symbolic stat results, real-valued clocks, opaque hashes and every flag combination; obligation: a returned meta implies the source content is unchanged (modulo the documented escapes bazel / fine-grained cache load / quickstart) and the data file mtime tie holds; State.is_fresh under an options proxy with symbolic flags (fresh implies meta, unchanged dependency list and unchanged suppressed-dependency import options outside daemon mode); find_stale_sccs with verify_transitive_deps/is_transitive_scc_dep on three SCCs with symbolic member freshness, dependency-hash currency, transitive-hash equality and indirect reachability (oracle: its docstring); is_transitive_scc_dep = graph reachability over every DAG and query sequence with its cache carried over; exist_removed_submodules against its specification. Counterexamples are replayed as warm-vs-cold runs of the real mypy command under three store/format configurations.",
    "trusted: z3; contract 'a content change changes size or real-valued mtime'; hash injective; that trusted cache contents reproduce cold diagnostics is outside (C11 / whole-program). Known finding: same-second same-size edit.",
    "symbolic execution of real Python source with z3 (decision-replay), replay warm vs cold",
    "DESIGN.md 4/C02",
)

check(
    "C03",
    "other",
    "bounded symbolic verification of the daemon's change detection (FileSystemWatcher._find_changed/_update on a stub file system, one step from an arbitrary recorded state) of the symbol-table snapshot differ (astdiff.compare_symbol_table_snapshots against an independent specification over symbolic snapshots), of snapshot_symbol_table/snapshot_definition on real symbol nodes with symbolic kind / module_public / externally visible flags (equal snapshots imply equal visible attributes) and of which triggers DependencyVisitor.add_dependency refuses to record (bounded symbolic strings: exactly those of builtins/typing/mypy_extensions/typing_extensions), and of mro.calculate_mro with the real TypeState (no cached subtype answer about a class survives a change of its bases). Narrow: dependency generation as a whole, AST merge/strip and propagation are whole-program code and are not claimed. (K6) astmerge.TypeReplaceVisitor on ~64 declared types of a generated module: after replacing class K or enum E no reference to the replaced TypeInfo remains reachable through the type (reflective walk as the independent oracle).",
    "trusted: z3; contract 'a content change changes size or real-valued mtime'; hash injective. Known finding: same-second same-size edit is missed by the daemon.",
    "symbolic execution of real Python source with z3 (decision-replay), replay through in-process dmypy Server vs fresh run",
    "DESIGN.md 4/C03",
)

check(
    "C16",
    "other",
    "bounded symbolic verification of the IPC framing (real frame_from_buffer/read_bytes/write_bytes on bounded symbolic byte strings: an inductive step from any state satisfying the representation invariant, a write/read round trip for every payload in the bound, and read_bytes over arbitrary chunkings followed by EOF) and of the serve loop (real Server.serve with a scripted stub IPCServer; the fault behaviour of each client chosen by the solver; every fault must leave the loop accepting and answering the next client, and no status file behind). Counterexamples replayed over a socketpair / against a real dmypy daemon.",
    "trusted: z3; struct '!L' modelled as big-endian arithmetic; stubs for socket and IPCServer; payloads non-empty; non-Windows branch; buffer cap 9/12 bytes (frame sizes beyond the cap only through the inductive argument)",
    "symbolic execution of real Python source with z3 over bounded bit-vector strings; inductive invariant step",
    "DESIGN.md 4/C16",
)

check(
    "C14",
    "other",
    "bounded symbolic verification of position normalisation only: the real Errors.report clamps and the location prefix rendered by Errors.format_messages_default are executed for every (line, column, end_line, end_column) incl. None/-1; obligations: the end position handed on and printed is never before the start, the printed column is 1-based and >= 1. Of the parser-equivalence half only the part that is mypy's own Python code is covered: BuildManager.parse_all (native-parser batches) must deserialise every file under its own path and the options that include its inline configuration (kernel shared with C17/K5; replay = native vs default parser runs). (K6) generated programs - construct snippets with position probes, module heads with ignore comments in every position, invalid texts; the solver chooses the program - are built with the default and with the native parser: identical diagnostics incl. columns and end positions, and a blocking error from one exactly when from the other. Equivalence on all other source files and 'line exists / column within the line' in general are not claimed. (K3) nodes.Context.set_line with every component symbolic (any integer incl. 0, or omitted): an explicit component is stored, an omitted one keeps the target's.",
    "trusted: z3; stub Errors self without scope/watchers; --pretty marker arithmetic only when the K3 section is present in evidence",
    "symbolic execution of real Python source with z3 (decision-replay)",
    "DESIGN.md 4/C14",
)

check(
    "C15",
    "other",
    "bounded (full 64-bit width) SMT verification of the C fast paths of mypyc's runtime: clang -O1 LLVM IR of the real CPy.h / int_ops.c is regenerated on every run and translated to z3 (bit-vector domain; integer domain with axiomatised truncating division for multiply/divide/remainder). For all operand words: whenever a fast path answers, operands and result are short tagged ints and the value is exactly Python's (+ - * // % & | ^ << >> neg invert, six comparisons, range/overflow predicates, boxing, i64/i32/i16 // and %), error sentinel iff Python raises, and every nsw/shift/division precondition on the way holds (no UB). (K2) the lowered mypyc IR of ~215 one-operation functions (every operator x int/i64/i32/i16/u8, literal operands at representation boundaries, conversions) is validated against Python semantics for all argument values, incl. error exits taken without an exception set. Counterexamples are replayed by compiling a one-operation module with mypyc and comparing with the interpreter. (K3) the native float floor division of float_ops.c (clang -O2 IR) against a transcription of CPython's float_divmod over every pair of IEEE doubles: first with add/sub/floor/fmod/division as uninterpreted functions shared by both sides (comparisons interpreted), then in z3 Float64; a refutation is realised at divisor 1.0 and replayed on a real mypyc build.",
    "trusted: z3; clang -O1 IR faithful to the C source; slow paths through PyLong are uninterpreted stubs; canonical-form invariant of boxed ints; floor-division/modulo characterised by the standard quotient-remainder lemma; float kernels and CPyLong_As* outside",
    "translation of compiler IR (LLVM) to SMT, all inputs at full width; z3",
    "DESIGN.md 4/C15",
    engine="llvm2smt",
)

check(
    "C11",
    "other",
    "bounded symbolic / typed-token verification of the cache serialisers: (K2a) flat records (CacheMeta, CacheMetaEx with error tuples, DataclassTransformSpec) with every int/bool field a symbolic term are pushed through write->read and serialize->deserialize; the same term must come back in the same field, the reader must consume exactly the writer's token kinds, and the two formats must agree (z3 decides term equality and yields distinguishing field values); (K2b) every module interface of a real build of a feature-rich sample (plus the typeshed modules it imports) is written to a typed token buffer, read back (incl. the lazy extract_symbol skipping, transcribed from the C source), fixed up and written again, the same through JSON, and all streams/dicts must coincide. Counterexamples are replayed through the real librt buffers and json as structural dumps before/after load. (K1) the byte codec of mypyc/lib-rt/internal/librt_internal.c: _write_short_int/_read_short_int/read,write_bool_internal/write_int_internal are cut out of the C file on every run, compiled with clang to LLVM IR against a scalar buffer stand-in and translated to z3 bit-vectors; round trip, byte counts, prefix dispatch and arbitrary-input behaviour at full 64-bit width, counterexamples replayed natively.",
    "trusted: z3; the typed token buffer as a model of librt.internal's byte buffers (the short-int/bool byte codec is K1; long ints, str/bytes payloads and floats are copied by CPython/memcpy and are outside); module coverage = sample + imported typeshed modules; byte determinism across hash seeds is C10",
    "symbolic execution of the real (de)serialisers over a typed token stream with symbolic field terms; LLVM IR -> SMT for the C byte codec; z3",
    "DESIGN.md 4/C11",
)

check(
    "C09",
    "other",
    "bounded symbolic verification of the two hinges of option/cache consistency: (K1) replay-path equivalence - the real Errors.file_messages/sort/remove_duplicates/render_messages/simplify_path/format_messages_default run under an Options proxy whose every attribute read is a fresh symbolic value per run, keyed options (OPTIONS_AFFECTING_CACHE, re-read from the source) equal in both runs; what a warm run replays (rendered under the old options, formatted under the new) must equal what a cold run prints; (K2) two symbolic option vectors differing on any keyed bool option have different snapshots; (K2b) the same for every keyed list/set/string option with symbolic elements - plugins compared as an ordered list, other collections as sets; (K1b) the same two-run comparison one step earlier, through Errors.report/add_error_info, with symbolic flags and error-code sets: an option read while diagnostics are stored must be in the key. Completeness of the key with respect to options read inside the semantic analyser/checker is NOT claimed (whole-program).",
    "trusted: z3; snapshot hash injective; same working directory in both runs; non-bool options at defaults in K1",
    "symbolic execution of real Python source with z3 (decision-replay) under a recording options proxy; replay = two real runs sharing a cache vs a cold run",
    "DESIGN.md 4/C09",
    thorough=False,
)

check(
    "C17",
    "other",
    "(K1) z3 regular-expression equivalence, unbounded in name length, between the regex the real Options.compile_glob emits and the documented rule ('stars match zero or more module components') for every unstructured pattern of <= 3/4 components over {a,b,*}; (K2) symbolic execution of the real build_per_module_cache/clone_for_module/apply_changes on solver-chosen section sets in solver-chosen file order with symbolic option values: the resolved value must be the term of the winner under the documented precedence (concrete > unstructured, later wins > structured, more specific wins > global). (K3) every boolean flag of the real argparse table x config value x ini/toml through the real parse_section sets the same attribute as the flag (inversions no_/allow_/disallow_/show_ consistent; documented keys accepted); (K4) pyproject override tables vs the equivalent ini sections; (K5) inline configuration is in force when BuildManager.parse_all deserialises a batch. Non-boolean options and the parsing of inline comments are not covered.",
    "trusted: z3 (sequence/regex theory); translation of the emitted regex subset (fails closed); K2 takes unstructured membership from the real compile_glob. Known finding: leading '*'.",
    "z3 regex language equivalence + symbolic execution of real Python source (decision-replay)",
    "DESIGN.md 4/C17",
)

check(
    "C18",
    "other",
    "symbolic-file-system verification: the real SourceFinder (crawl_up, find_sources_in_dir) and FindModuleCache (find_module with verify_module / namespace near-misses) run against a stub FileSystemCache whose existence answers are z3 booleans under file-system sanity constraints, so the solver explores every directory layout (names {xa,xb}, .py/.pyi/__init__ files, depth 2 below the root (depth 3 was tried as the thorough tier and does not finish within hours, so no thorough command is registered), namespace_packages and explicit_package_bases symbolic) that the two implementations can distinguish. Obligations: the module name assigned to a named file resolves, over the derived root, to that file or a documented shadow; two files under one root get the same module name only as a documented pair; directory form and file form assign the same (module, base).",
    "trusted: z3; sanity model of the file system (no symlinks, case-sensitive); documented shadowing allowed; -p/-m forms, typeshed and site-packages outside",
    "symbolic execution of real Python code over a symbolic file system (z3-decided existence answers), partitioned over 14 processes",
    "DESIGN.md 4/C18",
    thorough=False,
)

check(
    "C04",
    "other",
    "solver-chosen fault schedules replayed end to end: after an edit, run 2 is executed by the real mypy command with the metadata-store classes wrapped from outside (vf/shim/sitecustomize.py, guarded by PYTHON_MYPY_VERIF=1); the schedule - the store operation before which the process is killed (os._exit) and/or the subset of writes that fail - is a set of z3 variables whose every value within the bound is explored; run 3 (warm) must print exactly what a cold run prints. Both stores, two edit kinds. (A deeper tier - a third edit kind, two failing writes, -n 2 with faults in every process - exists in the driver but is not registered: on the unchanged tree it reports 15 further members of the known meta/meta_ex family and three sqlite histories whose classification is unfinished; see DESIGN.md 4/C04.) Each violating history is identified canonically by which records the interrupted run left durable.",
    "trusted: z3 (schedule enumeration only); kill = os._exit before a store operation; operations themselves atomic; whole-second source mtimes kept distinct. Known findings: new meta accepted with stale meta_ex.",
    "fault-schedule exploration driven by z3 over the real store protocol, replayed end to end (warm vs cold)",
    "DESIGN.md 4/C04",
    thorough=False,
)

check(
    "C07",
    "other",
    "bounded symbolic verification of the coordinator's scheduling kernel: the scheduling loop extracted from build.process_graph and the real BuildManager.submit/submit_to_workers/get_scc_batch/max_batch_size/wait_for_done/wait_for_done_workers run on a shell manager with stubbed transport; the solver chooses the SCC DAG (3/4 SCCs), the size hints, the number of workers (1..3) and, at every wait, which busy workers' responses arrive, and for every ready wave which SCCs find_stale_sccs reports fresh (mixed fresh/stale waves). For every schedule: an SCC is sent only after its dependencies reported interface-done, every SCC is sent exactly once, a worker gets a batch only after its implementation response, the loop terminates with everything done, bookkeeping stays in range. Worker side (W1): the real maybe_load_deps + State.reload_meta on solver-chosen DAGs, already-loaded sets and broadcast interface hashes - every dependency SCC is loaded once in order and carries the interface hash that is in the cache now; (W2) process_stale_scc_interface/_implementation with a recording store - every written record is committed before the next module is written and before the function returns. (W3) generated classes through the real front end: every function enclosing the first assignment to a member of self carries def_or_infer_vars (the interface phase visits only flagged functions). Equality of diagnostics with the sequential build is not claimed (needs real workers). (W4) worker.load_states on batches of 2/3 modules: an import error recorded by the coordinator is replayed under the options of its own module (real Errors object; batch order, per-module disabled code, raw data vs parse, ignore comment solver-chosen).",
    "trusted: z3; stubs for send/ready_to_read/receive/response decoding; find_stale_sccs replaced by a solver-chosen split; workers answer each batch with one interface and one implementation response",
    "symbolic execution of real Python source with z3 (decision-replay) over all completion orders within the bound, partitioned over processes",
    "DESIGN.md 4/C07",
)

check(
    "C10",
    "other",
    "bounded symbolic verification that the ordering kernels do not depend on set iteration order: graph_utils.strongly_connected_components/prepare_sccs/topsort and build.sorted_components_inner/order_ascc/deps_filtered/transitive_dep_hash are executed from a source rewrite in which every set/frozenset (constructor calls, displays, comprehensions) iterates in an order given by solver-chosen ranks (a hash-seed model); graphs over 3 modules (every edge absent/direct/indirect) and State.order permutations are solver-chosen too; the SCC sequence, the order inside SCCs and the token stream fed to the transitive-dependency hash must equal the canonical ones; the real find_stale_sccs/order_ascc_ex on the fully fresh graph with solver-chosen 'module has cached diagnostics' flags must flush cached diagnostics in the canonical order. (H1) two builds in one process with solver-chosen typeshed tables and target versions: after the per-build resets of build.build the known-modules memo gives the second build what a fresh process gets. (S1) messages.best_matches with solver-ranked candidate sets returns the canonical suggestion list. (H2) constraints.infer_constraints on real protocol / NamedTuple / tuple types leaves the shared recursion-guard stacks as it found them. Narrow: whole-run hash-seed independence and independence from earlier builds in the same process are not encodable and not claimed. (S2) Options.select_options_affecting_cache with every set-valued keyed option as a solver-ordered set: the value list hashed into cache records is order-independent. (S3) State.patch_indirect_dependencies / add_dependency with the detector's result and the module references as solver-ordered sets: the recorded dependency list is order-independent.",
    "trusted: z3; set iteration modelled as a per-run total order on elements; typed token buffer instead of WriteBuffer for the hash input",
    "symbolic execution of a source rewrite of the real code with solver-chosen set iteration orders; replay under 48 PYTHONHASHSEEDs",
    "DESIGN.md 4/C10",
)

check(
    "C06",
    "other",
    "ownership bounded model checking of the final mypyc IR: for every function of the mypyc test-data programs that build with the IR fixture (quick: 13 files, ~1100 functions; thorough: all irbuild/run/lowering/opt files) and of a generated corpus of ownership-relevant program shapes (displays, one-branch definitions, loops, try/finally, tuples), the FuncIR produced by the real compile_scc_to_ir pipeline is encoded in passive form over its CFG with loops peeled twice (per value: owned-reference count and error flag, ITE-merged; IS_ERROR branches tied to error flags; all other branch outcomes and op error flags free) and z3 discharges, per return and per decrement, that every value is released exactly once on every path incl. every exceptional exit and never over-released. Static half only. (K-glue) the C constructor (tp_new) emitted by the real emitclass.generate_new_for_class, compiled to LLVM IR with Py_DECREF redirected to a recorded external call: the new object is released exactly once on a failing __init__, never when returned; __init__'s result exactly once. The emitted call wrappers of functions with *args/**kwargs release the parser-created tuple/dict exactly once on every path. In __init__ functions a per-attribute 'may already hold a value' state makes every SetAttr marked as initialiser (no release of the old value) an obligation.",
    "trusted: z3; op ownership metadata (stolen/is_borrowed/error_kind/is_xdec) and its faithful emission as C; stated modelling rules (error value transfers nothing, unborrow hands over the aggregate, slot release before set_mem, out-parameter registers, dropped branch targets); loops peeled twice; dynamic leak observation, use-after-release of borrowed values and always-defined attributes outside",
    "bounded model checking of compiler IR with z3 (passive form, all paths and error flags)",
    "DESIGN.md 4/C06",
    engine="mypycir",
)

check(
    "C05",
    "translation_validation",
    "translation validation restricted to the int / bool / fixed-width fragment: for each function of a generated corpus (120 quick / 1500 thorough functions, <= 3 int parameters, expression trees to depth 3 with if/elif/else, conditional expressions, chained comparisons, and/or/not, augmented assignment, early return, literals; a second family with for/while loops, break/continue and symbolic trip counts) and of the one-operation corpus, the final IR of the real mypyc pipeline is executed symbolically next to the Python source itself on pysem proxies; z3 discharges per path, for ALL argument values (tagged words under the canonical-form invariant), that the compiled function returns the same value in canonical representation or raises the same exception type. Counterexamples are replayed by a real mypyc build. (K-slots) the C slot wrappers the real emitwrapper generators emit for __hash__/__len__/__bool__/__contains__ of a native class are compiled with clang to LLVM IR and checked with z3 against CPython's slot protocol under an explicit model of the error indicator: -1 exactly when an exception is left set, values passed on exactly, hash -1 -> -2, big hashes reduced, negative lengths rejected.",
    "trusted: z3; runtime helpers as contracts (vf/irsem.py), their fast paths verified in C15/K1; uninterpreted bitwise/pow2 functions shared by both sides; C emission other than the four slot wrappers, optimisation levels and build modes not modelled; objects/containers/classes/generators outside",
    "translation validation of compiler IR against source semantics with z3 (symbolic execution of both sides, all inputs)",
    "DESIGN.md 4/C05",
    engine="mypycir",
)

ALL = [f"C{i:02d}" for i in range(1, 21)]


def main():
    checks = []
    for pid in ALL:
        if pid not in CHECKS:
            continue
        c = CHECKS[pid]
        e = {
            "property_id": pid,
            "quick_cmd": f"bin/check {pid} --tier quick",
            "evidence_file": f"evidence/{pid}.json",
            "replay_cmd_template": f"bin/check {pid} --replay {{path}}",
            "engine": c["engine"],
            "level_claimed": {"category": c["category"], "text": c["text"], "design_ref": c["design"]},
            "level_note": c["note"],
            "technique": c["technique"],
        }
        if c["thorough"]:
            e["thorough_cmd"] = f"bin/check {pid} --tier thorough"
        checks.append(e)
    na = []
    for pid in ALL:
        if pid in CHECKS:
            continue
        na.append({"property_id": pid, "reason": NA.get(pid, PENDING)})
    m = {
        "version": 1,
        "setup_cmd": "./setup.sh",
        "hooks": {
            "guard": "PYTHON_MYPY_VERIF",
            "enable": "no source hooks: all stubbing is done from the harness side; bin/check exports PYTHON_MYPY_VERIF=1 for replay shims only",
            "baseline_off_cmd": "cd /repo && /venv/bin/python -m pytest -ra -q -p no:cacheprovider --timeout=900 --continue-on-collection-errors -n 14",
            "source_commits": [],
            "add_only": True,
        },
        "engines": [
            {"name": "llvm2smt", "path": "vf/llvm2smt.py", "serves_properties": sorted(p for p, c in CHECKS.items() if "llvm2smt" in c["engine"]), "kind_free_text": "clang -O1 -emit-llvm of the real lib-rt C sources, loop-free functions translated to z3 (bit-vector and integer domains), stubs for slow paths, no-UB obligations from nsw/nuw/shift/division"},
            {"name": "mypycir", "path": "vf/mypycir.py + vf/ownership.py", "serves_properties": sorted(p for p, c in CHECKS.items() if "mypycir" in c["engine"]), "kind_free_text": "final mypyc FuncIR from the real compile_scc_to_ir pipeline; ownership BMC in passive form over the loop-peeled CFG (z3)"},
            {"name": "symx", "path": "vf/symx.py", "serves_properties": sorted(p for p, c in CHECKS.items() if "symx" in c["engine"]), "kind_free_text": "decision-replay symbolic executor on z3: real Python functions re-read from /repo, builtins re-pointed at proxy-aware shims by AST rewrite, one re-execution per feasible path"},
        ],
        "checks": checks,
        "not_applicable": na,
        "notes": "Solver-based checking of the real code; every claim is bounded (see DESIGN.md). Exit 2 = harness error / inconclusive, never reported as success.",
    }
    with open(os.path.join(HERE, "MANIFEST.json"), "w") as f:
        json.dump(m, f, indent=1)
        f.write("\n")


if __name__ == "__main__":
    main()
